"""Independent specification functions over DendroPy trees.

These read only the raw representation (`_child_nodes`, `_parent_node`, `_edge`,
`_head_node`, `taxon`, `length`, `label`) and never call the library's own
traversals, so they can serve as oracles for them."""


def kids(n):
    return list(n._child_nodes)


def bfs_nodes(root):
    """All nodes reachable from root through _child_nodes (with repetition guard)."""
    out, seen, q = [], set(), [root]
    while q:
        n = q.pop(0)
        if id(n) in seen:
            continue
        seen.add(id(n))
        out.append(n)
        q.extend(n._child_nodes)
    return out


def arborescence_errors(tree, check_edges=True):
    """The well-formedness predicate of C03, stated directly on the pointers."""
    errs = []
    seed = tree._seed_node
    if seed is None:
        return ["seed node is None"]
    if seed._parent_node is not None:
        errs.append("seed has a parent")
    seen = {}
    stack = [seed]
    order = []
    while stack:
        n = stack.pop()
        if id(n) in seen:
            errs.append("node reached twice (shared or cyclic): %r" % (getattr(n, "label", None),))
            continue
        seen[id(n)] = n
        order.append(n)
        ch = n._child_nodes
        if not isinstance(ch, list):
            errs.append("_child_nodes is not a list")
            continue
        ids = [id(c) for c in ch]
        if len(set(ids)) != len(ids):
            errs.append("a node lists the same child twice")
        for c in ch:
            if c is None:
                errs.append("None child")
                continue
            if c._parent_node is not n:
                errs.append("child's _parent_node is not the node listing it")
            stack.append(c)
        if check_edges:
            e = n._edge
            if e is None:
                errs.append("node without edge")
            else:
                if e._head_node is not n:
                    errs.append("edge.head_node is not the node")
                try:
                    tail = e.tail_node
                except Exception as ex:  # pragma: no cover
                    tail = ex
                if tail is not n._parent_node:
                    errs.append("edge.tail_node is not the parent")
    if check_edges:
        es = [id(n._edge) for n in order if n._edge is not None]
        if len(set(es)) != len(es):
            errs.append("an edge object is shared by two nodes")
    return errs


def pre(n):
    out = [n]
    for c in n._child_nodes:
        out.extend(pre(c))
    return out


def post(n):
    out = []
    for c in n._child_nodes:
        out.extend(post(c))
    out.append(n)
    return out


def leaves(n):
    if not n._child_nodes:
        return [n]
    out = []
    for c in n._child_nodes:
        out.extend(leaves(c))
    return out


def level(root):
    out, q = [], [root]
    while q:
        n = q.pop(0)
        out.append(n)
        q.extend(n._child_nodes)
    return out


def leaf_taxa_multiset(tree):
    d = {}
    for l in leaves(tree._seed_node):
        k = id(l.taxon) if l.taxon is not None else None
        d[k] = d.get(k, 0) + 1
    return d


def clade(n):
    """frozenset of taxa (objects) on the leaves below n."""
    return frozenset(l.taxon for l in leaves(n) if l.taxon is not None)


def clade_labels(n):
    return frozenset(l.taxon.label for l in leaves(n) if l.taxon is not None)


def rooted_clades(tree, labels=True):
    """Set of clades (as frozensets) of every node: the rooted topology up to
    child order and unifurcations."""
    f = clade_labels if labels else clade
    return frozenset(f(n) for n in pre(tree._seed_node))


def unrooted_splits(tree, labels=True):
    """Set of unordered bipartitions {A, L\\A} of the leaf label set."""
    f = clade_labels if labels else clade
    L = f(tree._seed_node)
    out = set()
    for n in pre(tree._seed_node):
        a = f(n)
        b = L - a
        out.add(frozenset([a, b]))
    return frozenset(out)


def nontrivial_unrooted_splits(tree, labels=True):
    return frozenset(s for s in unrooted_splits(tree, labels) if all(len(x) >= 2 for x in s) and len(s) == 2)


def elen(n):
    e = n._edge
    return None if e is None else e.length


def root_dist(n):
    d = 0
    while n._parent_node is not None:
        d += (elen(n) or 0)
        n = n._parent_node
    return d


def path_lengths(tree, by_label=True):
    """dict frozenset({a,b}) -> sum of edge lengths on the path (None counted 0)
    and number of edges, computed from parent pointers only."""
    ls = leaves(tree._seed_node)
    out = {}
    for i, a in enumerate(ls):
        anc = {}
        n, d, k = a, 0, 0
        while n is not None:
            anc[id(n)] = (d, k, n)
            d += (elen(n) or 0)
            k += 1
            n = n._parent_node
        for b in ls[i + 1:]:
            n, d2, k2 = b, 0, 0
            while id(n) not in anc:
                d2 += (elen(n) or 0)
                k2 += 1
                n = n._parent_node
            d1, k1, m = anc[id(n)]
            ka = a.taxon.label if by_label and a.taxon is not None else id(a)
            kb = b.taxon.label if by_label and b.taxon is not None else id(b)
            out[frozenset([ka, kb])] = (d1 + d2, k1 + k2, m)
    return out


def total_length(tree):
    return sum((elen(n) or 0) for n in pre(tree._seed_node))


def ordered_dump(n, with_lengths=True, with_labels=True):
    """Ordered structural dump: (taxon label, node label, length, children...)."""
    t = n.taxon.label if n.taxon is not None else None
    return (
        t,
        n.label if with_labels else None,
        elen(n) if with_lengths else None,
        tuple(ordered_dump(c, with_lengths, with_labels) for c in n._child_nodes),
    )


def tree_dump(tree, **kw):
    return (tree.is_rooted if tree.is_rooted is not None else None, ordered_dump(tree._seed_node, **kw))


def newick(n, lengths=True):
    """Spec-side Newick rendering (labels unquoted) for witnesses."""
    s = ""
    if n._child_nodes:
        s = "(" + ",".join(newick(c, lengths) for c in n._child_nodes) + ")"
    if n.taxon is not None:
        s += str(n.taxon.label)
    elif getattr(n, "label", None):
        s += str(n.label)
    l = elen(n)
    if lengths and l is not None:
        s += ":%s" % (l,)
    return s


def tree_newick(tree, lengths=True):
    r = {True: "[&R] ", False: "[&U] ", None: ""}[tree.is_rooted if tree.is_rooted is None else bool(tree.is_rooted)]
    return r + newick(tree._seed_node, lengths) + ";"
