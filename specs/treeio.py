"""Independent oracles for tree (de)serialisation properties (C02, C13, C20).

A *plain tree spec* is JSON-able and never touches DendroPy:

    node  = [taxon_label|None, node_label|None, length|None, [child nodes...]]
    tree  = {"rooted": True|False|None, "root": node, "weight": number|None}
    doc   = {"ns": [labels in namespace order], "trees": [tree, ...]}

`observe(tree_obj)` turns a DendroPy tree into the same plain form by reading raw
pointers only (`_seed_node`, `_child_nodes`, `_edge.length`, `taxon`, `label`), so
an expected spec written down *before* serialisation can be compared with what a
reader delivered without calling any library traversal or comparison."""
from specs import trees as S


# ----------------------------------------------------------------------------- observation
def observe_node(n):
    t = n.taxon.label if n.taxon is not None else None
    e = n._edge
    return [t, n.label, (None if e is None else e.length), [observe_node(c) for c in n._child_nodes]]


def observe(tree):
    r = tree.is_rooted
    return {"rooted": (None if r is None else bool(r)), "root": observe_node(tree._seed_node),
            "weight": getattr(tree, "weight", None)}


def ns_labels(ns):
    return [t.label for t in ns._taxa]


# ----------------------------------------------------------------------------- rendering (witness keys)
def _q(s):
    import json

    return json.dumps(s)  # ASCII, stable


def render_node(n, root=True):
    s = ""
    if n[3]:
        s = "(" + ",".join(render_node(c, False) for c in n[3]) + ")"
    if n[0] is not None:
        s += _q(n[0])
    if n[1] is not None:
        s += "#" + _q(n[1])
    if n[2] is not None:
        s += ":%r" % (n[2],)
    return s


def render_tree(t):
    r = {True: "[&R]", False: "[&U]", None: "[&?]"}[t["rooted"]]
    w = "" if t.get("weight") is None else "[&W %r]" % (t["weight"],)
    return r + w + render_node(t["root"]) + ";"


def render_doc(doc):
    return " ".join(render_tree(t) for t in doc["trees"]) + " ns=" + ",".join(_q(x) for x in doc["ns"])


# ----------------------------------------------------------------------------- comparison
def _same_len(a, b):
    if a is None or b is None:
        return a is None and b is None
    return a == b  # 1 == 1.0: the value is what a text format can carry


def diff_node(exp, got, path, out, root_none_is_zero=False):
    """Append (clause, detail) for every difference between two plain nodes."""
    if len(exp[3]) != len(got[3]):
        out.append(("topology", "node %s: %d children written, %d read" % (path or "root", len(exp[3]), len(got[3]))))
        return
    if exp[0] != got[0]:
        out.append(("taxa", "node %s: taxon %r written, %r read" % (path or "root", exp[0], got[0])))
    if exp[1] != got[1]:
        out.append(("labels", "node %s: label %r written, %r read" % (path or "root", exp[1], got[1])))
    if not _same_len(exp[2], got[2]):
        if path == "" and root_none_is_zero and exp[2] is None and got[2] == 0:
            pass  # the format renders a missing root-edge length as 0
        elif exp[2] is None and got[2] == 0:
            out.append(("missing_length", "node %s: no length written, %r read" % (path or "root", got[2])))
        else:
            out.append(("lengths", "node %s: length %r written, %r read" % (path or "root", exp[2], got[2])))
    for i, (a, b) in enumerate(zip(exp[3], got[3])):
        diff_node(a, b, path + "/%d" % i, out, root_none_is_zero)


def diff_tree(exp, got, root_none_is_zero=False, undefined_reads_as=None, check_weight=False):
    """exp, got: plain trees.  undefined_reads_as: the value an undefined rooting
    state is allowed to come back as *in addition to* None (NeXML: False)."""
    out = []
    diff_node(exp["root"], got["root"], "", out, root_none_is_zero)
    if exp["rooted"] is None:
        if got["rooted"] is not None and got["rooted"] != undefined_reads_as:
            out.append(("rooting", "undefined rooting written, %r read" % (got["rooted"],)))
    elif exp["rooted"] != got["rooted"]:
        out.append(("rooting", "rooting %r written, %r read" % (exp["rooted"], got["rooted"])))
    if check_weight and exp.get("weight") is not None and exp["weight"] != got.get("weight"):
        out.append(("weights", "weight %r written, %r read" % (exp["weight"], got.get("weight"))))
    return out


def labels_used(doc):
    out = []

    def rec(n):
        if n[0] is not None and n[0] not in out:
            out.append(n[0])
        for c in n[3]:
            rec(c)

    for t in doc["trees"]:
        rec(t["root"])
    return out


def taxon_identity_errors(tree, ns):
    """every node's taxon must be the member of `ns` carrying that label (same object)"""
    by_label = {}
    for t in ns._taxa:
        by_label.setdefault(t.label, []).append(t)
    errs = []
    for n in S.pre(tree._seed_node):
        if n.taxon is None:
            continue
        cands = by_label.get(n.taxon.label, [])
        if not any(c is n.taxon for c in cands):
            errs.append("taxon %r on a node is not a member of the tree's namespace" % (n.taxon.label,))
    if tree.taxon_namespace is not ns:
        errs.append("tree.taxon_namespace is not the collection's namespace")
    return errs


# ----------------------------------------------------------------------------- full observation (C13)
def _annots(item):
    a = getattr(item, "_annotations", None)
    if not a:
        return []
    out = []
    for x in a:
        out.append([str(x.name), repr(x.value)])
    out.sort()
    return out


def _comments(item):
    c = getattr(item, "comments", None)
    return [str(x) for x in c] if c else []


def observe_node_full(n):
    t = n.taxon.label if n.taxon is not None else None
    e = n._edge
    return {
        "taxon": t, "label": n.label, "length": (None if e is None else e.length),
        "comments": _comments(n), "annotations": _annots(n),
        "edge_label": (None if e is None else getattr(e, "label", None)),
        "edge_comments": ([] if e is None else _comments(e)), "edge_annotations": ([] if e is None else _annots(e)),
        "children": [observe_node_full(c) for c in n._child_nodes],
    }


def observe_full(tree):
    """Everything C13 lists: topology, labels, lengths, rooting, weight, comments, annotations."""
    r = tree.is_rooted
    return {"rooted": (None if r is None else bool(r)), "weight": getattr(tree, "weight", None),
            "comments": _comments(tree), "annotations": _annots(tree), "root": observe_node_full(tree._seed_node)}


def first_difference(a, b, path=""):
    """first differing position of two JSON-like values, as a short string, or None"""
    if type(a) != type(b) and not (isinstance(a, (int, float)) and isinstance(b, (int, float))):
        return "%s: %r vs %r" % (path or ".", a, b)
    if isinstance(a, dict):
        for k in sorted(set(a) | set(b)):
            if k not in a or k not in b:
                return "%s/%s: present on one side only" % (path, k)
            d = first_difference(a[k], b[k], path + "/" + str(k))
            if d:
                return d
        return None
    if isinstance(a, list):
        if len(a) != len(b):
            return "%s: %d vs %d elements" % (path or ".", len(a), len(b))
        for i, (x, y) in enumerate(zip(a, b)):
            d = first_difference(x, y, path + "/%d" % i)
            if d:
                return d
        return None
    if a != b:
        return "%s: %r vs %r" % (path or ".", a, b)
    return None
