"""Independent specification functions for C11 (namespace closure of collections).

Everything is decided by object identity on the raw representation:
`obj._taxon_namespace`, `ns._taxa` (the list of member taxa), `tree._seed_node`,
`node._child_nodes`, `node.taxon`, `matrix._taxon_sequence_map`.  No library lookup
(`in`, get_taxon, has_taxon ...) is used."""
from specs import trees as S


def ns_of(obj):
    return obj._taxon_namespace


def members(ns):
    return list(ns._taxa)


def is_member(ns, taxon):
    return any(t is taxon for t in ns._taxa)


def tree_nodes(tree):
    return S.pre(tree._seed_node) if tree._seed_node is not None else []


def tree_labels(tree):
    """preorder list of taxon labels (None for nodes without taxon)"""
    return [None if n.taxon is None else n.taxon.label for n in tree_nodes(tree)]


def tree_taxa(tree):
    return [n.taxon for n in tree_nodes(tree)]


def tree_own_errors(tree):
    """a tree (inside or outside a collection) is consistent with its own namespace"""
    errs = []
    ns = ns_of(tree)
    if ns is None:
        return ["tree has no namespace"]
    for n in tree_nodes(tree):
        if n.taxon is not None and not is_member(ns, n.taxon):
            errs.append("node taxon %r is not a member of the tree's namespace" % (n.taxon.label,))
    return errs


def treelist_closure_errors(tl):
    """CL(list): every tree refers to the list's own namespace object and every taxon
    referenced by its nodes is a member of that namespace"""
    errs = []
    ns = ns_of(tl)
    for i, t in enumerate(tl._trees):
        if ns_of(t) is not ns:
            errs.append("tree %d refers to another namespace object than its list" % i)
        for n in tree_nodes(t):
            if n.taxon is not None and not is_member(ns, n.taxon):
                errs.append("tree %d: taxon %r is not a member of the list's namespace" % (i, n.taxon.label))
    return errs


def matrix_closure_errors(m):
    errs = []
    ns = ns_of(m)
    for t in m._taxon_sequence_map:
        if not is_member(ns, t):
            errs.append("sequence taxon %r is not a member of the matrix's namespace" % (t.label,))
    return errs


def same_label(actual, expected, case_sensitive):
    if actual is None or expected is None:
        return actual is None and expected is None
    if case_sensitive:
        return actual == expected
    return actual.lower() == expected.lower()


def label_function_errors(pairs):
    """pairs: (exact original label, taxon object) of items that were brought into one
    namespace by label: exactly equal labels must sit on one and the same taxon"""
    errs = []
    seen = {}
    for lab, tx in pairs:
        if lab is None:
            continue
        if lab in seen and seen[lab] is not tx:
            errs.append("items labelled %r sit on two different taxa" % (lab,))
        seen.setdefault(lab, tx)
    return errs


def distinct_label_errors(pairs, case_sensitive):
    """items with different labels on different taxa (labels that differ only in case
    are 'different' only under a case-sensitive namespace)"""
    errs = []
    by_taxon = {}
    for lab, tx in pairs:
        if lab is None or tx is None:
            continue
        k = lab if case_sensitive else lab.lower()
        d = by_taxon.setdefault(id(tx), set())
        d.add(k)
    for labs in by_taxon.values():
        if len(labs) > 1:
            errs.append("items with different labels %s were merged onto one taxon" % sorted(labs))
    return errs
