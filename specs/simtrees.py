"""Independent predicates for C18 (simulated trees), from raw pointers only."""
import json


def kids(n):
    return n._child_nodes


def pre(n):
    out, stack = [], [n]
    while stack:
        x = stack.pop()
        out.append(x)
        stack.extend(reversed(x._child_nodes))
    return out


def leaves(n):
    return [x for x in pre(n) if not x._child_nodes]


def elen(n):
    e = n._edge
    return None if e is None else e.length


def node_dump(n):
    return [
        n.taxon.label if n.taxon is not None else None,
        n.label,
        repr(elen(n)),
        [node_dump(c) for c in n._child_nodes],
    ]


def tree_dump(tree):
    """complete ordered dump (rooting flag, namespace labels in order, ordered nodes with
    taxon label / node label / exact edge length) as a canonical string"""
    return json.dumps([tree.is_rooted, [t.label for t in tree.taxon_namespace], node_dump(tree._seed_node)])


def non_bifurcating_nodes(root):
    return [n for n in pre(root) if len(n._child_nodes) not in (0, 2)]


def root_tip_distances(root):
    """[(leaf, distance)] with None lengths reported as None distance"""
    out = []
    stack = [(root, 0.0)]
    while stack:
        n, d = stack.pop()
        if not n._child_nodes:
            out.append((n, d))
        for c in n._child_nodes:
            l = elen(c)
            stack.append((c, None if (d is None or l is None) else d + l))
    return out


def equidistant(root, rel=1e-9):
    """(ok, min, max) of root-to-tip distances, relative tolerance"""
    ds = [d for _, d in root_tip_distances(root)]
    if any(d is None for d in ds):
        return False, None, None
    lo, hi = min(ds), max(ds)
    return (hi - lo) <= rel * max(abs(hi), abs(lo), 1e-300) or hi == lo, lo, hi


def ancestors_with_dist(n):
    """[(ancestor-or-self, distance from n)] walking parent pointers"""
    out, d = [], 0.0
    while n is not None:
        out.append((n, d))
        if n._parent_node is not None:
            d = d + elen(n)
        n = n._parent_node
    return out


def mrca_dists(a, b):
    """(mrca, dist(a, mrca), dist(b, mrca))"""
    anc = dict((id(x), (x, d)) for x, d in ancestors_with_dist(a))
    for x, d in ancestors_with_dist(b):
        if id(x) in anc:
            return x, anc[id(x)][1], d
    return None, None, None


def containment_violations(gene_root, species_root, species_of, rel=1e-9):
    """A gene tree inside a species tree: two gene lineages sampled from different species
    s1, s2 can only join in a population ancestral to both, i.e. after each has travelled at
    least the path from its species' tip to mrca(s1, s2).  Returns offending pairs.

    species_of: gene leaf -> species leaf node"""
    bad = []
    gl = leaves(gene_root)
    for i, g1 in enumerate(gl):
        for g2 in gl[i + 1:]:
            s1, s2 = species_of(g1), species_of(g2)
            if s1 is s2:
                continue
            _, dg1, dg2 = mrca_dists(g1, g2)
            _, ds1, ds2 = mrca_dists(s1, s2)
            if dg1 is None or ds1 is None:
                bad.append((g1, g2, None, None))
                continue
            if dg1 < ds1 * (1 - rel) - 1e-12 or dg2 < ds2 * (1 - rel) - 1e-12:
                bad.append((g1, g2, (dg1, dg2), (ds1, ds2)))
    return bad
