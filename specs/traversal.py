"""Reference definitions of the tree traversals (oracles of C15).

Everything here is a direct recursive definition over the raw pointers
(`_child_nodes`, `_parent_node`, `_edge`); none of DendroPy's iterators is
called.  Sequences are returned as lists of node objects."""


def pre(n):
    """parents before children, siblings left to right (depth first)"""
    out = [n]
    for c in n._child_nodes:
        out.extend(pre(c))
    return out


def post(n):
    """children (left to right, each subtree completely) before the parent"""
    out = []
    for c in n._child_nodes:
        out.extend(post(c))
    out.append(n)
    return out


def leaves(n):
    """leaves of the subtree, left to right"""
    if not n._child_nodes:
        return [n]
    out = []
    for c in n._child_nodes:
        out.extend(leaves(c))
    return out


def is_binary(n):
    """every node of the subtree has 0 or 2 children"""
    k = len(n._child_nodes)
    if k == 0:
        return True
    if k != 2:
        return False
    return is_binary(n._child_nodes[0]) and is_binary(n._child_nodes[1])


def inorder(n):
    """left subtree, node, right subtree; defined on binary subtrees only"""
    if not n._child_nodes:
        return [n]
    l, r = n._child_nodes
    return inorder(l) + [n] + inorder(r)


def depth_below(start, n):
    """number of edges from n up to start (n must be in the subtree of start)"""
    d = 0
    while n is not start:
        n = n._parent_node
        d += 1
    return d


def subtree_nodes(n):
    return pre(n)


def internal(seq, exclude_seed):
    """the non-leaves of seq; 'seed' = the node without a parent"""
    return [x for x in seq if x._child_nodes and not (exclude_seed and x._parent_node is None)]


def ancestors(n, inclusive):
    out = [n] if inclusive else []
    p = n._parent_node
    while p is not None:
        out.append(p)
        p = p._parent_node
    return out


def apply_trace(n):
    """bracket word of the callback walk: ('b', x) ... ('a', x) around the
    children of an internal node x, ('l', x) for a leaf"""
    if not n._child_nodes:
        return [("l", n)]
    out = [("b", n)]
    for c in n._child_nodes:
        out.extend(apply_trace(c))
    out.append(("a", n))
    return out


def skeleton(trace, name):
    """Newick skeleton spelled by a callback trace: '(' on before, the leaf
    name on leaf, ')' + name on after, commas between siblings."""
    s = []
    prev = None
    for kind, x in trace:
        if kind == "b":
            if prev in ("l", "a"):
                s.append(",")
            s.append("(")
        elif kind == "l":
            if prev in ("l", "a"):
                s.append(",")
            s.append(name(x))
        else:
            s.append(")" + name(x))
        prev = kind
    return "".join(s)


def newick_skeleton(n, name):
    """the same string by direct recursion"""
    if not n._child_nodes:
        return name(n)
    return "(" + ",".join(newick_skeleton(c, name) for c in n._child_nodes) + ")" + name(n)


def is_permutation_of(seq, expected):
    """seq holds every object of expected exactly once (identity) and nothing else"""
    if len(seq) != len(expected):
        return False
    a = sorted(id(x) for x in seq)
    b = sorted(id(x) for x in expected)
    return a == b and len(set(a)) == len(a)


def monotone(values, descending=False):
    for x, y in zip(values, values[1:]):
        if descending:
            if x < y:
                return False
        else:
            if x > y:
                return False
    return True


def height(n):
    """max number of edges down to a leaf"""
    if not n._child_nodes:
        return 0
    return 1 + max(height(c) for c in n._child_nodes)
