"""Independent oracles for split / bipartition properties (C01, C04, C14).

Everything here is computed from the raw representation (`_child_nodes`,
`_parent_node`, `_edge.length`, `taxon.label`) and from a label -> bit table that
the *driver* fixes when it creates the namespace (bit = order of creation), never
from `TaxonNamespace.taxon_bitmask`, `Bipartition` or any DendroPy traversal."""
from specs import trees as S


# ----------------------------------------------------------------------------- bit sets
def popcount(m):
    return bin(m).count("1")


def lowbit(m):
    """singleton of the lowest member of m (0 for the empty set), by search"""
    if m == 0:
        return 0
    b = 1
    while not (m & b):
        b <<= 1
    return b


def mask_of(labels, bit_of):
    m = 0
    for l in labels:
        m |= 1 << bit_of[l]
    return m


def labels_of(mask, bit_of):
    return frozenset(l for l, b in bit_of.items() if mask >> b & 1)


def node_mask(n, bit_of):
    """taxa on the leaves below n"""
    m = 0
    for l in S.leaves(n):
        if l.taxon is not None:
            m |= 1 << bit_of[l.taxon.label]
    return m


def normalised(m, fill):
    """the side of the bipartition {m, fill minus m} that does not contain the lowest
    member of fill (the property's LSB-0 normal form)"""
    m &= fill
    if m & lowbit(fill):
        return fill & ~m
    return m


def expected_split(leafset, fill, rooted):
    return leafset if rooted else normalised(leafset, fill)


def is_trivial_set(m, fill):
    """a bipartition of fill is trivial iff one side has at most one taxon"""
    a = m & fill
    b = fill & ~m
    return popcount(a) <= 1 or popcount(b) <= 1


def compatible_clusters(a, b, fill):
    """rooted: two clades can sit on one tree iff disjoint or nested"""
    a &= fill
    b &= fill
    return (a & b) == 0 or (a & b) == a or (a & b) == b


def compatible_splits(a, b, fill):
    """unrooted: {A, fill-A} and {B, fill-B} can sit on one tree iff one of the four
    intersections is empty"""
    a &= fill
    b &= fill
    ca = fill & ~a
    cb = fill & ~b
    return (a & b) == 0 or (a & cb) == 0 or (ca & b) == 0 or (ca & cb) == 0


def compatible(a, b, fill, rooted):
    return compatible_clusters(a, b, fill) if rooted else compatible_splits(a, b, fill)


# ----------------------------------------------------------------------------- canonical forms
def _lab(n):
    return n.taxon.label if n.taxon is not None else None


def rooted_canon(n, keep=None):
    """Rooted topology up to child order and unifurcations, as nested sorted tuples
    (not through clades/splits).  Leaves outside `keep` are dropped."""
    ch = n._child_nodes
    if not ch:
        l = _lab(n)
        if keep is not None and l not in keep:
            return None
        return l
    subs = [rooted_canon(c, keep) for c in ch]
    subs = [s for s in subs if s is not None]
    if not subs:
        return None
    if len(subs) == 1:
        return subs[0]
    return tuple(sorted(subs, key=repr))


def unrooted_canon(tree, keep=None):
    """Unrooted topology up to child order, unifurcations and seed position: the tree
    is re-hung from its alphabetically first (kept) leaf by walking the undirected
    pointer graph; vertices of degree 2 are suppressed on the way."""
    lv = [l for l in S.leaves(tree._seed_node) if keep is None or _lab(l) in keep]
    if not lv:
        return None
    start = min(lv, key=lambda l: repr(_lab(l)))

    def nbrs(v):
        out = list(v._child_nodes)
        if v._parent_node is not None:
            out.append(v._parent_node)
        return out

    def rec(v, frm):
        if not v._child_nodes:
            l = _lab(v)
            if keep is not None and l not in keep:
                return None
            return l
        subs = [rec(w, v) for w in nbrs(v) if w is not frm]
        subs = [s for s in subs if s is not None]
        if not subs:
            return None
        if len(subs) == 1:
            return subs[0]
        return tuple(sorted(subs, key=repr))

    rest = [rec(w, start) for w in nbrs(start)]
    rest = [s for s in rest if s is not None]
    return (_lab(start),) + tuple(rest)


def canon(tree, rooted, keep=None):
    return rooted_canon(tree._seed_node, keep) if rooted else unrooted_canon(tree, keep)


# ----------------------------------------------------------------------------- split sets with lengths
def clade_masks(tree, bit_of):
    """rooted: set of clades (as masks) of all nodes"""
    return frozenset(node_mask(n, bit_of) for n in S.pre(tree._seed_node))


def split_masks(tree, bit_of, rooted):
    """the property's split set: clades (rooted) or LSB-0 normalised bipartitions of the
    tree's own leaf set (unrooted), one per edge, duplicates merged"""
    fill = node_mask(tree._seed_node, bit_of)
    return frozenset(expected_split(node_mask(n, bit_of), fill, rooted) for n in S.pre(tree._seed_node))


def split_lengths(tree, bit_of, rooted):
    """split -> length of *the* edge of the (un)rooted tree inducing it: edges of the
    drawing that induce the same split (unifurcation chains, the two edges below a
    bifurcating seed of an unrooted tree) are one edge of the tree, so their lengths
    add up; a missing length counts 0.  Second value: True iff the edge of the TREE has no
    length at all, i.e. every non-seed edge of the drawing that contributes to the split has
    length None (one half of a basal pair, or one link of a unifurcation chain, without a
    length next to another with one is a drawing of an edge that has a length)."""
    fill = node_mask(tree._seed_node, bit_of)
    out = {}
    some, none = {}, {}
    for n in S.pre(tree._seed_node):
        s = expected_split(node_mask(n, bit_of), fill, rooted)
        l = S.elen(n)
        out[s] = out.get(s, 0) + (l if l is not None else 0)
        if n._parent_node is not None:
            if l is None:
                none[s] = True
            else:
                some[s] = True
    missing = dict((s, bool(none.get(s)) and not some.get(s)) for s in out)
    return out, missing
