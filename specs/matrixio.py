"""Independent observation of character matrices (C13, C20): reads the raw
containers (`_taxon_sequence_map`, `_character_values`, `_taxa`) only."""


def cell(v):
    if isinstance(v, (int, float)) or v is None:
        return v
    sym = getattr(v, "symbol", None)
    try:
        fs = sorted(str(x) for x in v.fundamental_symbols)
    except Exception:
        fs = None
    return [sym, fs]


def observe_matrix(m):
    rows = []
    for t in m.taxon_namespace._taxa:
        if t in m._taxon_sequence_map:
            seq = m._taxon_sequence_map[t]
            rows.append([t.label, [cell(v) for v in seq._character_values]])
    subsets = []
    cs = getattr(m, "character_subsets", None)
    if cs:
        for k in cs:
            subsets.append([str(k), list(cs[k].character_indices)])
    return {"data_type": getattr(m, "data_type", None), "rows": rows, "subsets": subsets,
            "namespace": [t.label for t in m.taxon_namespace._taxa]}


def dims(m):
    """(number of rows, list of row lengths)"""
    lens = [len(seq._character_values) for seq in m._taxon_sequence_map.values()]
    return len(lens), lens
