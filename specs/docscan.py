"""Spec-side (independent) scanners of NEXUS / PHYLIP text, used by C20 to learn what a
(possibly mutated) document *declares* without asking the reader under test.

The scanners are deliberately conservative: whenever the text is irregular in a way that
makes "what is declared" debatable they return None, and the caller skips the
declared-versus-found check for that document (it still checks termination, exception
family and tree well-formedness)."""
import re


def nexus_tokens(text):
    """[(start, end, token, kind)], kind in {'word','punct','quoted','comment'};
    None if a quote or comment is unterminated.  Follows the NEXUS lexical rules:
    [comments] nest, 'quoted' tokens double their quotes, punctuation is single-char."""
    out = []
    i, n = 0, len(text)
    punct = set("(){}/\\,;:=*\"`+<>")  # '-' left inside words on purpose (as the tokenizer under test does)
    while i < n:
        c = text[i]
        if c in " \t\r\n":
            i += 1
        elif c == "[":
            depth, j = 0, i
            while j < n:
                if text[j] == "[":
                    depth += 1
                elif text[j] == "]":
                    depth -= 1
                    if depth == 0:
                        break
                j += 1
            if j >= n:
                return None
            out.append((i, j + 1, text[i:j + 1], "comment"))
            i = j + 1
        elif c == "'":
            j = i + 1
            buf = []
            while True:
                if j >= n:
                    return None
                if text[j] == "'":
                    if j + 1 < n and text[j + 1] == "'":
                        buf.append("'")
                        j += 2
                        continue
                    break
                buf.append(text[j])
                j += 1
            out.append((i, j + 1, "".join(buf), "quoted"))
            i = j + 1
        elif c in punct:
            out.append((i, i + 1, c, "punct"))
            i += 1
        else:
            j = i
            while j < n and text[j] not in " \t\r\n[']" and text[j] not in punct:
                j += 1
            if j == i:  # a stray ']'
                out.append((i, i + 1, c, "punct"))
                i += 1
            else:
                out.append((i, j, text[i:j], "word"))
                i = j
    return out


def nexus_declared_dims(text):
    """-> list of dict(block='DATA'|'CHARACTERS', ntax=int|None, nchar=int|None) for every
    character block of a *regular* document, or None when the document is irregular
    (anything but: #NEXUS, then blocks `BEGIN name; ... END;`, each character block holding
    exactly one `DIMENSIONS [NTAX=n] [NCHAR=m];` before its single MATRIX)."""
    toks = nexus_tokens(text)
    if toks is None:
        return None
    toks = [t for t in toks if t[3] != "comment"]
    if not toks or toks[0][3] != "word" or toks[0][2].upper() != "#NEXUS":
        return None
    i = 1
    blocks = []
    n = len(toks)

    def up(k):
        return toks[k][2].upper() if toks[k][3] == "word" else (toks[k][2] if toks[k][3] == "punct" else None)

    while i < n:
        if up(i) != "BEGIN" or i + 2 >= n or toks[i + 1][3] != "word" or up(i + 2) != ";":
            return None
        name = up(i + 1)
        i += 3
        # statements until END;
        stmts = []
        cur = []
        closed = False
        while i < n:
            u = up(i)
            if not cur and u in ("END", "ENDBLOCK"):
                if i + 1 < n and up(i + 1) == ";":
                    i += 2
                    closed = True
                    break
                return None
            if u == "BEGIN":
                return None
            if u == ";":
                stmts.append(cur)
                cur = []
            else:
                cur.append(i)
            i += 1
        if not closed or cur:
            return None
        if name in ("DATA", "CHARACTERS"):
            dims = [s for s in stmts if s and up(s[0]) == "DIMENSIONS"]
            mats = [s for s in stmts if s and up(s[0]) == "MATRIX"]
            if len(dims) != 1 or len(mats) != 1 or stmts.index(dims[0]) > stmts.index(mats[0]):
                return None
            d = dims[0][1:]
            vals = {"NTAX": None, "NCHAR": None}
            k = 0
            while k < len(d):
                key = up(d[k])
                if key in vals and k + 2 < len(d) + 0 and up(d[k + 1]) == "=" and toks[d[k + 2]][3] == "word" and toks[d[k + 2]][2].isdigit():
                    if vals[key] is not None:
                        return None
                    vals[key] = int(toks[d[k + 2]][2])
                    k += 3
                else:
                    return None
            blocks.append(dict(block=name, ntax=vals["NTAX"], nchar=vals["NCHAR"]))
    return blocks


def phylip_declared_dims(text):
    first = re.split(r"\r\n|\n|\r", text)[0]
    m = re.match(r"^\s*(\d+)\s+(\d+)\s*$", first)
    if not m:
        return None
    return int(m.group(1)), int(m.group(2))


def word_spans(text):
    """[(start, end)] of maximal non-whitespace runs and of each newline (PHYLIP/FASTA 'tokens')"""
    return [(m.start(), m.end()) for m in re.finditer(r"\S+|\n", text)]
