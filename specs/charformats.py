"""Independent helpers for C09: a canonical dump of a character matrix read from the raw
representation, and hand-written *source documents* (NEXUS, PHYLIP, FASTA, NeXML) used for the
"parsed from any format" construction routes.  Nothing here calls a DendroPy writer.

A matrix content is (labels, rows): rows[i] is a list of tokens; a token is a one-character state
symbol, a NEXUS multistate token "{AC}" / "(01)" (NEXUS sources only) or, for continuous data, a float."""
from xml.sax.saxutils import quoteattr


# ----------------------------------------------------------------------------- dump
def cell_dump(v):
    if isinstance(v, (int, float)) and not isinstance(v, bool):
        return ["f", float(v)]
    sym = getattr(v, "_symbol", None)
    if sym is not None:
        return ["s", str(sym)]
    if hasattr(v, "_member_states"):
        # a state without a symbol of its own is identified by its kind and its fundamental symbols
        fund = set()

        def rec(st):
            if st._member_states:
                for x in st._member_states:
                    rec(x)
            else:
                fund.add(str(st._symbol))
        rec(v)
        return ["m", int(v._state_denomination), sorted(fund)]
    return ["?", repr(v)]


def rowdump(m):
    """[[label, [cell...]], ...] for the taxa that have a sequence, in namespace order
    (taxa outside the namespace, if any, last in map order)."""
    out, seen = [], set()
    for t in m._taxon_namespace._taxa:
        s = m._taxon_sequence_map.get(t)
        if s is not None:
            out.append([t._label, [cell_dump(v) for v in s._character_values]])
            seen.add(id(t))
    for t, s in m._taxon_sequence_map.items():
        if id(t) not in seen:
            out.append([t._label, [cell_dump(v) for v in s._character_values]])
    return out


def render(rd, maxrows=4, maxcells=12):
    def cell(c):
        if c[0] == "s":
            return c[1]
        if c[0] == "f":
            return repr(c[1])
        if c[0] == "m":
            return ("{%s}" if c[1] == 1 else "(%s)") % "".join(c[2])
        return str(c)
    parts = []
    for lab, cells in rd[:maxrows]:
        toks = [cell(c) for c in cells[:maxcells]]
        sep = "" if all(len(x) == 1 for x in toks) else " "
        parts.append("%r:%s%s" % (lab, sep.join(toks), "..." if len(cells) > maxcells else ""))
    return "[" + "; ".join(parts) + ("; ..." if len(rd) > maxrows else "") + "]"


# ----------------------------------------------------------------------------- source documents
def _tok(t):
    return repr(float(t)) if isinstance(t, (int, float)) else str(t)


def _rowtext(tp, row, sep=None):
    if sep is None:
        sep = " " if tp == "continuous" else ""
    return sep.join(_tok(t) for t in row)


def _nexus_label(lab):
    if all(ch.isalnum() or ch in "." for ch in lab):
        return lab
    return "'" + lab.replace("'", "''") + "'"


NEXUS_DATATYPE = {"dna": "DNA", "rna": "RNA", "nucleotide": "NUCLEOTIDE", "protein": "PROTEIN", "standard": "STANDARD",
                  "continuous": "CONTINUOUS"}


def nexus_text(tp, labels, rows, interleave=False, datablock=False, symbols="0123456789", block=3):
    nchar = max(len(r) for r in rows)
    out = ["#NEXUS", ""]
    if not datablock:
        out += ["BEGIN TAXA;", "  DIMENSIONS NTAX=%d;" % len(labels), "  TAXLABELS " + " ".join(_nexus_label(l) for l in labels) + ";", "END;", ""]
        out += ["BEGIN CHARACTERS;", "  DIMENSIONS NCHAR=%d;" % nchar]
    else:
        out += ["BEGIN DATA;", "  DIMENSIONS NTAX=%d NCHAR=%d;" % (len(labels), nchar)]
    fmt = "  FORMAT DATATYPE=%s" % NEXUS_DATATYPE[tp]
    if tp == "standard":
        fmt += ' SYMBOLS="%s"' % " ".join(symbols)
    if tp != "continuous":
        fmt += " MISSING=? GAP=-"
    if interleave:
        fmt += " INTERLEAVE"
    out.append(fmt + ";")
    out.append("  MATRIX")
    if interleave:
        for start in range(0, nchar, block):
            for lab, r in zip(labels, rows):
                out.append("    %s  %s" % (_nexus_label(lab), _rowtext(tp, r[start:start + block])))
            out.append("")
    else:
        for lab, r in zip(labels, rows):
            out.append("    %s  %s" % (_nexus_label(lab), _rowtext(tp, r)))
    out += ["  ;", "END;", ""]
    return "\n".join(out)


def phylip_text(tp, labels, rows, strict=False, interleaved=False, block=3):
    nchar = max(len(r) for r in rows)
    out = ["%d %d" % (len(labels), nchar)]

    def lab(l):
        return l[:10].ljust(10) if strict else l + "  "
    if interleaved:
        first = True
        for start in range(0, nchar, block):
            for l, r in zip(labels, rows):
                out.append((lab(l) if first else "") + _rowtext(tp, r[start:start + block]))
            out.append("")
            first = False
    else:
        for l, r in zip(labels, rows):
            # sequential: a sequence may continue on following lines
            out.append(lab(l) + _rowtext(tp, r[:block]))
            for start in range(block, len(r), block):
                out.append(_rowtext(tp, r[start:start + block]))
    return "\n".join(out) + "\n"


def fasta_text(tp, labels, rows, wrap=None):
    out = []
    for l, r in zip(labels, rows):
        out.append(">" + l)
        s = _rowtext(tp, r)
        if wrap:
            out.extend(s[i:i + wrap] for i in range(0, len(s), wrap))
        else:
            out.append(s)
        out.append("")
    return "\n".join(out) + "\n"


NEXML_TYPE = {"dna": "Dna", "rna": "Rna", "protein": "Protein", "restriction": "Restriction", "standard": "Standard", "continuous": "Continuous"}


def nexml_text(tp, labels, rows, pool, cells=True):
    """NeXML with explicit, shared <char> column definitions (the route of the library's fixtures).
    pool: string of the fundamental + special symbols used (each becomes a <state>); '?' and '-' too (as plain states
    for standard data, looked up by symbol for the fixed alphabets)."""
    nchar = max(len(r) for r in rows)
    o = ['<?xml version="1.0" encoding="ISO-8859-1"?>',
         '<nex:nexml version="0.9" xmlns:nex="http://www.nexml.org/2009" xmlns="http://www.nexml.org/2009" '
         'xmlns:xsi="http://www.w3.org/2001/XMLSchema-instance" xmlns:xsd="http://www.w3.org/2001/XMLSchema#">',
         '  <otus id="tax1">']
    for i, l in enumerate(labels):
        o.append('    <otu id="t%d" label=%s/>' % (i, quoteattr(l)))
    o.append('  </otus>')
    o.append('  <characters id="cm1" otus="tax1" xsi:type="nex:%s%s">' % (NEXML_TYPE[tp], "Cells" if cells else "Seqs"))
    o.append('    <format>')
    sid = {}
    if tp != "continuous":
        o.append('      <states id="sa1">')
        for k, ch in enumerate(pool):
            sid[ch] = "s%d" % k
            o.append('        <state id="s%d" symbol=%s/>' % (k, quoteattr(ch)))
        o.append('      </states>')
    for j in range(nchar):
        o.append('      <char id="c%d"%s/>' % (j, "" if tp == "continuous" else ' states="sa1"'))
    o.append('    </format>')
    o.append('    <matrix>')
    for i, r in enumerate(rows):
        o.append('      <row id="r%d" otu="t%d">' % (i, i))
        if cells:
            for j, t in enumerate(r):
                o.append('        <cell char="c%d" state="%s"/>' % (j, _tok(t) if tp == "continuous" else sid[t]))
        else:
            o.append('        <seq>%s</seq>' % _rowtext(tp, r, sep=" " if tp in ("continuous", "standard") else ""))
        o.append('      </row>')
    o.append('    </matrix>')
    o.append('  </characters>')
    o.append('</nex:nexml>')
    return "\n".join(o) + "\n"
