"""Independent measurements for C07 (re-rooting never changes the unrooted tree).

Everything is computed from raw pointers.  The unrooted tree is taken as the
undirected graph {node, parent} labelled with the child's edge length (None
counts 0, as Tree.length() documents)."""
from specs import trees as S


def _lab(n):
    return n.taxon.label if n.taxon is not None else None


def leaf_labels(tree):
    return sorted(str(_lab(l)) for l in S.leaves(tree._seed_node))


def adjacency(tree):
    """id(node) -> list of (neighbour node, length) over the undirected tree"""
    adj = {}
    nodes = S.pre(tree._seed_node)
    for n in nodes:
        adj.setdefault(id(n), [])
    for n in nodes:
        p = n._parent_node
        if p is not None:
            w = n._edge.length or 0
            adj[id(n)].append((p, w))
            adj[id(p)].append((n, w))
    return adj, nodes


def all_leaf_paths(tree):
    """{frozenset({a,b}): length} by graph search on the undirected tree
    (independent of the rooting and of specs.induced.leaf_path_lengths)."""
    adj, nodes = adjacency(tree)
    leaves = [n for n in nodes if not n._child_nodes and n.taxon is not None]
    out = {}
    for a in leaves:
        dist = {id(a): 0}
        stack = [a]
        while stack:
            x = stack.pop()
            for y, w in adj[id(x)]:
                if id(y) not in dist:
                    dist[id(y)] = dist[id(x)] + w
                    stack.append(y)
        for b in leaves:
            if b is not a:
                out[frozenset([_lab(a), _lab(b)])] = dist[id(b)]
    return out


def measure(tree):
    return dict(
        leaves=leaf_labels(tree),
        splits=S.unrooted_splits(tree),
        total=S.total_length(tree),
        paths=all_leaf_paths(tree),
    )


def root_distances(tree):
    return {_lab(l): S.root_dist(l) for l in S.leaves(tree._seed_node) if l.taxon is not None}


def diameter(paths):
    return max(paths.values()) if paths else 0


def center_on_node(tree, tol=1e-12):
    """True when the midpoint of a longest leaf-to-leaf path coincides (metrically)
    with an existing node.  All longest paths of a tree share their midpoint, so one
    longest path is enough."""
    adj, nodes = adjacency(tree)
    leaves = [n for n in nodes if not n._child_nodes and n.taxon is not None]
    best = None
    for a in leaves:
        dist = {id(a): 0}
        prev = {id(a): None}
        stack = [a]
        while stack:
            x = stack.pop()
            for y, w in adj[id(x)]:
                if id(y) not in dist:
                    dist[id(y)] = dist[id(x)] + w
                    prev[id(y)] = x
                    stack.append(y)
        for b in leaves:
            if b is not a and (best is None or dist[id(b)] > best[0]):
                path = []
                x = b
                while x is not None:
                    path.append(dist[id(x)])
                    x = prev[id(x)]
                best = (dist[id(b)], path)
    if best is None:
        return True
    D, path = best
    return any(abs(d - D / 2.0) <= tol for d in path)


def midpoint_ok(tree, paths_before, tol):
    """some pair of most distant leaves (w.r.t. the tree BEFORE the call) is at D/2
    from the root each.  Returns (ok, text)."""
    D = diameter(paths_before)
    rd = root_distances(tree)
    cands = [k for k, v in paths_before.items() if abs(v - D) <= tol]
    for k in cands:
        a, b = tuple(k)
        if a in rd and b in rd and abs(rd[a] - D / 2.0) <= tol and abs(rd[b] - D / 2.0) <= tol:
            return True, ""
    k = sorted(cands, key=lambda s: sorted(s))[0] if cands else None
    if k is None:
        return False, "no pair of leaves"
    a, b = sorted(k)
    return False, "longest path %s-%s = %r, root at %r from %s and %r from %s (required %r each)" % (
        a, b, D, rd.get(a), a, rd.get(b), b, D / 2.0)
