"""Independent oracles for C12 (copies equal and independent).

* `reach(root)`: every mutable object reachable from `root` through instance
  dictionaries, lists, tuples, dicts (keys and values), sets and slots -- the
  heap footprint used for the separation test.  Immutable atoms, classes,
  functions, modules and the state-alphabet singletons (StateAlphabet /
  StateIdentity: `__deepcopy__` returns self by design, they are not in the
  property's list of mutable parts) are neither recorded nor entered.
* canonical dumps of trees, tree lists, matrices, namespaces and annotation sets
  read from the raw representation only (`_child_nodes`, `_edge`, `_taxa`,
  `_taxon_sequence_map`, `_item_list` ...)."""
import types

_ATOMS = (type(None), bool, int, float, complex, str, bytes, type, types.FunctionType, types.BuiltinFunctionType,
          types.MethodType, types.ModuleType, range)


def _opaque_classes():
    from dendropy.datamodel.charstatemodel import StateAlphabet, StateIdentity
    return (StateAlphabet, StateIdentity)


def reach(root, skip_attrs=(), stop=()):
    """dict id -> object of every mutable object reachable from root.
    skip_attrs: instance-attribute names not followed; stop: objects not entered (and not recorded)."""
    opaque = _opaque_classes()
    stop_ids = set(id(x) for x in stop)
    seen = {}
    visited = set()
    stack = [root]
    while stack:
        o = stack.pop()
        if isinstance(o, _ATOMS) or isinstance(o, opaque):
            continue
        i = id(o)
        if i in visited or i in stop_ids:
            continue
        visited.add(i)
        if isinstance(o, (tuple, frozenset)):
            stack.extend(o)
            continue
        seen[i] = o
        if isinstance(o, dict):
            for k, v in dict.items(o):
                stack.append(k)
                stack.append(v)
        elif isinstance(o, (list, set)):
            stack.extend(list.__iter__(o) if isinstance(o, list) else set.__iter__(o))
        d = getattr(o, "__dict__", None)
        if isinstance(d, dict):
            for k, v in d.items():
                if k in skip_attrs:
                    continue
                stack.append(v)
        for cls in type(o).__mro__:
            for s in getattr(cls, "__slots__", ()) or ():
                if isinstance(s, str) and s not in skip_attrs and hasattr(o, s):
                    try:
                        stack.append(getattr(o, s))
                    except Exception:  # pragma: no cover
                        pass
    return seen


def describe(o):
    lab = getattr(o, "_label", None)
    return "%s%s" % (type(o).__name__, "" if lab is None else "(%r)" % (lab,))


# ----------------------------------------------------------------------------- annotations
def _plain(v):
    """JSON-ish rendering of a value that is data (not an owner object)"""
    if isinstance(v, (type(None), bool, int, float, str)):
        return v
    if isinstance(v, (list, tuple)):
        return [_plain(x) for x in v]
    if isinstance(v, dict):
        return sorted((repr(k), _plain(x)) for k, x in v.items())
    if isinstance(v, (set, frozenset)):
        return sorted(repr(x) for x in v)
    lab = getattr(v, "_label", None)
    return "<%s %r>" % (type(v).__name__, lab)


def ann_dump(obj):
    """annotations of an Annotable (without creating the set)"""
    aset = obj.__dict__.get("_annotations") if hasattr(obj, "__dict__") else None
    if aset is None:
        return []
    out = []
    for a in list(aset._item_list):
        if a.is_attribute:
            owner, attr = a._value
            same = owner is obj or (getattr(owner, "__dict__", None) is obj.__dict__)   # Tree(t) shares the instance dict
            val = ["bound", attr, "self" if same else _plain(owner), _plain(getattr(owner, attr, "<missing>"))]
        else:
            val = ["value", _plain(a._value)]
        out.append([a.name, val, a.datatype_hint, a._name_prefix, a._namespace, bool(a.annotate_as_reference),
                    bool(a.is_hidden), a.real_value_format_specifier, ann_dump(a)])
    return out


def ann_target_ok(obj):
    """the annotation set of obj (if any) points back to obj, and bound annotations owned by obj read obj"""
    aset = obj.__dict__.get("_annotations")
    if aset is None:
        return True
    return aset.target is obj


_NODE_CORE = ("_label", "taxon", "age", "_edge", "_child_nodes", "_parent_node", "comments", "_annotations")
_EDGE_CORE = ("_label", "_head_node", "rootedge", "length", "_bipartition", "comments", "_annotations")


def _extras(o, core):
    return sorted((k, _plain(v)) for k, v in o.__dict__.items() if k not in core)


def bip_dump(b):
    if b is None:
        return None
    return [getattr(b, "_split_bitmask", None), getattr(b, "_leafset_bitmask", None), getattr(b, "_tree_leafset_bitmask", None),
            getattr(b, "_is_rooted", None), b.__dict__.get("is_mutable")]


def node_dump(n, thin=False, taxon_key=None, skip_attrs=()):
    tk = taxon_key or (lambda t: None if t is None else t._label)
    e = n._edge
    if thin:
        return [tk(n.taxon), n._label, None if e is None else e.length, None if e is None else e._label,
                [node_dump(c, True, taxon_key, skip_attrs) for c in n._child_nodes]]
    core_n = _NODE_CORE + tuple(skip_attrs)
    return [tk(n.taxon), n._label, None if e is None else e.length, None if e is None else e._label,
            list(n.comments), None if e is None else list(e.comments), ann_dump(n), [] if e is None else ann_dump(e),
            _extras(n, core_n), [] if e is None else _extras(e, _EDGE_CORE), None if e is None else bip_dump(e._bipartition),
            None if e is None else e.rootedge is not None and "rootedge",
            [node_dump(c, False, taxon_key, skip_attrs) for c in n._child_nodes]]


def _pre(n):
    out = [n]
    for c in n._child_nodes:
        out.extend(_pre(c))
    return out


def wiring_errors(tree):
    """parent/edge back-pointers inside one tree"""
    errs = []
    root = tree._seed_node
    if root._parent_node is not None:
        errs.append("seed has a parent")
    for n in _pre(root):
        for c in n._child_nodes:
            if c._parent_node is not n:
                errs.append("child._parent_node is not the listing node")
        if n._edge is None or n._edge._head_node is not n:
            errs.append("edge.head_node is not its node")
    return errs


def encoding_dump(tree):
    """bipartition_encoding and the two lookup maps, expressed through preorder edge positions"""
    edges = [n._edge for n in _pre(tree._seed_node)]
    pos = {id(e): i for i, e in enumerate(edges)}
    bpos = {id(e._bipartition): i for i, e in enumerate(edges) if e._bipartition is not None}
    enc = tree.__dict__.get("bipartition_encoding")
    out = {"encoding": None if enc is None else [bpos.get(id(b), "foreign") for b in enc]}
    m1 = tree.__dict__.get("_split_bitmask_edge_map")
    out["split_map"] = None if m1 is None else sorted((k, pos.get(id(v), "foreign")) for k, v in m1.items())
    m2 = tree.__dict__.get("_bipartition_edge_map")
    out["bip_map"] = None if m2 is None else sorted((bpos.get(id(k), "foreign"), pos.get(id(v), "foreign")) for k, v in m2.items())
    return out


_TREE_CORE = ("_label", "_taxon_namespace", "comments", "_is_rooted", "weight", "length_type", "_seed_node",
              "bipartition_encoding", "_split_bitmask_edge_map", "_bipartition_edge_map", "_annotations")


def tree_dump(tree, thin=False, taxon_key=None, skip_attrs=()):
    if thin:
        return [tree._is_rooted, tree.weight, tree.length_type, tree._label, node_dump(tree._seed_node, True, taxon_key)]
    return [tree._is_rooted, tree.weight, tree.length_type, tree._label, list(tree.comments), ann_dump(tree),
            _extras(tree, _TREE_CORE), encoding_dump(tree), node_dump(tree._seed_node, False, taxon_key, skip_attrs)]


def ns_dump(ns, with_taxa=True):
    taxa = list(ns._taxa)
    return [ns._label, list(ns.comments), ann_dump(ns), bool(ns.is_mutable), bool(ns.is_case_sensitive),
            [[t._label, list(t.comments), ann_dump(t)] for t in taxa] if with_taxa else len(taxa),
            ns._current_accession_count,
            sorted((k, taxa.index(v) if v in taxa else "foreign") for k, v in ns._accession_index_taxon_map.items()),
            sorted((taxa.index(k) if k in taxa else "foreign", v) for k, v in ns._taxon_accession_index_map.items()),
            # the bitmask map is a lazily filled cache of 1 << accession index: only wrong entries are data
            sorted((taxa.index(k) if k in taxa else "foreign", v) for k, v in ns._taxon_bitmask_map.items()
                   if ns._taxon_accession_index_map.get(k) is None or v != (1 << ns._taxon_accession_index_map[k]))]


def treelist_dump(tl, taxon_key=None):
    extras = sorted((k, _plain(v)) for k, v in tl.__dict__.items()
                    if k not in ("_label", "_taxon_namespace", "tree_type", "_trees", "comments", "_annotations"))
    return [tl._label, list(tl.comments), ann_dump(tl), extras, [tree_dump(t, taxon_key=taxon_key) for t in tl._trees]]


def cell_token(v):
    s = getattr(v, "_symbol", None)
    if s is not None:
        return str(s)
    if hasattr(v, "_member_states"):
        return "{" + "".join(str(x._symbol) for x in (v._member_states or ())) + "}"
    return repr(v)


def seq_dump(s):
    anns = []
    for a in s._character_annotations:
        if a is None:
            anns.append(None)
        else:
            holder = type("H", (), {})()
            holder.__dict__["_annotations"] = a
            anns.append(ann_dump(holder))
    return [[cell_token(v) for v in s._character_values],
            [None if t is None else t._label for t in s._character_types], anns, ann_dump(s)]


def matrix_dump(m, taxon_key=None, positional=True):
    tk = taxon_key or (lambda t: t._label)
    ns_taxa = list(m._taxon_namespace._taxa)
    order = {id(t): i for i, t in enumerate(ns_taxa)} if positional else {}
    rows = sorted(((order.get(id(t), 10 ** 6), tk(t), seq_dump(s)) for t, s in m._taxon_sequence_map.items()), key=lambda x: (x[0], repr(x[1])))
    subsets = []
    cs = m.character_subsets
    for k in list(cs._ordered_keys):
        v = dict.__getitem__(cs, k.lower())
        subsets.append([k, v._label, sorted(v.character_indices), ann_dump(v)])
    return [type(m).__name__, m._label, list(m.comments), ann_dump(m), rows, subsets,
            [None if ct is None else ct._label for ct in m.character_types]]
