"""Independent specification of the *induced subtree* (C08).

Everything here reads raw pointers only (`_child_nodes`, `_parent_node`,
`_edge.length`, `taxon`) and is written from the mathematical definition:

    restrict(T, keep)  =  the tree whose nodes are the nodes of T with at least
    one surviving leaf below them; nodes left with one child are merged into
    that child (lengths added) when suppression is requested.

An expected tree is a nest of `E` records that remember the source node, so the
callers can compare by label (in-place operations) or through
`extraction_source` (copies)."""


class E(object):
    __slots__ = ("src", "taxon", "length", "children")

    def __init__(self, src, taxon, length, children):
        self.src = src
        self.taxon = taxon
        self.length = length
        self.children = children


def merge_len(upper, lower):
    """length of the edge that replaces a suppressed node's edge (upper) and its
    only child's edge (lower); a missing length is absent, not zero"""
    if upper is None:
        return lower
    if lower is None:
        return upper
    return lower + upper


def restrict(node, dropped, suppress):
    """Expected tree below `node` when every node for which dropped(n) is true is
    taken away together with its subtree, and every internal node left without
    children is taken away as well.

    dropped: callable(node) -> bool, asked for leaves and internal nodes
    suppress: merge nodes left with exactly one child into that child
    Returns an E or None."""
    if dropped(node):
        return None
    kids = node._child_nodes
    if not kids:
        return E(node, node.taxon, node._edge.length, [])
    ch = [restrict(c, dropped, suppress) for c in kids]
    ch = [c for c in ch if c is not None]
    if not ch:
        return None
    if len(ch) == 1 and suppress:
        c = ch[0]
        c.length = merge_len(node._edge.length, c.length)
        return c
    return E(node, node.taxon, node._edge.length, ch)


def restrict_general(node, direct, stays_as_leaf, suppress):
    """As `restrict`, but an internal node that lost all its children stays as a
    leaf when stays_as_leaf(node) (e.g. it carries a taxon and only taxon-less
    leaves are pruned, or the filter accepts it / the pruning is not recursive)."""
    if direct(node):
        return None
    kids = node._child_nodes
    if not kids:
        return E(node, node.taxon, node._edge.length, [])
    ch = [restrict_general(c, direct, stays_as_leaf, suppress) for c in kids]
    ch = [c for c in ch if c is not None]
    if not ch:
        if stays_as_leaf(node):
            return E(node, node.taxon, node._edge.length, [])
        return None
    if len(ch) == 1 and suppress:
        c = ch[0]
        c.length = merge_len(node._edge.length, c.length)
        return c
    return E(node, node.taxon, node._edge.length, ch)


# ----------------------------------------------------------------------------- canonical forms
def _tl(t):
    return None if t is None else t.label


def canon_E(e):
    """unordered canonical form: (leaf/inner taxon label, length, sorted children)"""
    return (_tl(e.taxon), e.length, tuple(sorted((canon_E(c) for c in e.children), key=repr)))


def canon_node(n):
    return (_tl(n.taxon), n._edge.length, tuple(sorted((canon_node(c) for c in n._child_nodes), key=repr)))


def ordered_E(e):
    return (_tl(e.taxon), e.length, tuple(ordered_E(c) for c in e.children))


def E_nodes(e):
    out = [e]
    for c in e.children:
        out.extend(E_nodes(c))
    return out


def E_leaves(e):
    if not e.children:
        return [e]
    out = []
    for c in e.children:
        out.extend(E_leaves(c))
    return out


def E_clade(e):
    return frozenset(_tl(l.taxon) for l in E_leaves(e))


def E_clades(e):
    return frozenset(E_clade(x) for x in E_nodes(e))


def E_newick(e):
    s = ""
    if e.children:
        s = "(" + ",".join(E_newick(c) for c in e.children) + ")"
    if e.taxon is not None:
        s += str(e.taxon.label)
    if e.length is not None:
        s += ":%s" % (e.length,)
    return s


def restricted_clades(root, keep_labels):
    """{clade(n) & keep : n a node} minus the empty set -- the definition in the
    property statement, computed without building any tree."""
    out = set()

    def rec(n):
        if not n._child_nodes:
            s = frozenset([_tl(n.taxon)]) if n.taxon is not None else frozenset()
        else:
            s = frozenset()
            for c in n._child_nodes:
                s = s | rec(c)
        r = s & keep_labels
        if r:
            out.add(r)
        return s

    rec(root)
    return frozenset(out)


def leaf_path_lengths(root):
    """{frozenset({a,b}): path length} over labelled leaves; None counts 0.
    Computed top-down from child pointers (root distances and the depth of the
    last common ancestor), independently of specs.trees.path_lengths."""
    paths = {}

    def rec(n, d, trail):
        if n._edge.length is not None and trail:
            d = d + n._edge.length
        trail = trail + [(n, d)]
        if not n._child_nodes:
            if n.taxon is not None:
                paths[n.taxon.label] = trail
            return
        for c in n._child_nodes:
            rec(c, d, trail)

    rec(root, 0, [])
    labs = sorted(paths)
    out = {}
    for i, a in enumerate(labs):
        for b in labs[i + 1:]:
            ta, tb = paths[a], paths[b]
            k = 0
            while k < len(ta) and k < len(tb) and ta[k][0] is tb[k][0]:
                k += 1
            dm = ta[k - 1][1]
            out[frozenset([a, b])] = (ta[-1][1] - dm) + (tb[-1][1] - dm)
    return out


def snapshot(tree):
    """identity-level structural snapshot (to show a call did not touch the tree)"""
    out = [("seed", id(tree._seed_node)), ("rooted", tree._is_rooted), ("ns", tuple(id(t) for t in tree.taxon_namespace)),
           ("enc", id(tree.bipartition_encoding), None if tree.bipartition_encoding is None else tuple(id(b) for b in tree.bipartition_encoding))]
    stack = [tree._seed_node]
    while stack:
        n = stack.pop()
        out.append((id(n), id(n._parent_node) if n._parent_node is not None else None, tuple(id(c) for c in n._child_nodes),
                    id(n._edge), id(n._edge._head_node), n._edge.length, id(n.taxon) if n.taxon is not None else None, n.label,
                    id(n._edge._bipartition) if getattr(n._edge, "_bipartition", None) is not None else None))
        stack.extend(n._child_nodes)
    return out
