"""Independent specification functions over DendroPy character matrices.

A matrix is read only through its raw representation
(`_taxon_sequence_map`, the `_character_values` list of each sequence,
`character_subsets`, `taxon_namespace._taxa`) and modelled as a *row map*:
dict taxon-object -> list of cell objects (StateIdentity objects are compared by
identity -- they are immutable singletons of their alphabet -- and continuous
values by type and ==).  The model operations below are the specification of the
row/column operations of C19 written from their documentation, never from the
library's code."""


# ----------------------------------------------------------------------------- reading
def raw_rows(m):
    """dict taxon -> list(cell objects) from the raw store (a copy of the lists)."""
    out = {}
    for t, s in m._taxon_sequence_map.items():
        out[t] = list(s._character_values)
    return out


def raw_subsets(m):
    """list of (label, frozenset(indices)) in insertion order"""
    out = []
    cs = m.character_subsets
    for k in list(cs._ordered_keys):
        v = dict.__getitem__(cs, k.lower())
        out.append((v.label, frozenset(v.character_indices)))
    return out


def cell_eq(a, b):
    if a is b:
        return True
    if isinstance(a, (int, float)) and isinstance(b, (int, float)) and not isinstance(a, bool) and not isinstance(b, bool):
        return type(a) is type(b) and a == b
    return False


def row_eq(r1, r2):
    return len(r1) == len(r2) and all(cell_eq(a, b) for a, b in zip(r1, r2))


def rows_eq(rm1, rm2):
    if set(map(id, rm1)) != set(map(id, rm2)):
        return False
    for t in rm1:
        if not row_eq(rm1[t], rm2[t]):
            return False
    return True


def cell_token(v):
    s = getattr(v, "_symbol", None)
    if s is not None:
        return str(s)
    if hasattr(v, "_member_states"):
        ms = v._member_states or ()
        return "{" + "".join(str(x._symbol) for x in ms) + "}"
    return repr(v)


def render_rows(rm, ns_taxa):
    """human/JSON rendering: 'i=tokens' by namespace position ('?' for a taxon outside)."""
    pos = {id(t): i for i, t in enumerate(ns_taxa)}
    items = []
    for t, r in rm.items():
        i = pos.get(id(t), "?")
        toks = [cell_token(v) for v in r]
        sep = "" if all(len(x) == 1 for x in toks) else "/"
        items.append((str(i), "%s=%s" % (i, sep.join(toks))))
    items.sort()
    return "{" + ",".join(x[1] for x in items) + "}"


# ----------------------------------------------------------------------------- model operations
def spec_concatenate(row_maps):
    """for every taxon, the concatenation of its sequences in argument order"""
    out = {}
    for rm in row_maps:
        for t, r in rm.items():
            out.setdefault(t, []).extend(r)
    return out


def spec_concat_precondition(row_maps, ns_taxa):
    """documented precondition of concatenate: every matrix has exactly one sequence per
    taxon of the namespace and its sequences are equally long"""
    for rm in row_maps:
        if set(map(id, rm)) != set(map(id, ns_taxa)):
            return False
        if len(set(len(r) for r in rm.values())) > 1:
            return False
    return True


def spec_concat_subsets(row_maps):
    """one index range per source matrix, in argument order (requires the precondition)"""
    out, start = [], 0
    for rm in row_maps:
        w = len(next(iter(rm.values()))) if rm else 0
        out.append(frozenset(range(start, start + w)))
        start += w
    return out


def spec_export(rm, indices):
    sel = sorted(set(indices))
    return {t: [r[i] for i in sel if 0 <= i < len(r)] for t, r in rm.items()}


def spec_fill(rm, ns_taxa, value, size, append):
    """pads every sequence (of a taxon of the namespace) shorter than size; returns (rows, size)"""
    inns = set(map(id, ns_taxa))
    if size is None:
        size = max([len(r) for t, r in rm.items() if id(t) in inns] or [0])
    out = {}
    for t, r in rm.items():
        r = list(r)
        if id(t) in inns and len(r) < size:
            pad = [value] * (size - len(r))
            r = r + pad if append else pad + r
        out[t] = r
    return out, size


def spec_fill_taxa(rm, ns_taxa):
    out = {t: list(r) for t, r in rm.items()}
    for t in ns_taxa:
        if t not in out:
            out[t] = []
    return out


def spec_pack(rm, ns_taxa, value, size, append):
    return spec_fill(spec_fill_taxa(rm, ns_taxa), ns_taxa, value, size, append)[0]


def spec_add(rm, other):
    out = {t: list(r) for t, r in rm.items()}
    for t, r in other.items():
        if t not in out:
            out[t] = list(r)
    return out


def spec_replace(rm, other):
    out = {t: list(r) for t, r in rm.items()}
    for t, r in other.items():
        if t in out:
            out[t] = list(r)
    return out


def spec_update(rm, other):
    out = {t: list(r) for t, r in rm.items()}
    for t, r in other.items():
        out[t] = list(r)
    return out


def spec_extend_sequences(rm, other, add_new):
    out = {t: list(r) for t, r in rm.items()}
    for t, r in other.items():
        if t in out:
            out[t] = out[t] + list(r)
        elif add_new:
            out[t] = list(r)
    return out


def spec_extend_matrix(rm, other):
    return spec_extend_sequences(rm, other, True)


def spec_remove(rm, taxa):
    """returns rows or None when the documented KeyError applies"""
    out = {t: list(r) for t, r in rm.items()}
    for t in taxa:
        if t not in out:
            return None
        del out[t]
    return out


def spec_discard(rm, taxa):
    drop = set(map(id, taxa))
    return {t: list(r) for t, r in rm.items() if id(t) not in drop}


def spec_keep(rm, taxa):
    keep = set(map(id, taxa))
    return {t: list(r) for t, r in rm.items() if id(t) in keep}
