"""Independent oracles for path distances, common ancestors and their summaries (C14).

Raw pointers only (`_parent_node`, `_child_nodes`, `_edge.length`, `taxon`)."""
from specs import trees as S


def up_chain(n):
    """[(node, distance from n, edges from n)] from n up to the seed; None length = 0"""
    out = []
    d, k = 0, 0
    while n is not None:
        out.append((n, d, k))
        l = S.elen(n)
        d += l if l is not None else 0
        k += 1
        n = n._parent_node
    return out


def path(a, b):
    """(sum of lengths, number of edges, node where the path turns) between two nodes"""
    ca = up_chain(a)
    pos = dict((id(n), (d, k)) for n, d, k in ca)
    for n, d, k in up_chain(b):
        if id(n) in pos:
            return (pos[id(n)][0] + d, pos[id(n)][1] + k, n)
    raise ValueError("nodes are not in one tree")


def leaf_by_label(tree):
    return dict((l.taxon.label, l) for l in S.leaves(tree._seed_node) if l.taxon is not None)


def deepest_common_ancestor(tree, labels):
    """deepest node whose leaves include every label; None if some label is on no leaf"""
    by = leaf_by_label(tree)
    labels = list(labels)
    if not labels or any(l not in by for l in labels):
        return None
    want = set(labels)
    node = tree._seed_node
    while True:
        nxt = None
        for c in node._child_nodes:
            below = set(l.taxon.label for l in S.leaves(c) if l.taxon is not None)
            if want <= below:
                nxt = c
                break
        if nxt is None:
            return node
        node = nxt


def pair_table(tree):
    """{frozenset({la, lb}): (dist, edges, turning node)} for all unordered pairs of leaf labels"""
    by = leaf_by_label(tree)
    labs = sorted(by)
    out = {}
    for i, a in enumerate(labs):
        for b in labs[i + 1:]:
            out[frozenset((a, b))] = path(by[a], by[b])
    return out


def mean_pairwise(table, labels, idx):
    """mean over unordered pairs of `labels` of entry idx (0 = length, 1 = edges); None if < 2 labels"""
    labels = sorted(labels)
    vals = [table[frozenset((a, b))][idx] for i, a in enumerate(labels) for b in labels[i + 1:]]
    if not vals:
        return None
    return sum(vals) / float(len(vals))


def mean_nearest(table, labels, idx):
    """mean over taxa of `labels` of the distance to the nearest other taxon of `labels`"""
    labels = sorted(labels)
    if len(labels) < 2:
        return None
    mins = []
    for a in labels:
        mins.append(min(table[frozenset((a, b))][idx] for b in labels if b != a))
    return sum(mins) / float(len(mins))


def total_length(tree):
    return sum((S.elen(n) or 0) for n in S.pre(tree._seed_node))
