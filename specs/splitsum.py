"""Independent specification functions for tree-sample summaries (C05, C06).

Splits are represented WITHOUT bitmasks, as sets of leaf labels read from the raw
pointers (`_child_nodes`, `taxon`):

  rooted sample   : a split is the clade  frozenset(labels below the node)
  unrooted sample : a split is the bipartition frozenset({A, L \\ A})

"tree T contains split s" iff some node/edge of T induces s (set semantics, so
a basal bifurcation of an unrooted tree or a unifurcation contributes one split,
not two).  Library bitmasks are decoded to this representation with the
taxon->bit table of the namespace only (`decode`)."""
from fractions import Fraction

from specs import trees as S


# ----------------------------------------------------------------------------- splits
def leaf_labels(tree):
    return frozenset(l.taxon.label for l in S.leaves(tree._seed_node) if l.taxon is not None)


def split_of_clade(clade, L, rooted):
    clade = frozenset(clade)
    if rooted:
        return clade
    return frozenset([clade, frozenset(L) - clade])


def node_split(nd, L, rooted):
    return split_of_clade(S.clade_labels(nd), L, rooted)


def tree_splits(tree, rooted, L=None):
    """set of all splits (trivial ones and the root's included) induced by the nodes of tree"""
    if L is None:
        L = leaf_labels(tree)
    return frozenset(node_split(n, L, rooted) for n in S.pre(tree._seed_node))


def is_trivial(s, L, rooted):
    n = len(L)
    if rooted:
        return len(s) <= 1 or len(s) >= n
    sides = list(s)
    if len(sides) == 1:  # A == L\A impossible unless L empty
        return True
    return min(len(x) for x in sides) <= 1


def nontrivial(splits, L, rooted):
    return frozenset(s for s in splits if not is_trivial(s, L, rooted))


def compatible(a, b, rooted):
    if rooted:
        return a <= b or b <= a or not (a & b)
    a1, a2 = _sides(a)
    b1, b2 = _sides(b)
    return (not (a1 & b1)) or (not (a1 & b2)) or (not (a2 & b1)) or (not (a2 & b2))


def _sides(s):
    x = list(s)
    if len(x) == 1:
        return x[0], frozenset()
    return x[0], x[1]


def bit_table(ns):
    """label -> bit, from the namespace's own per-taxon table (one call per taxon)"""
    return dict((t.label, ns.taxon_bitmask(t)) for t in ns._taxa)


def decode(mask, bits, L, rooted):
    """library bitmask -> split in the representation above"""
    A = frozenset(lab for lab in L if mask & bits[lab])
    return split_of_clade(A, L, rooted)


def split_key(s, rooted):
    """canonical printable form of a split"""
    if rooted:
        return "".join(sorted(s))
    return "|".join(sorted("".join(sorted(x)) for x in s))


# ----------------------------------------------------------------------------- frequencies
def weight_of(w, use_weights):
    if w is None or not use_weights:
        return Fraction(1)
    return Fraction(w)


def expected_frequencies(split_sets, weights, use_weights=True):
    """split_sets: one set of splits per tree; weights: per-tree weight or None.
    -> dict split -> Fraction (only splits occurring in >= 1 tree)"""
    ws = [weight_of(w, use_weights) for w in weights]
    tot = sum(ws, Fraction(0))
    out = {}
    for ss, w in zip(split_sets, ws):
        for s in ss:
            out[s] = out.get(s, Fraction(0)) + w
    if tot == 0:
        return dict((s, None) for s in out)
    return dict((s, c / tot) for s, c in out.items())


def reaches(frac, th):
    """frequency (exact rational) reaches the float threshold, at float precision"""
    return float(frac) >= th


def feq(x, frac, tol=1e-12):
    """float reported by the library == exact rational (to rounding of one division)"""
    if x is None or frac is None:
        return False
    return abs(float(x) - float(frac)) <= tol * max(1.0, abs(float(frac)))


# ----------------------------------------------------------------------------- consensus
def consensus_errors(con_nt, freqs, th, L, rooted):
    """con_nt: set of non-trivial splits of the returned consensus tree.
    freqs: exact frequencies (dict split -> Fraction) of every split of the sample.
    Returns a list of (clause, text) for every violated clause of the statement."""
    errs = []
    # frequencies are reported as floats: "reaches the threshold" is decided on the
    # correctly rounded quotient (1/5 reaches the float 0.2, 1/2 does not reach 0.5+ulp)
    cand = dict((s, f) for s, f in freqs.items() if not is_trivial(s, L, rooted))
    reach = frozenset(s for s, f in cand.items() if reaches(f, th))
    for s in con_nt:
        if s not in cand:
            errs.append(("foreign-split", "consensus contains %s which occurs in no input tree" % split_key(s, rooted)))
        elif s not in reach:
            errs.append(("below-threshold", "consensus contains %s with frequency %s < %r" % (split_key(s, rooted), cand[s], th)))
    if th > 0.5:
        for s in reach - con_nt:
            errs.append(("missing-split", "split %s has frequency %s >= %r but is not in the consensus" % (split_key(s, rooted), cand[s], th)))
    else:
        con_ok = [c for c in con_nt if c in cand]
        for x in reach - con_nt:
            blockers = [c for c in con_ok if not compatible(x, c, rooted)]
            if not blockers:
                errs.append(("not-maximal", "split %s (frequency %s >= %r) is compatible with every consensus split but was left out"
                             % (split_key(x, rooted), cand[x], th)))
            elif not any(cand[c] >= cand[x] for c in blockers):
                errs.append(("not-greedy", "split %s (frequency %s) was displaced only by less frequent splits %s"
                             % (split_key(x, rooted), cand[x],
                                ",".join("%s:%s" % (split_key(c, rooted), cand[c]) for c in blockers))))
    return errs


def spanning_errors(tree, ns):
    """the tree spans every taxon of the namespace exactly once (on leaves only)"""
    errs = []
    seen = {}
    for n in S.pre(tree._seed_node):
        if n._child_nodes:
            if n.taxon is not None:
                errs.append("internal node carries taxon %r" % (n.taxon.label,))
        else:
            if n.taxon is None:
                errs.append("leaf without taxon")
            else:
                seen[id(n.taxon)] = seen.get(id(n.taxon), 0) + 1
    for t in ns._taxa:
        k = seen.pop(id(t), 0)
        if k != 1:
            errs.append("taxon %r occurs %d times on the leaves" % (t.label, k))
    if seen:
        errs.append("%d leaves carry taxa outside the namespace" % len(seen))
    return errs


# ----------------------------------------------------------------------------- per-split values
def split_edge_values(tree, rooted, L=None):
    """dict split -> length of the branch inducing it in this tree (sum over the
    nodes inducing the same split: both root edges of a basally bifurcating unrooted
    tree, or a unifurcation chain).  The seed node's own edge is left out.  A split
    whose branch has a missing length maps to None."""
    if L is None:
        L = leaf_labels(tree)
    out = {}
    for n in S.pre(tree._seed_node):
        if n._parent_node is None:
            continue
        s = node_split(n, L, rooted)
        l = S.elen(n)
        if s in out:
            out[s] = None if (out[s] is None or l is None) else out[s] + l
        else:
            out[s] = l
    return out


def node_age(n):
    """age = distance to the tips below (ultrametric input: any tip)"""
    d = 0
    while n._child_nodes:
        n = n._child_nodes[0]
        d += S.elen(n) or 0
    return d


def split_node_ages(tree, rooted=True, L=None):
    if L is None:
        L = leaf_labels(tree)
    out = {}
    for n in S.pre(tree._seed_node):
        s = node_split(n, L, rooted)
        if s not in out:  # first (topmost) node inducing it
            out[s] = node_age(n)
    return out


def mean(vals):
    return sum(Fraction(v) for v in vals) / len(vals)


def median(vals):
    v = sorted(vals)
    k = len(v)
    if k % 2:
        return Fraction(v[k // 2])
    return (Fraction(v[k // 2 - 1]) + Fraction(v[k // 2])) / 2


def sample_sd(vals):
    """sample standard deviation (n-1), None for a single value"""
    k = len(vals)
    if k < 2:
        return None
    m = mean(vals)
    var = sum((Fraction(v) - m) ** 2 for v in vals) / (k - 1)
    return float(var) ** 0.5


def approx(x, y, tol=1e-9):
    if x is None or y is None:
        return x is None and y is None
    return abs(float(x) - float(y)) <= tol * max(1.0, abs(float(x)), abs(float(y)))


# ----------------------------------------------------------------------------- scores
def root_tip_distances(tree):
    """label -> root-to-tip distance (missing lengths count 0)"""
    return dict((l.taxon.label, S.root_dist(l)) for l in S.leaves(tree._seed_node))


def pairwise_tip_distances(tree):
    return dict((tuple(sorted(k)), v[0]) for k, v in S.path_lengths(tree).items())


def score_conventions(split_set, exp, L, rooted, use_log, include_external):
    """credibility score of one tree (its set of splits) from exact frequencies `exp`,
    under the four readings of "internal split" the statement leaves open:
      [0] root edge counted, all-but-one clades counted   [1] root counted, all-but-one not
      [2] root not counted, all-but-one counted            [3] neither
    (for unrooted samples [0]==[1] and [2]==[3]).  A reported score list is accepted
    when it matches one column for every tree."""
    import math
    tot = [0.0, 0.0, 0.0, 0.0]
    root = split_of_clade(L, L, rooted)
    for s in split_set:
        f = float(exp[s])
        v = (math.log(f) if f else 0.0) if use_log else f
        if include_external:
            for cv in range(4):
                tot[cv] += v
        elif s == root:
            tot[0] += v
            tot[1] += v
        elif not is_trivial(s, L, rooted):
            tot[0] += v
            tot[2] += v
            if not rooted or len(s) < len(L) - 1:
                tot[1] += v
                tot[3] += v
    return tot


def scores_match(scores, per_tree_conventions):
    return any(all(approx(a, b[cv]) for a, b in zip(scores, per_tree_conventions)) for cv in range(4))
