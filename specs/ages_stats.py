"""Independent definitions for C17: node ages / depths, the ultrametricity
verdict, lineage counting and the tree statistics (N-bar, Sackin, Colless, B1,
treeness, Pybus-Harvey gamma).

Everything is computed from the raw representation (`_child_nodes`,
`_parent_node`, `_edge.length`) by plain recursion; no DendroPy traversal,
no DendroPy arithmetic helper is called."""
import math

# published value of the Euler-Mascheroni constant (Abramowitz & Stegun 6.1.3)
EULER_GAMMA = 0.57721566490153286060651209008240243104215933593992


def kids(n):
    return n._child_nodes


def elen(n, none_as=None):
    e = n._edge
    l = None if e is None else e.length
    return none_as if l is None else l


def pre(n):
    out = [n]
    for c in kids(n):
        out.extend(pre(c))
    return out


def post(n):
    out = []
    for c in kids(n):
        out.extend(post(c))
    out.append(n)
    return out


def leaves(n):
    if not kids(n):
        return [n]
    out = []
    for c in kids(n):
        out.extend(leaves(c))
    return out


# ------------------------------------------------------------------ distances
def tip_dists(n, none_as=None):
    """[(leaf, distance from n down to leaf)], distances accumulated from the
    tip upwards (d(child, tip) + length(child)), so that float results are
    bit-identical to any bottom-up computation that adds in the same order."""
    if not kids(n):
        return [(n, 0.0)]
    out = []
    for c in kids(n):
        lc = elen(c, none_as)
        for lf, d in tip_dists(c, none_as):
            out.append((lf, d + lc))
    return out


def depth_map(root, none_as=None, length_fn=None):
    """{id(node): distance from root}, accumulated from the root downwards."""
    out = {id(root): 0.0}

    def rec(n):
        for c in kids(n):
            l = length_fn(c) if length_fn is not None else elen(c, none_as)
            out[id(c)] = l + out[id(n)]
            rec(c)

    rec(root)
    return out


def root_tip_spread(root, none_as=None):
    ds = [d for _, d in tip_dists(root, none_as)]
    return max(ds) - min(ds)


def max_min_age(n, which, none_as=None):
    """age under the documented forcing options: max / min over children of
    (child age + child length), leaves 0."""
    if not kids(n):
        return 0.0
    f = max if which == "max" else min
    return f([max_min_age(c, which, none_as) + elen(c, none_as) for c in kids(n)])


def must_accept(root, precision):
    """All root-to-tip path lengths agree within `precision`: the statement
    demands that ages are computed (no ultrametricity error)."""
    return root_tip_spread(root) <= precision


def must_reject(root, precision):
    """A child-order independent sufficient condition for 'paths differ by more
    than the precision': some node has a child whose whole range of
    node-to-tip distances is separated by more than `precision` from the range
    of every sibling.  (Then whichever child is taken as the reference, some
    pair of compared paths differs by more than the precision.)"""
    for n in pre(root):
        ch = kids(n)
        if len(ch) < 2:
            continue
        iv = []
        for c in ch:
            ds = [d + elen(c) for _, d in tip_dists(c)]
            iv.append((min(ds), max(ds)))
        for i, (lo_i, hi_i) in enumerate(iv):
            if all(max(lo_i - hi_j, lo_j - hi_i) > precision for j, (lo_j, hi_j) in enumerate(iv) if j != i):
                return True
    return False


# ------------------------------------------------------------------ lineages
def lineages_at(root, d, none_as=None):
    """number of edges (parent, child) crossing the level d: depth(parent) < d <= depth(child)"""
    dm = depth_map(root, none_as)
    k = 0
    for n in pre(root):
        if n._parent_node is None:
            continue
        if dm[id(n._parent_node)] < d <= dm[id(n)]:
            k += 1
    return k


def level_is_ambiguous(root, d, none_as=None):
    """a zero-length edge lies exactly on the level: whether it 'crosses' is a
    matter of convention the property does not fix"""
    dm = depth_map(root, none_as)
    for n in pre(root):
        if n._parent_node is not None and dm[id(n)] == d and dm[id(n._parent_node)] == d:
            return True
    return False


# ------------------------------------------------------------------ statistics
def n_leaves(n):
    return len(leaves(n))


def n_ancestors(n):
    k = 0
    while n._parent_node is not None:
        k += 1
        n = n._parent_node
    return k


def sackin_raw(root):
    return sum(n_ancestors(l) for l in leaves(root))


def n_bar(root):
    return sackin_raw(root) / float(n_leaves(root))


def sackin(root, normalize):
    s = sackin_raw(root)
    n = n_leaves(root)
    if normalize == "yule":
        # Blum & Francois 2006: (S - 2 n sum_{j=2..n} 1/j) / n
        return (s - 2.0 * n * sum(1.0 / j for j in range(2, n + 1))) / n
    if normalize == "pda":
        return s / (n ** 1.5)
    if normalize is True:
        return s / float(n)
    if normalize is None or normalize is False:
        return float(s)
    raise ValueError(normalize)


def is_strictly_bifurcating(root):
    return all(len(kids(n)) in (0, 2) for n in pre(root))


def colless_raw(root):
    tot = 0
    for n in pre(root):
        ch = kids(n)
        if not ch:
            continue
        assert len(ch) == 2
        tot += abs(n_leaves(ch[0]) - n_leaves(ch[1]))
    return tot


def colless(root, normalize):
    c = colless_raw(root)
    n = n_leaves(root)
    if normalize == "yule":
        # Blum, Francois & Janson 2006: (Ic - n ln n - n (gamma - 1 - ln 2)) / n
        return (c - n * math.log(n) - n * (EULER_GAMMA - 1.0 - math.log(2.0))) / n
    if normalize == "pda":
        return c / (n ** 1.5)
    if normalize is True or normalize == "max":
        # maximum of Ic over bifurcating trees with n leaves is (n-1)(n-2)/2
        return c * 2.0 / ((n - 1) * (n - 2))
    if normalize is None or normalize is False:
        return float(c)
    raise ValueError(normalize)


def height_edges(n):
    if not kids(n):
        return 0
    return 1 + max(height_edges(c) for c in kids(n))


def b1(root):
    """Shao & Sokal 1990: sum over internal nodes other than the root of 1/M_i,
    M_i = maximum number of edges between node i and a tip below it."""
    tot = 0.0
    for n in pre(root):
        if n._parent_node is None or not kids(n):
            continue
        tot += 1.0 / height_edges(n)
    return tot


def treeness(root):
    """internal (non-root) edge length / total (non-root) edge length"""
    internal = 0.0
    total = 0.0
    for n in pre(root):
        if n._parent_node is None:
            continue
        l = elen(n)
        total += l
        if kids(n):
            internal += l
    return internal / total


def total_length(root):
    """sum of all edge lengths (the root's own edge included), None counted 0"""
    return sum(elen(n, 0) for n in pre(root))


def gamma(root):
    """Pybus & Harvey 2000, eq. 1, from the definition of the internode
    intervals: g_k = time during which the (ultrametric, binary) tree has k
    lineages, k = 2..n; measured forward from the root with node depths.

        T     = sum_{j=2..n} j g_j
        gamma = [ (1/(n-2)) sum_{i=2..n-1} (sum_{k=2..i} k g_k)  -  T/2 ]  /  [ T sqrt(1/(12 (n-2))) ]
    """
    dm = depth_map(root)
    n = n_leaves(root)
    internal_depths = sorted(dm[id(x)] for x in pre(root) if kids(x))
    assert len(internal_depths) == n - 1
    height = max(dm[id(l)] for l in leaves(root))
    bounds = internal_depths + [height]  # k lineages exist between bounds[k-2] and bounds[k-1]
    g = {}
    for k in range(2, n + 1):
        g[k] = bounds[k - 1] - bounds[k - 2]
    T = sum(j * g[j] for j in range(2, n + 1))
    outer = 0.0
    for i in range(2, n):
        outer += sum(k * g[k] for k in range(2, i + 1))
    num = outer / (n - 2.0) - T / 2.0
    den = T * math.sqrt(1.0 / (12.0 * (n - 2.0)))
    return num / den


def close(a, b, rel=1e-12, abs_=1e-12):
    if a == b:
        return True
    try:
        return abs(a - b) <= max(abs_, rel * max(abs(a), abs(b)))
    except TypeError:
        return False
