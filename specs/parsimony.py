"""Independent oracles for C16 (parsimony scores).

Trees are nested tuples whose leaves are taxon labels (str), e.g. (("A","B"),"C").
Nothing here imports DendroPy: symbol meanings are written down from the IUPAC
conventions, the minimum number of changes is computed by Sankoff's dynamic
programme with unit costs (not by Fitch's set operations) and, for tiny trees,
by brute force over all internal assignments."""
import itertools

INF = float("inf")

# ----------------------------------------------------------------------------- symbol tables
_IUPAC_NUC = {
    "R": "AG", "Y": "CT", "M": "AC", "W": "AT", "S": "CG", "K": "GT",
    "V": "ACG", "H": "ACT", "D": "AGT", "B": "CGT", "N": "ACGT",
}

DATATYPES = {
    # name: (fundamental states, {ambiguity symbol: states}, has_gap_and_missing)
    "dna": ("ACGT", _IUPAC_NUC, True),
    "rna": ("ACGU", dict((k, v.replace("T", "U")) for k, v in _IUPAC_NUC.items()), True),
    "protein": ("ACDEFGHIKLMNPQRSTVWY*", {"B": "DN", "Z": "EQ", "X": "ACDEFGHIKLMNPQRSTVWY*"}, True),
    "standard": ("0123456789", {}, True),
    "restriction": ("01", {}, False),
}

GAP = "-"
MISSING = "?"


def symbols(dtype):
    fund, amb, gm = DATATYPES[dtype]
    return list(fund) + sorted(amb) + ([GAP, MISSING] if gm else [])


def state_space(dtype, gaps_as_missing):
    fund, amb, gm = DATATYPES[dtype]
    if gm and not gaps_as_missing:
        return frozenset(fund) | frozenset([GAP])
    return frozenset(fund)


def state_set(symbol, dtype, gaps_as_missing):
    """the set of fundamental states a matrix cell stands for"""
    fund, amb, gm = DATATYPES[dtype]
    if symbol in fund:
        return frozenset([symbol])
    if symbol in amb:
        return frozenset(amb[symbol])
    if gm and symbol == GAP:
        return frozenset(fund) if gaps_as_missing else frozenset([GAP])
    if gm and symbol == MISSING:
        return frozenset(fund) if gaps_as_missing else frozenset(fund) | frozenset([GAP])
    raise KeyError(symbol)


# ----------------------------------------------------------------------------- trees
def is_leaf(t):
    return isinstance(t, str)


def leaf_labels(t):
    if is_leaf(t):
        return [t]
    out = []
    for c in t:
        out.extend(leaf_labels(c))
    return out


def label_shape(shape, labels):
    """common.shapes (leaf = ()) -> labelled nested tuple, leaves left to right"""
    it = iter(labels)

    def rec(s):
        if s == ():
            return next(it)
        return tuple(rec(c) for c in s)

    return rec(shape)


def tree_str(t):
    if is_leaf(t):
        return t
    return "(" + ",".join(tree_str(c) for c in t) + ")"


def parse_tree(s):
    """inverse of tree_str"""
    pos = [0]

    def rec():
        if s[pos[0]] == "(":
            pos[0] += 1
            kids = [rec()]
            while s[pos[0]] == ",":
                pos[0] += 1
                kids.append(rec())
            assert s[pos[0]] == ")"
            pos[0] += 1
            return tuple(kids)
        j = pos[0]
        while j < len(s) and s[j] not in "(),":
            j += 1
        lab = s[pos[0]:j]
        pos[0] = j
        return lab

    t = rec()
    assert pos[0] == len(s)
    return t


def is_binary(t, root=True):
    if is_leaf(t):
        return True
    return len(t) == 2 and all(is_binary(c, False) for c in t)


def mirror(t):
    """reverse the child order at every node"""
    if is_leaf(t):
        return t
    return tuple(mirror(c) for c in reversed(t))


def flip(t, mask):
    """reverse the child order at the internal nodes selected by the bits of mask (pre-order numbering)"""
    cnt = [0]

    def rec(x):
        if is_leaf(x):
            return x
        i = cnt[0]
        cnt[0] += 1
        kids = [rec(c) for c in x]
        if (mask >> i) & 1:
            kids.reverse()
        return tuple(kids)

    return rec(t)


def n_internal(t):
    return 0 if is_leaf(t) else 1 + sum(n_internal(c) for c in t)


def _adjacency(t):
    """unrooted graph of a rooted tree: a degree-2 root is suppressed.
    returns (adj: id -> list of ids, leaf: id -> label)"""
    adj, leaf = {}, {}
    cnt = [0]

    def rec(x):
        i = cnt[0]
        cnt[0] += 1
        adj[i] = []
        if is_leaf(x):
            leaf[i] = x
        else:
            for c in x:
                j = rec(c)
                adj[i].append(j)
                adj[j].append(i)
        return i

    r = rec(t)
    if not is_leaf(t) and len(adj[r]) == 2:
        a, b = adj[r]
        adj[a] = [b if z == r else z for z in adj[a]]
        adj[b] = [a if z == r else z for z in adj[b]]
        del adj[r]
    return adj, leaf


def _subtree(adj, leaf, node, parent):
    if node in leaf:
        return leaf[node]
    return tuple(_subtree(adj, leaf, k, node) for k in adj[node] if k != parent)


def rootings(t):
    """every placement of the root of the underlying unrooted tree: on each edge (a root
    with two children) and on each internal node (DendroPy's unrooted representation, a basal
    polytomy).  Returns a list of (description, tree)."""
    adj, leaf = _adjacency(t)
    out = []
    seen = set()
    for u in sorted(adj):
        for v in adj[u]:
            if u < v:
                r = (_subtree(adj, leaf, u, v), _subtree(adj, leaf, v, u))
                out.append(("edge", r))
    for u in sorted(adj):
        if u not in leaf and len(adj[u]) >= 3:
            out.append(("node", tuple(_subtree(adj, leaf, k, u) for k in adj[u])))
    return out


# ----------------------------------------------------------------------------- minimum number of changes
def sankoff_min(t, leaf_sets, states):
    """min over assignments of one state to every internal node (leaves take any state of
    their set) of the number of edges whose ends differ"""
    states = sorted(states)

    def rec(x):
        if is_leaf(x):
            ok = leaf_sets[x]
            return dict((s, 0 if s in ok else INF) for s in states)
        tabs = [rec(c) for c in x]
        best = [min(tab.values()) for tab in tabs]
        out = {}
        for s in states:
            tot = 0
            for tab, b in zip(tabs, best):
                tot += min(tab[s], b + 1)
            out[s] = tot
        return out

    return min(rec(t).values())


def brute_min(t, leaf_sets, states):
    """the same by enumeration of every assignment to internal nodes and every leaf resolution"""
    states = sorted(states)
    nodes = []   # (index, children indexes or None, label)

    def rec(x):
        i = len(nodes)
        nodes.append(None)
        if is_leaf(x):
            nodes[i] = (None, x)
        else:
            nodes[i] = ([rec(c) for c in x], None)
        return i

    rec(t)
    domains = []
    for kids, lab in nodes:
        if kids is None:
            domains.append(sorted(leaf_sets[lab]))
        else:
            domains.append(states)
    best = INF
    for assign in itertools.product(*domains):
        c = 0
        for i, (kids, lab) in enumerate(nodes):
            if kids:
                for k in kids:
                    if assign[k] != assign[i]:
                        c += 1
        if c < best:
            best = c
    return best


def column_minima(t, rows, dtype, gaps_as_missing):
    """rows: label -> string of symbols.  Minimum number of changes of every column."""
    labs = leaf_labels(t)
    ncol = len(rows[labs[0]])
    space = state_space(dtype, gaps_as_missing)
    out = []
    for c in range(ncol):
        ls = dict((lab, state_set(rows[lab][c], dtype, gaps_as_missing)) for lab in labs)
        out.append(sankoff_min(t, ls, space))
    return out


def weighted_score(minima, weights):
    if weights is None:
        return sum(minima)
    tot = 0
    for m, w in zip(minima, weights):
        tot += m * w
    return tot
