"""Independent specification functions for taxon namespaces (oracles of C10).

They read the raw representation only (`_taxa`, `_taxon_accession_index_map`,
`_accession_index_taxon_map`, `_current_accession_count`, `_taxon_bitmask_map`,
`is_case_sensitive`, `Taxon._label`) and never call a lookup / bitmask method of
the namespace."""


def raw_label(t):
    return t._label


def effective_cs(ns, call_cs):
    """the case rule of a lookup: the call's setting if given, else the namespace's"""
    if call_cs is None:
        return bool(ns.is_case_sensitive)
    return bool(call_cs)


def label_matches(label, taxon, case_sensitive):
    tl = raw_label(taxon)
    if case_sensitive:
        return label == tl
    if tl is None:
        return False
    return str(label).lower() == str(tl).lower()


def matches(ns, label, call_cs=None):
    """members whose label matches, in membership (list) order"""
    cs = effective_cs(ns, call_cs)
    return [t for t in ns._taxa if label_matches(label, t, cs)]


def matches_many(ns, labels, call_cs=None, first_match_only=False):
    """spec of get_taxa: for each label in turn its matches (all, or the first);
    without first_match_only a member is listed once (at its first occurrence)"""
    out = []
    for lb in labels:
        m = matches(ns, lb, call_cs)
        if first_match_only:
            if m:
                out.append(m[0])
        else:
            for t in m:
                if not any(t is x for x in out):
                    out.append(t)
    return out


def is_single_bit(x):
    return isinstance(x, int) and x > 0 and (x & (x - 1)) == 0


def raw_bit(ns, taxon):
    """the bit the representation assigns to a member, read without side effects"""
    return 1 << ns._taxon_accession_index_map[taxon]


def invariant_errors(ns):
    """The representation invariant NS of DESIGN.md (C10)."""
    errs = []
    taxa = ns._taxa
    ids = [id(t) for t in taxa]
    if len(set(ids)) != len(ids):
        errs.append("a taxon is listed twice in _taxa")
    acc = ns._taxon_accession_index_map
    inv = ns._accession_index_taxon_map
    if set(id(t) for t in acc.keys()) != set(ids):
        errs.append("_taxon_accession_index_map keys != members")
    for t, i in acc.items():
        if inv.get(i) is not t:
            errs.append("_accession_index_taxon_map[%r] is not the taxon whose index is %r" % (i, i))
        if not (isinstance(i, int) and 0 <= i < ns._current_accession_count):
            errs.append("accession index %r outside [0, %r)" % (i, ns._current_accession_count))
    for i, t in inv.items():
        if acc.get(t) != i:
            errs.append("_accession_index_taxon_map has a stale entry at %r" % (i,))
    idx = list(acc.values())
    if len(set(idx)) != len(idx):
        errs.append("two members share an accession index")
    for t, m in ns._taxon_bitmask_map.items():
        if t not in acc:
            errs.append("_taxon_bitmask_map caches a non-member")
        elif m != (1 << acc[t]):
            errs.append("_taxon_bitmask_map caches %r for a member whose index is %r" % (m, acc[t]))
    return sorted(set(errs))


def parse_split_newick(s):
    """'((a, b), (c));' -> ('split', [a, b], [c]);  '(a,b,c);' -> ('flat', [a, b, c]).
    Only for labels without Newick-special characters (returned verbatim)."""
    s = s.strip()
    if not s.endswith(";"):
        return None
    s = s[:-1].strip()
    if not (s.startswith("(") and s.endswith(")")):
        return None
    inner = s[1:-1]

    def items(x):
        x = x.strip()
        if x == "":
            return []
        return [p.strip() for p in x.split(",")]

    if "(" not in inner:
        return ("flat", items(inner))
    # two parenthesised groups
    if not inner.startswith("("):
        return None
    close = inner.find(")")
    left = inner[1:close]
    rest = inner[close + 1:].strip()
    if not rest.startswith(","):
        return None
    rest = rest[1:].strip()
    if not (rest.startswith("(") and rest.endswith(")")):
        return None
    right = rest[1:-1]
    if "(" in left or "(" in right or ")" in right:
        return None
    return ("split", items(left), items(right))


def bitstring_positions(s):
    """positions (bit numbers, least significant = rightmost) holding '1'; None if not a 0/1 string"""
    if not isinstance(s, str) or any(c not in "01" for c in s):
        return None
    n = len(s)
    return set(n - 1 - i for i, c in enumerate(s) if c == "1")
