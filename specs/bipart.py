"""Independent specification of a *current* bipartition encoding (C03 clause
"an operation asked to update bipartitions ... leaves every edge, and the tree's
encoding list, with exactly what a fresh encoding would produce").

Bits are supplied by the caller (`bitof`: Taxon -> int, the accession index the
caller recorded when it built the namespace), so nothing here depends on
TaxonNamespace.taxon_bitmask / accession_index."""


def _leafset(n, bitof, memo):
    if not n._child_nodes:
        m = 0 if n.taxon is None else (1 << bitof[n.taxon])
    else:
        m = 0
        for c in n._child_nodes:
            m |= _leafset(c, bitof, memo)
    memo[id(n)] = m
    return m


def _lowest_bit(x):
    return x & -x


def expected_masks(tree, bitof):
    """id(node) -> (leafset_bitmask, split_bitmask), and the tree leafset mask."""
    memo = {}
    full = _leafset(tree._seed_node, bitof, memo)
    out = {}
    rooted = bool(tree._is_rooted)
    low = _lowest_bit(full) if full else 0
    for k, m in memo.items():
        if rooted:
            s = m
        elif low and (m & low):
            s = (~m) & full
        else:
            s = m & full
        out[k] = (m, s)
    return out, full


def encoding_errors(tree, bitof, nodes):
    """Compare what is stored on the edges and in tree.bipartition_encoding with
    the masks a fresh encoding of this very tree must have.  `nodes` = the
    reachable nodes (from the caller's own BFS)."""
    errs = []
    exp, full = expected_masks(tree, bitof)
    if full == 0:
        return []  # a tree without any taxon: nothing to encode (the library leaves tree_leafset_bitmask unset)
    enc = tree.bipartition_encoding
    if not isinstance(enc, list):
        return ["bipartition_encoding is %r, not a list" % (type(enc).__name__,)]
    on_edges = []
    for n in nodes:
        b = getattr(n._edge, "_bipartition", None)
        if b is None:
            errs.append("edge without bipartition")
            continue
        on_edges.append(b)
        m, s = exp[id(n)]
        if b._leafset_bitmask != m:
            errs.append("leafset_bitmask %s, fresh encoding gives %s" % (bin(b._leafset_bitmask or 0), bin(m)))
        if b._split_bitmask != s:
            errs.append("split_bitmask %r, fresh encoding gives %s" % (b._split_bitmask if b._split_bitmask is None else bin(b._split_bitmask), bin(s)))
        if b._tree_leafset_bitmask != full:
            errs.append("tree_leafset_bitmask %r, fresh encoding gives %s" % (b._tree_leafset_bitmask, bin(full)))
        if bool(b._is_rooted) != bool(tree._is_rooted):
            errs.append("bipartition.is_rooted %r on a tree with is_rooted %r" % (b._is_rooted, tree._is_rooted))
    a = sorted(id(b) for b in enc)
    e = sorted(id(b) for b in on_edges)
    if a != e:
        errs.append("bipartition_encoding holds %d objects, the tree has %d edges; %d of the listed objects are not on an edge, "
                    "%d edge bipartitions are not listed" % (len(a), len(e), len(set(a) - set(e)), len(set(e) - set(a))))
    return errs[:6]
