"""C02 (T2, bounded): trees survive write -> read through Newick, NEXUS, NeXML.

Contract on  Tree/TreeList.as_string|write  o  Tree/TreeList.get :  the trees read
back equal the *plain spec* the input was built from (specs/treeio.py: ordered
topology, taxon label per node, internal node labels, edge lengths, defined
rooting state) over a namespace with the same labels (same order for NEXUS and
NeXML), every taxon on a node being a member object of the namespace.

Monitors are named `roundtrip.<schema>.<clause>`, clause in
    raises | count | topology | taxa | labels | lengths | missing_length |
    rooting | namespace | taxon_identity | weights
(`missing_length`: an absent non-root length comes back as 0; kept apart from
`lengths` so that it can be triaged on its own -- the statement allows that
normalisation for the root edge of NeXML only.)

Consistent writer/reader option pairs used (statement: "matching reader options"):
    default                 {}                                    / {}
    uu+ps/pu                unquoted_underscores, preserve_spaces / preserve_underscores
    uu/pu                   unquoted_underscores                  / preserve_underscores
                            only for labels WITHOUT a space: with preserve_spaces=False the
                            writer documents "spaces will be converted to underscores", which a
                            reader that keeps underscores cannot undo (documented lossy pair).
    ps                      preserve_spaces                       / {}
    translate (NEXUS)       translate_tree_taxa=True              / {}
    noroot/force            suppress_rooting                      / rooting=force-(un)rooted matching the tree
    noroot/default          suppress_rooting                      / rooting=default-(un)rooted matching the tree
    token/opposite-default  {}                                    / rooting=default-<the other state> (the written token must win)
    weights                 store_tree_weights                    / store_tree_weights
    itaxa                   {}                                    / suppress_internal_node_taxa=False  (trees whose internal nodes carry taxa)

Deliberately left out (in doubt => not demanded):
  * Newick cannot carry taxa that are on no tree: for Newick the namespace read back must
    equal (as a multiset) the labels used on the trees, not the full original namespace.
  * weights are compared only when the written tree has a weight and store_tree_weights
    is on at both ends (a missing weight is read as the reader's default 1.0).
  * internal node labels are plain alphanumerics (the statement quantifies over taxon labels).
  * tree labels / NEXUS tree names, comments and annotations (not in the statement).
  * undefined rooting must come back undefined in Newick/NEXUS (implied by "the only
    normalisations allowed"); NeXML may return unrooted.

Label scope: every admissible string of length <= 2 (quick; + a seeded sample of length 3)
or <= 3 (thorough) over one representative of every character class that any literal
set / regex of the writer or tokenizer distinguishes -- which, within printable ASCII, is
every punctuation character by itself -- plus space, a lower- and an upper-case letter, a
digit, a non-ASCII letter and tab.  Failures are reported for *minimal* labels only: a
failing (label, schema, options, clause) for which a strictly simpler label -- a proper
substring, or the label with one character replaced by 'a' -- fails the same clause under
the same schema/options is counted in a note and reported through the simpler witness.
In the other scopes at most CAP new violations per (monitor, option pair, scope) are
written out (deterministic order); the remainder is counted in a note.  Neither rule
changes the verdict: any failing evaluation makes the check exit 1."""
import io
import itertools
import json
import os
import string
import tempfile

from bounded.common import shapes_exact, shapes_upto, with_unifurcations, n_leaves, rng_for, pmap
from bounded import iohelp as H
from specs import treeio as T
from specs import trees as S

import dendropy
from dendropy import Tree, TreeList, TaxonNamespace

SCHEMAS = ("newick", "nexus", "nexml")

# ----------------------------------------------------------------------------- option pairs
LABEL_PAIRS = {
    "newick": ["default", "uu+ps/pu", "uu/pu", "ps"],
    "nexus": ["default", "uu+ps/pu", "uu/pu", "ps", "translate", "translate+uu+ps/pu"],
    "nexml": ["default"],
}
PAIR = {
    "default": ({}, {}),
    "uu+ps/pu": ({"unquoted_underscores": True, "preserve_spaces": True}, {"preserve_underscores": True}),
    "uu/pu": ({"unquoted_underscores": True}, {"preserve_underscores": True}),
    "ps": ({"preserve_spaces": True}, {}),
    "translate": ({"translate_tree_taxa": True}, {}),
    "translate+uu+ps/pu": ({"translate_tree_taxa": True, "unquoted_underscores": True, "preserve_spaces": True},
                           {"preserve_underscores": True}),
    "weights": ({"store_tree_weights": True}, {"store_tree_weights": True}),
    "translate+weights": ({"translate_tree_taxa": True, "store_tree_weights": True}, {"store_tree_weights": True}),
    "itaxa": ({}, {"suppress_internal_node_taxa": False}),
    "translate+itaxa": ({"translate_tree_taxa": True}, {"suppress_internal_node_taxa": False}),
}


def pair_opts(name, rooted):
    """-> (writer kwargs, reader kwargs) or None when the pair does not apply to this rooting state"""
    if name in PAIR:
        return PAIR[name]
    if rooted is None:
        if name in ("noroot/force", "noroot/default"):
            return ({"suppress_rooting": True}, {})  # nothing to force: must stay undefined
        return None
    if name == "noroot/force":
        return ({"suppress_rooting": True}, {"rooting": "force-rooted" if rooted else "force-unrooted"})
    if name == "noroot/default":
        return ({"suppress_rooting": True}, {"rooting": "default-rooted" if rooted else "default-unrooted"})
    if name == "token/opposite-default":
        return ({}, {"rooting": "default-unrooted" if rooted else "default-rooted"})
    raise KeyError(name)


# ----------------------------------------------------------------------------- one evaluation
def evaluate(case):
    """case: dict(schema, pair, doc, kind 'tree'|'list', route 'string'|'path'|'stream').
    Returns a list of [clause, detail] (empty = contract holds)."""
    schema = case["schema"]
    doc = case["doc"]
    kind = case["kind"]
    route = case.get("route", "string")
    rooted0 = doc["trees"][0]["rooted"] if doc["trees"] else None
    po = pair_opts(case["pair"], rooted0)
    wk, rk = dict(po[0]), dict(po[1])
    if schema == "nexml":
        # the NeXML writer/reader take none of the Newick-family options
        wk = {}
        rk = {}
    tl = H.build_tree_list(doc)
    src = tl[0] if kind == "tree" else tl
    cls = Tree if kind == "tree" else TreeList
    tmp = None
    try:
        try:
            if route == "string":
                text = src.as_string(schema=schema, **wk)
                got = cls.get(data=text, schema=schema, **rk)
            elif route == "yield":
                # read back one tree at a time through the tree iterator, into a fresh namespace
                text = src.as_string(schema=schema, **wk)
                ns_y = TaxonNamespace()
                got = TreeList(taxon_namespace=ns_y)
                for t_y in Tree.yield_from_files([io.StringIO(text)], schema, taxon_namespace=ns_y, **rk):
                    got._trees.append(t_y)
                if kind == "tree":
                    got = got._trees[0]
            elif route == "stream":
                buf = io.StringIO()
                src.write(file=buf, schema=schema, **wk)
                text = buf.getvalue()
                got = cls.get(file=io.StringIO(text), schema=schema, **rk)
            else:
                fd, tmp = tempfile.mkstemp(suffix="." + schema, prefix="c02_")
                os.close(fd)
                src.write(path=tmp, schema=schema, **wk)
                with open(tmp) as f:
                    text = f.read()
                got = cls.get(path=tmp, schema=schema, **rk)
        except NameError:
            raise   # a defect of this driver, not of the library: never a verdict
        except Exception as e:
            if kind == "list" and not doc["trees"] and isinstance(e, ValueError) and "No trees" in str(e):
                return []
            return [["raises", "%s: %s" % (type(e).__name__, str(e)[:200])]]
    finally:
        if tmp and os.path.exists(tmp):
            os.unlink(tmp)
    trees = [got] if kind == "tree" else list(got._trees)
    out = []
    exp_trees = doc["trees"][:1] if kind == "tree" else doc["trees"]
    if len(trees) != len(exp_trees):
        return [["count", "%d trees written, %d read" % (len(exp_trees), len(trees))]]
    ns = got.taxon_namespace
    for k, (e, g) in enumerate(zip(exp_trees, trees)):
        werr = S.arborescence_errors(g)
        if werr:
            out.append(["topology", "tree %d read back is not well formed: %s" % (k, werr[0])])
            continue
        d = T.diff_tree(e, T.observe(g), root_none_is_zero=(schema == "nexml"),
                        undefined_reads_as=(False if schema == "nexml" else None),
                        check_weight=("store_tree_weights" in wk and schema != "nexml"))
        out.extend([c, "tree %d: %s" % (k, m)] for c, m in d)
        for m in T.taxon_identity_errors(g, ns):
            out.append(["taxon_identity", "tree %d: %s" % (k, m)])
    got_labels = T.ns_labels(ns)
    if schema == "newick":
        # Newick carries only the labels that are on a tree (format-forced)
        want = T.labels_used({"trees": exp_trees})
        if sorted(got_labels) != sorted(want):
            out.append(["namespace", "labels on the trees %r, namespace read %r" % (want, got_labels)])
    else:
        if got_labels != doc["ns"]:
            out.append(["namespace", "namespace written %r, read %r" % (doc["ns"], got_labels)])
    return out


def case_key(case):
    # tier-independent: the scope family ("labels", "shapes", ...) without its size bound
    fam = case["scope"].split("@")[1].split("<")[0].split("=")[0]
    return "%s|%s|%s|%s|%s|%s%s" % (fam, case["schema"], case["pair"], case["kind"], case.get("route", "string"),
                                    T.render_doc(case["doc"]), " removed=2" if case["doc"].get("ns_all") else "")


# ----------------------------------------------------------------------------- scopes
PUNCT = [c for c in string.punctuation]
ALPHABET = PUNCT + [" ", "a", "Q", "1", "é", "\t"]
OTHER = ["zz9", "yy8"]  # cannot collide (up to case) with any string over ALPHABET


def admissible(lab):
    return len(lab) > 0 and lab == lab.strip() and lab.lower() not in [o.lower() for o in OTHER]


def label_doc(lab):
    root = [None, None, None, [[None, "in1", 0.5, [[lab, None, 1.0, []], ["zz9", None, 2.0, []]]], ["yy8", None, 0.25, []]]]
    return {"ns": [lab, "zz9", "yy8"], "trees": [{"rooted": True, "root": root, "weight": None}]}


def labels_upto(k):
    for n in range(1, k + 1):
        for tup in itertools.product(ALPHABET, repeat=n):
            lab = "".join(tup)
            if admissible(lab):
                yield lab


def numeral_doc(labs):
    root = [None, None, None, [[None, None, 0.5, [[labs[0], None, 1.0, []], [labs[1], None, 2.0, []]]], [labs[2], None, 0.25, []]]]
    t = {"rooted": True, "root": root, "weight": None}
    root2 = [None, None, None, [[None, None, 0.5, [[labs[2], None, 1.0, []], [labs[1], None, 2.0, []]]], [labs[0], None, 0.25, []]]]
    return {"ns": list(labs), "trees": [t, {"rooted": True, "root": root2, "weight": None}]}


def label_cases(labels, scope):
    # labels that are numerals, met in an order that is not their numeric order: a label is a label, never the number of a taxon
    # (through every reading route, the tree iterator included)
    for labs in (["7", "1", "2"], ["2", "1", "3"], ["3", "x", "1"], ["10", "2", "1"]):
        doc = numeral_doc(labs)
        for schema in ("newick", "nexus"):
            for route in ("string", "yield", "path"):
                yield dict(scope=scope, schema=schema, pair="default", kind="list", route=route, doc=doc, label="/".join(labs))
    for lab in labels:
        doc = label_doc(lab)
        for schema in SCHEMAS:
            for pair in LABEL_PAIRS[schema]:
                if pair == "uu/pu" and " " in lab:
                    continue
                yield dict(scope=scope, schema=schema, pair=pair, kind="tree", route="string", doc=doc, label=lab)


LEAFLABELS = ["A", "b", "C3", "d_e", "F g", "H", "I"]


def len_patterns():
    sci = [1e-10, 2.5e+20, 1.5e-07, 3.0, 0.1, 1e+100, 6.02e+23, 4.9e-324]
    return {
        "none": None,
        "zero": lambda i, leaf, root: (None if root else 0.0),
        "zero+root": lambda i, leaf, root: 0.0,
        "ints": lambda i, leaf, root: (None if root else (i * 7) % 4),
        "sci+root": lambda i, leaf, root: sci[i % len(sci)],
        "onemissing": lambda i, leaf, root: (None if (root or i == 2) else float(1 + i % 3) / 4),
    }


def shape_variants(maxleaves, unif):
    seen = []
    for s in shapes_upto(maxleaves):
        seen.append(s)
        if unif:
            for v in with_unifurcations(s):
                if v not in seen:
                    seen.append(v)
    return seen


SHAPE_PAIRS = {
    "newick": ["default", "noroot/force", "noroot/default", "token/opposite-default", "weights"],
    "nexus": ["default", "translate", "noroot/force", "noroot/default", "token/opposite-default", "weights",
              "translate+weights"],
    "nexml": ["default"],
}


def shape_cases(maxleaves, scope, routes=("string",)):
    pats = len_patterns()
    for s in shape_variants(maxleaves, True):
        nl = n_leaves(s)
        for pn, pf in pats.items():
            for il in (False, True):
                root = H.shape_to_node(s, LEAFLABELS[:nl], lengths=pf, internal_labels=il)
                for rooted in (True, False, None):
                    for schema in SCHEMAS:
                        for pair in SHAPE_PAIRS[schema]:
                            if pair_opts(pair, rooted) is None:
                                continue
                            w = 0.5 if "weights" in pair and (len(s) % 2 == 0) else (2.0 if "weights" in pair else None)
                            doc = {"ns": LEAFLABELS[:nl], "trees": [{"rooted": rooted, "root": root, "weight": w}]}
                            for route in routes:
                                yield dict(scope=scope, schema=schema, pair=pair, kind="tree", route=route, doc=doc)


def namespace_cases(scope):
    """Lab: leaves assigned to namespaces of size n..n+2, 0-2 taxa removed (they simply never
    appear), order reversed / rotated; leaf order differs from namespace order."""
    base = ["A", "b", "C3", "d_e", "F g", "H"]
    for s in [((), ()), ((), ((), ())), (((), ()), ((), ())), ((), (), ()), (((),), ()), ()]:
        nl = n_leaves(s)
        for extra in (0, 1, 2):
            pool = base[: nl + extra]
            for order in ("asis", "reversed", "rotated"):
                ns = list(pool)
                if order == "reversed":
                    ns.reverse()
                elif order == "rotated":
                    ns = ns[1:] + ns[:1]
                for pick in ("first", "last"):
                    leaves = pool[:nl] if pick == "first" else pool[-nl:]
                    leaves = list(reversed(leaves)) if order == "asis" else leaves
                    root = H.shape_to_node(s, leaves, lengths=lambda i, leaf, r: (None if r else 0.25 * (i + 1)), internal_labels=True)
                    for removed in (False, True):
                        doc = {"ns": ns, "trees": [{"rooted": False, "root": root, "weight": None}]}
                        if removed:
                            # two taxa created and removed again (first and middle position)
                            doc["ns_all"] = ["gone0"] + ns[: len(ns) // 2] + ["gone1"] + ns[len(ns) // 2:]
                        for schema in SCHEMAS:
                            for pair in (["default", "translate"] if schema == "nexus" else ["default"]):
                                for kind in ("tree", "list"):
                                    yield dict(scope=scope, schema=schema, pair=pair, kind=kind, route="string", doc=doc)
                                if schema in ("newick", "nexus"):
                                    # ... and read back one tree at a time through the tree iterator (its own TREES-block / TRANSLATE handling)
                                    yield dict(scope=scope, schema=schema, pair=pair, kind="list", route="yield", doc=doc)


def internal_taxa_cases(scope):
    for s in [((), ()), ((), ((), ())), (((), ()), ((), ())), ((((), ()),), ())]:
        nl = n_leaves(s)
        leaves = ["A", "b", "C3", "d_e"][:nl]
        inner = ["anc1", "anc 2", "anc_3", "N4", "N5"]
        root = H.shape_to_node(s, leaves, lengths=lambda i, leaf, r: (None if r else 1.5), internal_taxa=iter(inner))
        used = T.labels_used({"trees": [{"root": root}]})
        for rooted in (True, False):
            doc = {"ns": used, "trees": [{"rooted": rooted, "root": root, "weight": None}]}
            for schema in SCHEMAS:
                for pair in (["itaxa", "translate+itaxa"] if schema == "nexus" else ["itaxa"]):
                    yield dict(scope=scope, schema=schema, pair=pair, kind="tree", route="string", doc=doc)


def blank_leaf_cases(scope):
    """one leaf of the tree carries neither a taxon nor a label (an anonymous tip), in every leaf position, with and without a length"""
    for s in [((), ()), ((), (), ()), ((), ((), ())), (((), ()), ())]:
        nl = n_leaves(s)
        for pos in range(nl):
            for with_len in (False, True):
                labels = [None if i == pos else ["A", "b", "C3"][i if i < pos else i - 1] for i in range(nl)]
                root = H.shape_to_node(s, labels, lengths=lambda i, leaf, r: (None if (r or not with_len) else 1.5))
                used = T.labels_used({"trees": [{"root": root}]})
                for rooted in (True, False):
                    doc = {"ns": used, "trees": [{"rooted": rooted, "root": root, "weight": None}]}
                    for schema in SCHEMAS:
                        yield dict(scope=scope, schema=schema, pair="default", kind="tree", route="string", doc=doc,
                                   blank="last" if pos == nl - 1 else ("first" if pos == 0 else "middle"))


def list_cases(scope, maxlen):
    small = [(), ((), ()), ((), ((), ())), (((), ()), ((), ())), ((), (), ())]
    pats = len_patterns()
    pn = list(pats)
    labs = ["A", "b", "C3", "d_e"]
    mk = []
    for k, s in enumerate(small):
        for rooted in (True, False, None):
            root = H.shape_to_node(s, labs[: n_leaves(s)], lengths=pats[pn[(k + (0 if rooted else 1)) % len(pn)]],
                                   internal_labels=(k % 2 == 0))
            mk.append({"rooted": rooted, "root": root, "weight": None})
    for n in range(0, maxlen + 1):
        for combo in itertools.product(range(len(mk)), repeat=n):
            # keep the enumeration small but complete over (first tree, last tree) pairs
            if n == 3 and combo[1] != (combo[0] + combo[2]) % len(mk):
                continue
            trees = [dict(mk[i]) for i in combo]
            for schema in SCHEMAS:
                for pair in {"newick": ["default", "weights"], "nexus": ["default", "translate", "weights"], "nexml": ["default"]}[schema]:
                    tt = [dict(t, weight=([0.5, 2.0, 0.25][j % 3] if "weights" in pair else None)) for j, t in enumerate(trees)]
                    doc = {"ns": labs, "trees": tt}
                    for route in (("string", "path", "stream") if n <= 1 or sum(combo) % 7 == 0 else ("string",)):
                        yield dict(scope=scope, schema=schema, pair=pair, kind="list", route=route, doc=doc)


# ----------------------------------------------------------------------------- driver
NEUTRAL = "a"


def simpler_labels(lab):
    """labels strictly simpler than lab: proper contiguous substrings, and lab with one
    character replaced by the neutral letter"""
    out = []
    n = len(lab)
    for i in range(n):
        for j in range(i + 1, n + 1):
            if j - i < n:
                out.append(lab[i:j])
    for i, ch in enumerate(lab):
        if ch != NEUTRAL:
            out.append(lab[:i] + NEUTRAL + lab[i + 1:])
    seen = []
    for x in out:
        if admissible(x) and x != lab and x not in seen:
            seen.append(x)
    return seen


def evaluate_label(case):
    """evaluate + witness minimisation: which failing clauses also fail for a strictly
    simpler label under the same schema/options (those are 'explained', not minimal)"""
    res = evaluate(case)
    explained = []
    if res:
        clauses = set(c for c, _ in res)
        for lab in simpler_labels(case["label"]):
            if case["pair"] == "uu/pu" and " " in lab:
                continue
            r2 = evaluate(dict(case, doc=label_doc(lab), label=lab))
            for c, _ in r2:
                if c in clauses and c not in explained:
                    explained.append(c)
            if len(explained) == len(clauses):
                break
    return {"res": res, "explained": explained}


CAP = 5  # new violations reported per (monitor, option pair) and scope; the rest are counted in a note


def _run(ctx, scope, cases, nontrivial, labels=False):
    cap = 40 if labels else CAP
    cases = list(cases)
    results = pmap(evaluate_label if labels else evaluate, cases, chunksize=32)
    reported = {}
    n_explained = 0
    n_capped = {}
    for i, c in enumerate(cases):
        key = case_key(c)
        ctx.case(scope, key, nontrivial=nontrivial(c), sample=key)
        res = results[i]["res"] if labels else results[i]
        explained = results[i]["explained"] if labels else []
        seen = set()
        for clause, detail in res:
            mon = "roundtrip.%s.%s" % (c["schema"], clause)
            if mon in seen:
                continue
            seen.add(mon)
            if clause in explained:
                n_explained += 1
                continue
            g = (mon, c["pair"])
            if reported.get(g, 0) >= cap:
                n_capped[g] = n_capped.get(g, 0) + 1
                continue
            w = dict(key=key, scope=c["scope"], schema=c["schema"], pair=c["pair"], kind=c["kind"],
                     route=c.get("route", "string"), doc=c["doc"])
            if ctx.fail(mon, w, detail="%s %s [%s] %s: %s" % (c["schema"], c["kind"], c["pair"], T.render_doc(c["doc"]), detail)):
                reported[g] = reported.get(g, 0) + 1
    if n_explained:
        ctx.note("%s: %d further failing (label, schema, options, clause) evaluations also fail for a strictly simpler label "
                 "(a proper substring, or one character replaced by 'a') and are reported through that simpler witness only"
                 % (scope, n_explained))
    for g, n in sorted(n_capped.items()):
        ctx.note("%s: %d further violations of %s under option pair %s not listed (cap %d per monitor/pair/scope)"
                 % (scope, n, g[0], g[1], cap))


def t2(ctx):
    thorough = ctx.tier == "thorough"
    special = set(PUNCT + [" ", "\t", "é"])

    # -- labels
    k = 3 if thorough else 2
    sc = "roundtrip@labels<=%d" % k
    ctx.scope(sc, rule="every admissible label (non-empty, no leading/trailing whitespace, distinct up to case) of length <= %d over "
                       "%d class representatives (each ASCII punctuation character, space, a, Q, 1, e-acute, tab) as a leaf taxon of "
                       "((L:1,zz9:2)in1:0.5,yy8:0.25) x {newick,nexus,nexml} x every consistent quoting/underscore/space/translate "
                       "option pair; non-trivial = label contains a non-alphanumeric character" % (k, len(ALPHABET)),
              exhaustive=True)
    _run(ctx, sc, label_cases(labels_upto(k), sc), lambda c: any(ch in special for ch in c["label"]), labels=True)
    if not thorough:
        sc3 = "roundtrip@labels=3(sample)"
        rng = rng_for(ctx, 202)
        pool = set()
        while len(pool) < 1500:
            lab = "".join(rng.choice(ALPHABET) for _ in range(3))
            if admissible(lab):
                pool.add(lab)
        ctx.scope(sc3, rule="1500 seeded random admissible labels of length 3 over the same alphabet, same tree/format/option grid; "
                            "non-trivial = label contains a non-alphanumeric character", exhaustive=False)
        _run(ctx, sc3, label_cases(sorted(pool), sc3), lambda c: any(ch in special for ch in c["label"]), labels=True)

    # -- labels with ONE special character in the interior (both tiers, exhaustive): x c y
    sci = "roundtrip@labels=interior"
    inner = sorted(set(x + c + y for c in ALPHABET for x in ("a", "Q", "1", "\u00e9") for y in ("a", "Q", "1", "\u00e9")
                       if admissible(x + c + y)))
    ctx.scope(sci, rule="every label x+c+y with c one of the %d class representatives and x, y in {a, Q, 1, e-acute} (interior space, "
                        "underscore, each punctuation character), same tree/format/option grid; non-trivial = c is not alphanumeric" % len(ALPHABET),
              exhaustive=True)
    _run(ctx, sci, label_cases(inner, sci), lambda c: any(ch in special for ch in c["label"]), labels=True)

    # -- namespaces of purely numeric labels that are NOT their own 1-based position (taxon-number lookups)
    scn = "roundtrip@numeric-labels"
    ctx.scope(scn, rule="trees ((L1:1,L2:2)in1:0.5,L3:0.25) over namespaces of all-digit labels in every order of {1,2,3} plus {10,1,2}, "
                        "{2,3,1,Zeta}, {0,7}, x {newick,nexus,nexml} x {default, translate}; non-trivial = some label differs from its position",
              exhaustive=True)
    num_cases = []
    nss = [list(p) for p in itertools.permutations(["1", "2", "3"])] + [["10", "1", "2"], ["2", "3", "1", "Zeta"], ["0", "7", "3"]]
    for ns_ in nss:
        root = [None, None, None, [[None, "in1", 0.5, [[ns_[0], None, 1.0, []], [ns_[1], None, 2.0, []]]], [ns_[2], None, 0.25, []]]]
        doc = {"ns": list(ns_), "trees": [{"rooted": True, "root": root, "weight": None}]}
        for schema in SCHEMAS:
            for pair in (["default", "translate"] if schema == "nexus" else ["default"]):
                num_cases.append(dict(scope=scn, schema=schema, pair=pair, kind="tree", route="string", doc=doc, label="/".join(ns_)))
    _run(ctx, scn, num_cases, lambda c: any(l != str(i + 1) for i, l in enumerate(c["doc"]["ns"])), labels=False)

    # -- shapes x lengths x rooting x options
    ml = 5 if thorough else 4
    sc = "roundtrip@shapes<=%d" % ml
    ctx.scope(sc, rule="every ordered shape with <= %d leaves (out-degree >= 2) and each variant with one unifurcation inserted above any "
                       "node or the root x 6 length patterns (absent, zero, zero incl. root, ints, scientific-notation floats incl. root, "
                       "one missing) x internal labels on/off x rooting {rooted, unrooted, undefined} x 3 formats x every applicable "
                       "option pair (default, translate, suppress_rooting with explicit reader rooting, written token vs opposite reader "
                       "default, store_tree_weights); non-trivial = >= 2 leaves" % ml, exhaustive=True)
    _run(ctx, sc, shape_cases(ml, sc), lambda c: len(c["doc"]["ns"]) >= 2)

    sc = "roundtrip@routes"
    ctx.scope(sc, rule="shapes <= 3 leaves of the grid above through write(path=)/get(path=) and write(file=)/get(file=); "
                       "non-trivial = >= 2 leaves", exhaustive=True)
    _run(ctx, sc, shape_cases(3, sc, routes=("path", "stream")), lambda c: len(c["doc"]["ns"]) >= 2)

    # -- namespaces larger than / ordered differently from the leaf set
    sc = "roundtrip@namespaces"
    ctx.scope(sc, rule="6 shapes x namespace of size n..n+2 (taxa that are on no tree) x order {as is, reversed, rotated} x leaves taken "
                       "from the first/last labels x {no taxon removed, two taxa created and removed again} x {Tree, TreeList} x formats (NEXUS also with TRANSLATE); non-trivial = namespace "
                       "differs from the leaf sequence", exhaustive=True)
    _run(ctx, sc, namespace_cases(sc), lambda c: c["doc"]["ns"] != T.labels_used(c["doc"]))

    # -- taxa on internal nodes
    sc = "roundtrip@internal-taxa"
    ctx.scope(sc, rule="4 shapes whose internal nodes carry taxa x both rooting states x formats, reader suppress_internal_node_taxa=False; "
                       "non-trivial = all", exhaustive=True)
    _run(ctx, sc, internal_taxa_cases(sc), lambda c: True)

    # -- anonymous tips
    sc = "roundtrip@blank-leaves"
    ctx.scope(sc, rule="4 shapes x one leaf without taxon and label in every leaf position x {no lengths, lengths} x both rooting states x formats; "
                       "non-trivial = all", exhaustive=True)
    _run(ctx, sc, blank_leaf_cases(sc), lambda c: True)
    # -- tree lists
    mlen = 3
    sc = "roundtrip@lists<=%d" % mlen
    ctx.scope(sc, rule="TreeList of length 0..%d over 15 (shape, rooting, length pattern) trees with mixed rooting states (length-3 lists "
                       "thinned to one middle tree per (first,last)) x formats x {default, translate, store_tree_weights}, string route "
                       "plus path/stream routes on a subset; non-trivial = >= 2 trees" % mlen, exhaustive=False)
    _run(ctx, sc, list_cases(sc, mlen), lambda c: len(c["doc"]["trees"]) >= 2)


def replay(ctx, rec):
    w = rec["witness"]
    case = dict(scope=w["scope"], schema=w["schema"], pair=w["pair"], kind=w["kind"], route=w.get("route", "string"), doc=w["doc"])
    res = evaluate(case)
    clause = rec["obligation"].split(".")[-1]
    hit = [d for c, d in res if c == clause]
    for c, d in res:
        print("  %s: %s" % (c, d))
    return not hit
