"""C14 (T2) -- path distances, common ancestors, their summaries, NJ / UPGMA inversion.

Oracles: specs/paths.py (parent-pointer walks) and specs/splits.py (split -> length tables).

Scopes
  pdm       Tree.phylogenetic_distance_matrix(is_store_path_edges in {False, True}) on Shapes x Len x
            rooting (+ unifurcation variants, namespaces larger than the leaf set / with removed taxa):
            for every ordered pair of leaf taxa patristic_distance, path_edge_count, mrca, distance(),
            __call__ against (sum of lengths with None = 0, number of edges, turning node); symmetry;
            zero self-distance; distances() as a multiset; sum_of_distances; taxon_iter; mean pairwise /
            mean nearest taxon distance, weighted and unweighted, unfiltered and for every (<= 4 leaves)
            or selected (more) filter subsets with >= 2 taxa, raw and normalised by tree length.
  ndm       Tree.node_distance_matrix(): the same three entries for every ordered pair of nodes.
  tm        treemeasure.patristic_distance for every pair, with a requested refresh and on a current encoding.
  mrca      Tree.mrca(taxa= | taxon_labels= | leafset_bitmask=) for every non-empty subset of the namespace
            taxa (a taxon that is on no leaf -> None), with the encoding current (two ways), with a refresh
            requested on a never encoded tree, and with a refresh requested after a leaf was moved.
  nj        PhylogeneticDistanceMatrix.nj_tree() on the matrix of every tree with positive internal
            lengths (leaf lengths may be 0): unrooted split -> length table of the result == that of the
            source, to 1e-9.  NJ can only emit binary trees, so result edges of length <= 1e-9 are
            contracted before the comparison (needed for sources with polytomies only).  Also on the
            edge-count matrix (unit lengths) and on a matrix written to CSV and read back.
  upgma     upgma_tree() on ultrametric trees (dyadic node heights): rooted clade -> length table equal,
            same contraction; also through CSV.

  random    seeded random 8-12 leaf trees: pdm, mrca, nj, upgma clauses as above.

Not demanded: normalisation of *unweighted* summaries (the code divides by the number of nodes, the
statement does not say by what); path_edges contents; start_node= of Tree.mrca; leaves without taxa.
A one-leaf tree has no pairs: only the self-distance and mrca clauses apply to it.
"""
import io
import itertools
import random
import warnings

from bounded.common import *  # noqa
from bounded.labelled import *  # noqa
from specs import trees as S
from specs import splits as SP
from specs import paths as P

import dendropy
from dendropy.calculate import treemeasure
from dendropy.calculate.phylogeneticdistance import PhylogeneticDistanceMatrix

warnings.filterwarnings("ignore")
TOL = 1e-9


def _exc(e):
    return "%s: %s" % (type(e).__name__, str(e)[:160])


def _close(a, b):
    return a is not None and abs(a - b) <= TOL * (1.0 + abs(b))


def _lens(shape, pat_name):
    pat = length_patterns()[pat_name] if pat_name in length_patterns() else None
    if pat_name == "none":
        return None
    if pat_name == "zeros":
        return lens_from_pattern(shape, lambda i, leaf: 0.0 if i % 2 else 1.5)
    if pat_name == "rootlen":
        l = lens_from_pattern(shape, length_patterns()["dyadic"])
        l[0] = 4.0
        return l
    return lens_from_pattern(shape, pat)


PATTERNS = ("none", "ones", "ints", "dyadic", "onemissing", "zeros", "rootlen")


def filter_subsets(labels):
    labels = list(labels)
    n = len(labels)
    if n <= 4:
        out = [list(c) for k in range(2, n + 1) for c in itertools.combinations(labels, k)]
    else:
        out = [labels[:2], labels[-2:], labels[::2], labels[1:], labels[:3], [labels[0], labels[-1]], labels]
    return out


# ============================================================================ pdm
def eval_pdm(item):
    spec, store = item["spec"], item["store"]
    tree = build(spec)
    by = P.leaf_by_label(tree)
    labs = sorted(by)
    table = P.pair_table(tree)
    tax = dict((l, by[l].taxon) for l in labs)
    fails = []
    n = 0
    try:
        with limit(30):
            pdm = tree.phylogenetic_distance_matrix(is_store_path_edges=True) if store else tree.phylogenetic_distance_matrix()
    except Timeout:
        return [("pdm.hangs", "no result after 30 s")], 1
    except Exception as e:
        return [("pdm.raises", _exc(e))], 1
    # the tree itself must not be restructured by taking the snapshot
    for a in labs:
        for b in labs:
            n += 1
            ta, tb = tax[a], tax[b]
            try:
                d = pdm.patristic_distance(ta, tb)
                k = pdm.path_edge_count(ta, tb)
                dd = pdm.distance(ta, tb)
                kk = pdm.distance(ta, tb, is_weighted_edge_distances=False)
                cc = pdm(ta, tb)
                m = pdm.mrca(ta, tb) if (a != b or len(labs) > 1) else None
            except Exception as e:
                fails.append(("pdm.pair.raises", "(%s,%s): %s" % (a, b, _exc(e))))
                continue
            if a == b:
                if d != 0 or k != 0 or dd != 0 or kk != 0 or cc != 0:
                    fails.append(("pdm.self-distance", "(%s,%s): distance %r / edges %r" % (a, b, d, k)))
                if m is not None and m is not by[a]:
                    fails.append(("pdm.mrca", "mrca(%s,%s) is not the leaf itself" % (a, a)))
                continue
            wd, wk, wm = table[frozenset((a, b))]
            if not (_close(d, wd) and _close(dd, wd) and _close(cc, wd)):
                fails.append(("pdm.patristic_distance", "(%s,%s): %r (distance() %r, __call__ %r), path sum %r" % (a, b, d, dd, cc, wd)))
            if k != wk or kk != wk:
                fails.append(("pdm.path_edge_count", "(%s,%s): %r (distance(unweighted) %r), edges on the path %r" % (a, b, k, kk, wk)))
            if m is not wm:
                fails.append(("pdm.mrca", "(%s,%s): %s, path turns at %s" % (a, b, S.newick(m, False) if m is not None else None, S.newick(wm, False))))
    if len(labs) >= 2:
        n += 1
        try:
            got_t = sorted(t.label for t in pdm.taxon_iter())
            if got_t != labs:
                fails.append(("pdm.taxa", "taxon_iter %s, leaf taxa %s" % (got_t, labs)))
            for weighted, idx in ((True, 0), (False, 1)):
                got = sorted(pdm.distances(is_weighted_edge_distances=weighted))
                want = sorted(v[idx] for v in table.values())
                if len(got) != len(want) or not all(_close(g, w) for g, w in zip(got, want)):
                    fails.append(("pdm.distances", "distances(weighted=%r) %r, pairs give %r" % (weighted, got, want)))
                s = pdm.sum_of_distances(is_weighted_edge_distances=weighted)
                if not _close(s, sum(want)):
                    fails.append(("pdm.distances", "sum_of_distances(weighted=%r) %r, pairs give %r" % (weighted, s, sum(want))))
        except Exception as e:
            fails.append(("pdm.distances.raises", _exc(e)))
        total = P.total_length(tree)
        for sub in [None] + filter_subsets(labs):
            keep = set(sub) if sub is not None else set(labs)
            ff = (lambda t, keep=keep: t.label in keep) if sub is not None else None
            for weighted, idx in ((True, 0), (False, 1)):
                for norm in ((False, True) if weighted and total > 0 else (False,)):
                    n += 2
                    scale = total if norm else 1.0
                    for name, fn, oracle in (("mean_pairwise_distance", pdm.mean_pairwise_distance, P.mean_pairwise),
                                             ("mean_nearest_taxon_distance", pdm.mean_nearest_taxon_distance, P.mean_nearest)):
                        want = oracle(table, keep, idx) / scale
                        try:
                            got = fn(filter_fn=ff, is_weighted_edge_distances=weighted, is_normalize_by_tree_size=norm)
                        except Exception as e:
                            fails.append(("pdm.%s.raises" % name, "filter=%s weighted=%r normalised=%r: %s" % (sub, weighted, norm, _exc(e))))
                            continue
                        if not _close(got, want):
                            fails.append(("pdm.%s" % name, "filter=%s weighted=%r normalised=%r: %r, average of the entries %r"
                                          % ("".join(sub) if sub else None, weighted, norm, got, want)))
    return fails, n


def eval_ndm(item):
    spec = item["spec"]
    tree = build(spec)
    nodes = S.pre(tree._seed_node)
    fails = []
    n = 0
    try:
        with limit(30):
            ndm = tree.node_distance_matrix()
    except Timeout:
        return [("ndm.hangs", "no result after 30 s")], 1
    except Exception as e:
        return [("ndm.raises", _exc(e))], 1
    for i, a in enumerate(nodes):
        for j, b in enumerate(nodes):
            n += 1
            try:
                d = ndm.patristic_distance(a, b)
                k = ndm.path_edge_count(a, b)
                m = ndm.mrca(a, b)
            except Exception as e:
                fails.append(("ndm.pair.raises", "(node#%d,node#%d): %s" % (i, j, _exc(e))))
                continue
            wd, wk, wm = P.path(a, b)
            if not _close(d, wd):
                fails.append(("ndm.patristic_distance", "(node#%d,node#%d): %r, path sum %r" % (i, j, d, wd)))
            if k != wk:
                fails.append(("ndm.path_edge_count", "(node#%d,node#%d): %r, edges on the path %r" % (i, j, k, wk)))
            if m is not wm:
                fails.append(("ndm.mrca", "(node#%d,node#%d): node#%s, path turns at node#%d"
                              % (i, j, [x for x, y in enumerate(nodes) if y is m], nodes.index(wm))))
    return fails, n


def eval_tm(item):
    """treemeasure.patristic_distance for every pair"""
    spec, updated = item["spec"], item["updated"]
    probe = build(spec)
    table = P.pair_table(probe)
    labs = sorted(P.leaf_by_label(probe))
    fails = []
    n = 0
    for a in labs:
        for b in labs:
            if a == b and len(labs) > 1:
                continue
            n += 1
            tree = build(spec)
            if updated:
                tree.encode_bipartitions(suppress_unifurcations=False)
            by = P.leaf_by_label(tree)
            try:
                with limit(20):
                    d = treemeasure.patristic_distance(tree, by[a].taxon, by[b].taxon, is_bipartitions_updated=updated)
            except Timeout:
                fails.append(("treemeasure.patristic_distance.hangs", "(%s,%s)" % (a, b)))
                continue
            except Exception as e:
                fails.append(("treemeasure.patristic_distance.raises", "(%s,%s): %s" % (a, b, _exc(e))))
                continue
            want = 0 if a == b else table[frozenset((a, b))][0]
            if not _close(d, want):
                fails.append(("treemeasure.patristic_distance", "(%s,%s) is_bipartitions_updated=%r: %r, path sum %r" % (a, b, updated, d, want)))
    return fails, n


# ============================================================================ mrca
MRCA_CONDS = ("encoded", "encoded-keep-unifurcations", "refresh", "moved+refresh")


def _moves(spec):
    t = build(spec)
    t.encode_bipartitions(suppress_unifurcations=False)
    nodes = S.pre(t._seed_node)
    out = []
    for i, x in enumerate(nodes):
        if x._child_nodes or x._parent_node is None or len(x._parent_node._child_nodes) < 2:
            continue
        for j, y in enumerate(nodes):
            if y._child_nodes and y is not x._parent_node:
                out.append([i, j])
    return out


def eval_mrca(item):
    spec, cond, move = item["spec"], item["cond"], item.get("move")
    all_labels = ns_labels(spec["ns"])
    fails = []
    n = 0
    subsets = [list(c) for k in range(1, len(all_labels) + 1) for c in itertools.combinations(all_labels, k)]
    if len(all_labels) > 5:
        subsets = [s for s in subsets if len(s) <= 3 or len(s) >= len(all_labels) - 1]
    if item.get("subset") is not None:
        subsets = [item["subset"]]
    for sub in subsets:
        for mode in ("taxa", "taxon_labels", "leafset_bitmask"):
            n += 1
            tree = build(spec)
            tree.is_rooted = spec["rooted"]
            ns = tree.taxon_namespace
            kw = {}
            if cond == "encoded":
                tree.encode_bipartitions()
            elif cond == "encoded-keep-unifurcations":
                tree.encode_bipartitions(suppress_unifurcations=False)
            elif cond == "refresh":
                kw["is_bipartitions_updated"] = False
            elif cond == "moved+refresh":
                tree.encode_bipartitions(suppress_unifurcations=False)
                nodes = S.pre(tree._seed_node)
                x, y = nodes[move[0]], nodes[move[1]]
                x._parent_node.remove_child(x)
                y.add_child(x)
                kw["is_bipartitions_updated"] = False
            if mode == "taxa":
                kw["taxa"] = [t for t in ns._taxa if t.label in sub]
            elif mode == "taxon_labels":
                kw["taxon_labels"] = list(sub)
            else:
                kw["leafset_bitmask"] = SP.mask_of(sub, BIT_OF)
            try:
                with limit(20):
                    got = tree.mrca(**kw)
            except Timeout:
                fails.append(("mrca.hangs", "%s %s=%s" % (cond, mode, "".join(sub)), sub))
                continue
            except Exception as e:
                fails.append(("mrca.raises", "%s %s=%s: %s" % (cond, mode, "".join(sub), _exc(e)), sub))
                continue
            if S.arborescence_errors(tree):
                fails.append(("mrca.structure", "%s %s=%s: tree is not well formed after the call" % (cond, mode, "".join(sub)), sub))
                continue
            want = P.deepest_common_ancestor(tree, sub)     # on the structure as it is after the call
            if got is not want:
                fails.append(("mrca.deepest", "%s %s=%s: returned %s, deepest node with all of them below is %s"
                              % (cond, mode, "".join(sub), S.newick(got, False) if got is not None else None,
                                 S.newick(want, False) if want is not None else None), sub))
    return fails, n


# ============================================================================ NJ / UPGMA
def table_of(tree, rooted, contract=False):
    """split -> length, internal splits of length <= TOL dropped when contract (pendant edges are kept)"""
    lens, _ = SP.split_lengths(tree, BIT_OF, rooted)
    fill = SP.node_mask(tree._seed_node, BIT_OF)
    if contract:
        if rooted:
            pendant = lambda s: SP.popcount(s) <= 1 or s == fill
        else:
            pendant = lambda s: SP.is_trivial_set(s, fill)
        lens = dict((s, l) for s, l in lens.items() if pendant(s) or abs(l) > TOL)
    return lens


def compare_tables(got, want, fill, rooted):
    """want: the source (all internal lengths positive).  Root/seed pseudo-splits (0 or fill) with length 0 are immaterial."""
    if not rooted:
        # the seed "edge" of an unrooted drawing (split 0) is no edge of the tree and cannot show in leaf distances
        got = dict((s, l) for s, l in got.items() if s not in (0, fill))
        want = dict((s, l) for s, l in want.items() if s not in (0, fill))
    g = dict((s, l) for s, l in got.items() if not (s in (0, fill) and abs(l) <= TOL))
    w = dict((s, l) for s, l in want.items() if not (s in (0, fill) and abs(l) <= TOL))
    if set(g) != set(w):
        return "splits only in the result %s, only in the source %s" % (sorted(set(g) - set(w)), sorted(set(w) - set(g)))
    bad = [(s, g[s], w[s]) for s in sorted(g) if not _close(g[s], w[s])]
    if bad:
        return "edge lengths differ (split, result, source): %s" % (bad[:4],)
    return None


def ultrametric_lens(shape, variant):
    """dyadic node heights: leaf 0, node = max(children) + step; variant 3: as variant 0 with every
    two-leaf cherry at height 0 (two taxa at distance exactly 0.0)"""
    shape = tup(shape)
    steps = [[0.5, 1.0, 0.25, 2.0, 0.75], [1.0, 1.0, 1.0, 1.0, 1.0], [0.25, 1.5, 0.5, 0.125, 3.0], [0.5, 1.0, 0.25, 2.0, 0.75]][variant]
    heights = []
    counter = [0]

    def rec(s):
        idx = len(heights)
        heights.append(0.0)
        if s == ():
            return 0.0
        hs = [rec(c) for c in s]
        counter[0] += 1
        h = max(hs) + steps[(counter[0] * 2 + len(s)) % 5]
        if variant == 3 and s == ((), ()):
            h = 0.0
        heights[idx] = h
        return h

    rec(shape)
    out = [None] * len(heights)
    pos = [0]

    def rec2(s, parent_h):
        idx = pos[0]
        pos[0] += 1
        if parent_h is not None:
            out[idx] = parent_h - heights[idx]
        for c in s:
            rec2(c, heights[idx])

    rec2(shape, None)
    return out


def nj_lens(shape, variant):
    """positive internal lengths; leaf lengths positive (0), with zeros (1), all one (2)"""
    if variant == 2:
        return lens_from_pattern(shape, 1.0)
    if variant == 0:
        return lens_from_pattern(shape, length_patterns()["dyadic"])
    if variant == 3:
        # lengths that need more than six decimal places (exact in binary): a text round trip has to carry all of them
        dy = length_patterns()["dyadic"]
        return lens_from_pattern(shape, lambda i, leaf: dy(i, leaf) + (i + 1) * 2.0 ** -24)
    return lens_from_pattern(shape, lambda i, leaf: (0.0 if i % 3 == 0 else 0.75) if leaf else [0.5, 1.25, 2.0][i % 3])


CSV_LAYOUTS = {"csv-path": (True, True, True), "csv-noheader": (False, True, False), "csv-norownames": (True, False, False),
               "csv-path-noheader": (False, True, True), "csv-path-norownames": (True, False, True)}


def _via_csv_layout(pdm, ns, header, rownames, by_path):
    """the table without its header row or without its row-name column (the two layout flags of from_csv), from a stream or from a path"""
    import os
    import tempfile
    out = io.StringIO()
    pdm.write_csv(out, is_normalize_by_tree_size=False)
    lines = out.getvalue().strip("\n").split("\n")
    if not header:
        lines = lines[1:]
    if not rownames:
        lines = [",".join(l.split(",")[1:]) for l in lines]
    text = "\n".join(lines) + "\n"
    kw = dict(taxon_namespace=ns, is_allow_new_taxa=False, is_first_row_column_names=header, is_first_column_row_names=rownames)
    if not by_path:
        return PhylogeneticDistanceMatrix.from_csv(io.StringIO(text), **kw)
    fd, p = tempfile.mkstemp(suffix=".csv")
    try:
        with os.fdopen(fd, "w") as f:
            f.write(text)
        return PhylogeneticDistanceMatrix.from_csv(p, **kw)
    finally:
        os.unlink(p)


def _via_csv(pdm, ns, relabel=False):
    out = io.StringIO()
    if relabel:
        # labels written in another form and turned back on the way in (both functions take a label_transform_fn): same taxa, same table
        pdm.write_csv(out, is_normalize_by_tree_size=False, label_transform_fn=lambda l: "<%s>" % l)
        return PhylogeneticDistanceMatrix.from_csv(io.StringIO(out.getvalue()), taxon_namespace=ns, is_allow_new_taxa=False,
                                                   label_transform_fn=lambda l: l[1:-1] if l.startswith("<") and l.endswith(">") else l)
    pdm.write_csv(out, is_normalize_by_tree_size=False)
    return PhylogeneticDistanceMatrix.from_csv(io.StringIO(out.getvalue()), taxon_namespace=ns, is_allow_new_taxa=False)


def eval_recon(item):
    """method in nj|upgma; route in direct|csv|counts"""
    spec, method, route = item["spec"], item["method"], item["route"]
    src = build(spec)
    rooted_cmp = method == "upgma"
    fill = SP.node_mask(src._seed_node, BIT_OF)
    if route == "counts":
        # the edge-count matrix is the path metric of the drawing with unit lengths
        unit = dict(spec)
        unit["lens"] = lens_from_pattern(spec["shape"], 1.0)
        want = table_of(build(unit), rooted_cmp)
    else:
        want = table_of(src, rooted_cmp)
    try:
        with limit(30):
            pdm = src.phylogenetic_distance_matrix()
            if route in ("csv", "csv-relabelled"):
                pdm = _via_csv(pdm, src.taxon_namespace, relabel=(route == "csv-relabelled"))
            elif route in CSV_LAYOUTS:
                pdm = _via_csv_layout(pdm, src.taxon_namespace, *CSV_LAYOUTS[route])
            fn = pdm.nj_tree if method == "nj" else pdm.upgma_tree
            res = fn(is_weighted_edge_distances=(route != "counts"))
    except Timeout:
        return [(method + ".hangs", "no result after 30 s")]
    except Exception as e:
        return [(method + ".raises", "%s: %s" % (route, _exc(e)))]
    errs = S.arborescence_errors(res)
    if errs:
        return [(method + ".structure", "result is not well formed: %s" % errs[:2])]
    got_leaves = sorted((l.taxon.label if l.taxon is not None else "?") for l in S.leaves(res._seed_node))
    if got_leaves != sorted(spec["leaves"]):
        return [(method + ".taxa", "leaves of the result %s, of the source %s" % (got_leaves, sorted(spec["leaves"])))]
    fails = []
    if bool(res.is_rooted) != rooted_cmp:
        fails.append((method + ".rooting", "result is_rooted=%r" % res.is_rooted))
    if res.taxon_namespace is not src.taxon_namespace:
        fails.append((method + ".namespace", "result is over another TaxonNamespace object"))
    got = table_of(res, rooted_cmp, contract=True)
    msg = compare_tables(got, want, fill, rooted_cmp)
    if msg:
        fails.append((method + ".inverts", "%s: %s; result %s" % (route, msg, S.tree_newick(res))))
    return fails


def _is_level(shape):
    def depths(s, d):
        if s == ():
            return [d]
        out = []
        for c in s:
            out += depths(c, d + 1)
        return out
    return len(set(depths(tup(shape), 0))) == 1


# ============================================================================ items
def _tree_specs(nmax, unif_upto, ns_small=True):
    """(shape, leaves, nsd) over shapes <= nmax leaves, with unifurcation variants up to unif_upto leaves"""
    out = []
    for n in range(1, nmax + 1):
        for shape in shapes_exact(n):
            vs = [shape] + (unifurcation_variants(shape) if n <= unif_upto else [])
            for v in vs:
                nss = namespace_variants(n)
                use = [nss[0]] + ([nss[5]] if (ns_small and n <= 4) else [])
                for nsd, usable in use:
                    out.append((v, list(usable), nsd))
                if n >= 3:
                    out.append((v, list(reversed(LABELS[:n])), default_ns(n)))
    return out


def _w(fn, keyf):
    def w(item):
        fails, n = fn(item)
        return (keyf(item), len(item["spec"]["leaves"]), fails, n)
    return w


def _k_pdm(item):
    return spec_key(item["spec"]) + " store_path_edges=%d" % item["store"]


def _k_tm(item):
    return spec_key(item["spec"]) + " updated=%d" % item["updated"]


def _k_mrca(item):
    return spec_key(item["spec"]) + " " + item["cond"] + ("" if not item.get("move") else " move#%d->#%d" % tuple(item["move"]))


def _k_recon(item):
    return "%s %s %s" % (item["method"], item["route"], spec_key(item["spec"]))


def _w_pdm(item):
    return retry_hangs(_w_pdm0, item)


def _w_pdm0(item):
    f, n = eval_pdm(item)
    return (_k_pdm(item), len(item["spec"]["leaves"]), f, n)


def _w_ndm(item):
    return retry_hangs(_w_ndm0, item)


def _w_ndm0(item):
    f, n = eval_ndm(item)
    return (spec_key(item["spec"]), len(item["spec"]["leaves"]), f, n)


def _w_tm(item):
    return retry_hangs(_w_tm0, item)


def _w_tm0(item):
    f, n = eval_tm(item)
    return (_k_tm(item), len(item["spec"]["leaves"]), f, n)


def _w_mrca(item):
    return retry_hangs(_w_mrca0, item)


def _w_mrca0(item):
    f, n = eval_mrca(item)
    return (_k_mrca(item), len(item["spec"]["leaves"]), f, n)


def _w_recon(item):
    return retry_hangs(_w_recon0, item)


def _w_recon0(item):
    return (_k_recon(item), len(item["spec"]["leaves"]), eval_recon(item))


def t2(ctx):
    quick = ctx.tier == "quick"
    rep = Reporter(ctx)
    rng = rng_for(ctx, 14)

    # ---- pdm
    nmax = 5 if quick else 6
    sc = "pdm@Shapes x Len"
    ctx.scope(sc, rule="ordered shapes with <= %d leaves (+ every one-unifurcation variant up to 4 leaves) x {identity, reversed labelling, "
                       "a 2-taxa-removed reversed namespace} x 7 length patterns (none, ones, ints with zeros, dyadic, one missing, "
                       "alternating zeros, seed length) x {rooted, unrooted} x is_store_path_edges; one evaluation per ordered taxon pair "
                       "and per summary call; from 5 leaves on: unrooted only with dyadic / onemissing lengths%s; edge storage only with none / "
                       "dyadic lengths; non-trivial = >= 3 leaves" % (nmax, ", no zeros / seed-length patterns" if quick else ""), exhaustive=True)
    items = []
    for shape, leaves, nsd in _tree_specs(nmax, 4):
        for pat in PATTERNS:
            if len(leaves) >= 5 and pat in ("zeros", "rootlen") and quick:
                continue
            for rooted in (True, False):
                if len(leaves) >= 5 and not rooted and pat not in ("dyadic", "onemissing"):
                    continue
                for store in (False, True):
                    if store and pat not in ("dyadic", "none"):
                        continue
                    spec = {"shape": lst(shape), "leaves": leaves, "rooted": rooted, "lens": _lens(shape, pat), "ns": nsd}
                    items.append({"spec": spec, "store": store})
    for item, (key, n, fails, ne) in zip(items, pmap(_w_pdm, items, chunksize=16)):
        for i in range(ne):
            ctx.case(sc, (key, i), nontrivial=n >= 3, sample=key)
        for mon, detail in fails:
            rep.fail(mon, {"key": key, "kind": "pdm", "item": item}, detail=detail)

    # ---- ndm
    sc = "ndm@all node pairs"
    ctx.scope(sc, rule="shapes with <= %d leaves (+ unifurcation variants up to 4) x {none, dyadic, onemissing, zeros} x rooted, identity labelling: every "
                       "ordered pair of nodes; non-trivial = >= 3 leaves" % (5 if quick else 6), exhaustive=True)
    items = []
    for shape, leaves, nsd in _tree_specs(5 if quick else 6, 4, ns_small=False):
        if leaves != sorted(leaves):
            continue
        for pat in ("none", "dyadic", "onemissing", "zeros"):
            items.append({"spec": {"shape": lst(shape), "leaves": leaves, "rooted": True, "lens": _lens(shape, pat), "ns": nsd}})
    for item, (key, n, fails, ne) in zip(items, pmap(_w_ndm, items, chunksize=16)):
        for i in range(ne):
            ctx.case(sc, (key, i), nontrivial=n >= 3, sample=key)
        for mon, detail in fails:
            rep.fail(mon, {"key": key, "kind": "ndm", "item": item}, detail=detail)

    # ---- treemeasure.patristic_distance
    sc = "tm@pairs"
    ctx.scope(sc, rule="shapes with <= %d leaves (+ unifurcation variants up to 3) x {none, dyadic, onemissing, ints} x {rooted, unrooted}, identity labelling x "
                       "is_bipartitions_updated in {False, True on a current encoding}: every unordered-with-repetition pair on a fresh "
                       "tree; non-trivial = >= 3 leaves" % (4 if quick else 5), exhaustive=True)
    items = []
    for shape, leaves, nsd in _tree_specs(4 if quick else 5, 3):
        if leaves != sorted(leaves):
            continue
        for pat in ("none", "dyadic", "onemissing", "ints"):
            for rooted in (True, False):
                for upd in (False, True):
                    items.append({"spec": {"shape": lst(shape), "leaves": leaves, "rooted": rooted, "lens": _lens(shape, pat), "ns": nsd},
                                  "updated": upd})
    for item, (key, n, fails, ne) in zip(items, pmap(_w_tm, items, chunksize=8)):
        for i in range(ne):
            ctx.case(sc, (key, i), nontrivial=n >= 3, sample=key)
        for mon, detail in fails:
            rep.fail(mon, {"key": key, "kind": "tm", "item": item}, detail=detail)

    # ---- mrca
    sc = "mrca@subsets"
    ctx.scope(sc, rule="shapes with <= %d leaves (+ unifurcation variants up to 4) x namespaces {exact, one extra taxon that is on no leaf, "
                       "two removed} x {rooted, unrooted} x every non-empty subset of the namespace taxa x {taxa=, taxon_labels=, "
                       "leafset_bitmask=} x {encoding current (default / keeping unifurcations), refresh requested on a never encoded "
                       "tree, refresh requested after a leaf move (%s)}; non-trivial = >= 3 leaves"
                       % (5 if quick else 6, "3 seeded moves per tree" if quick else "every move"), exhaustive=False)
    items = []
    for n in range(1, (5 if quick else 6) + 1):
        nss = namespace_variants(n)
        extra = ({"total": n + 1, "removed": [], "order": "asis"}, LABELS[:n])
        for shape in shapes_exact(n):
            vs = [shape] + (unifurcation_variants(shape) if n <= 4 else [])
            for v in vs:
                for nsd, usable in (nss[0], extra, nss[5]):
                    if n >= 5 and nsd is not nss[0][0] and (quick or nsd is nss[5][0]):
                        continue
                    for rooted in (True, False):
                        spec = {"shape": lst(v), "leaves": list(usable), "rooted": rooted, "lens": None, "ns": nsd}
                        for cond in MRCA_CONDS[:3]:
                            items.append({"spec": spec, "cond": cond})
                        if n >= 3 and nsd is nss[0][0]:
                            mv = _moves(spec)
                            if quick and len(mv) > 3:
                                mv = rng.sample(mv, 3)
                            for m in mv:
                                items.append({"spec": spec, "cond": "moved+refresh", "move": m})
    for item, (key, n, fails, ne) in zip(items, pmap(_w_mrca, items, chunksize=8)):
        for i in range(ne):
            ctx.case(sc, (key, i), nontrivial=n >= 3, sample=key)
        for mon, detail, sub in fails:
            rep.fail(mon, {"key": key + " subset=" + "".join(sub), "kind": "mrca", "item": item, "subset": sub}, detail=detail)

    # ---- NJ / UPGMA
    sc = "nj@additive"
    ctx.scope(sc, rule="shapes with 2..%d leaves (+ unifurcation variants up to 4) x 3 length assignments with positive internal lengths "
                       "(dyadic; with zero leaf lengths; all one) x {identity, reversed labelling} x route in {matrix of the tree, "
                       "written to CSV and read back (up to 5 leaves), edge-count matrix}; from 6 leaves identity labelling only; 7 leaves: every third "
                       "shape; non-trivial = >= 4 leaves" % (6 if quick else 7), exhaustive=True)
    items = []
    for n in range(2, (6 if quick else 7) + 1):
        for si, shape in enumerate(shapes_exact(n)):
            if n == 7 and si % 3:
                continue
            vs = [shape] + (unifurcation_variants(shape) if n <= 4 else [])
            for v in vs:
                for leaves in (LABELS[:n], list(reversed(LABELS[:n]))):
                    if n >= 6 and leaves != LABELS[:n]:
                        continue
                    for variant in (0, 1, 2, 3):
                        if variant == 3 and (n > 4 or leaves != LABELS[:n]):
                            continue
                        spec = {"shape": lst(v), "leaves": list(leaves), "rooted": False, "lens": nj_lens(v, variant), "ns": default_ns(n)}
                        for route in ("direct", "csv", "counts"):
                            if route == "counts" and variant != 2:
                                continue
                            if route == "csv" and (variant == 2 or n >= 6):
                                continue
                            items.append({"spec": spec, "method": "nj", "route": route})
                            if route == "csv" and variant == 0 and n <= 4:
                                items.append({"spec": spec, "method": "nj", "route": "csv-relabelled"})
                                for lay in sorted(CSV_LAYOUTS):
                                    items.append({"spec": spec, "method": "nj", "route": lay})
    for item, (key, n, fails) in zip(items, pmap(_w_recon, items, chunksize=16)):
        ctx.case(sc, key, nontrivial=n >= 4)
        for mon, detail in fails:
            rep.fail(mon, {"key": key, "kind": "recon", "item": item}, detail=detail)

    sc = "upgma@ultrametric"
    ctx.scope(sc, rule="shapes with 2..%d leaves x 3 assignments of dyadic node heights (+ one with every two-leaf cherry at height 0, from 3 leaves) x {identity, reversed labelling} x route in {matrix "
                       "of the tree, CSV round trip (up to 4 leaves also with labels rewritten on the way out and back by label_transform_fn, and in the layouts without header row / without row-name column, from a stream and from a path), edge-count matrix (shapes with all leaves at one depth)}; non-trivial = >= 4 leaves"
                       "; from 6 leaves identity labelling and no CSV route; 7 leaves: every third shape" % (6 if quick else 7), exhaustive=True)
    items = []
    for n in range(2, (6 if quick else 7) + 1):
        for si, shape in enumerate(shapes_exact(n)):
            if n == 7 and si % 3:
                continue
            for leaves in (LABELS[:n], list(reversed(LABELS[:n]))):
                if n >= 6 and leaves != LABELS[:n]:
                    continue
                for variant in (0, 1, 2, 3):
                    if variant == 3 and (n < 3 or "((), ())" not in repr(tup(shape))):
                        continue
                    spec = {"shape": lst(shape), "leaves": list(leaves), "rooted": True, "lens": ultrametric_lens(shape, variant),
                            "ns": default_ns(n)}
                    for route in ("direct", "csv", "counts"):
                        if route == "counts" and (variant != 1 or not _is_level(shape)):
                            continue
                        if route == "csv" and n >= 6:
                            continue
                        items.append({"spec": spec, "method": "upgma", "route": route})
                        if route == "csv" and variant == 0 and n <= 4:
                            items.append({"spec": spec, "method": "upgma", "route": "csv-relabelled"})
                            for lay in sorted(CSV_LAYOUTS):
                                items.append({"spec": spec, "method": "upgma", "route": lay})
    for item, (key, n, fails) in zip(items, pmap(_w_recon, items, chunksize=16)):
        ctx.case(sc, key, nontrivial=n >= 4)
        for mon, detail in fails:
            rep.fail(mon, {"key": key, "kind": "recon", "item": item}, detail=detail)
    # ---- seeded random larger trees
    sc = "random@8-12 leaves"
    ctx.scope(sc, rule="%d seeded random trees with 8-12 leaves (polytomies p=0.3; unifurcations p=0.1 except for UPGMA) over a 12-taxon "
                       "namespace: pdm clauses (dyadic / one-missing lengths), mrca for subsets of size <= 3 and >= n-1 (current encoding "
                       "and refresh), NJ on positive internal lengths, UPGMA on dyadic node heights; evaluations counted as in the "
                       "exhaustive scopes; all non-trivial" % (40 if quick else 600), exhaustive=False)
    r2 = rng_for(ctx, 1414)
    it_pdm, it_mrca, it_rec = [], [], []
    for _ in range(40 if quick else 600):
        n = r2.randint(8, 12)
        leaves = r2.sample(LABELS[:12], n)
        nsd = {"total": 12, "removed": [], "order": "asis"}
        sh = random_shape(n, r2, 0.3, 0.1)
        rooted = r2.random() < 0.5
        it_pdm.append({"spec": {"shape": lst(sh), "leaves": leaves, "rooted": rooted, "lens": _lens(sh, r2.choice(["dyadic", "onemissing", "ints"])),
                                "ns": nsd}, "store": r2.random() < 0.3})
        it_mrca.append({"spec": {"shape": lst(sh), "leaves": leaves, "rooted": rooted, "lens": None, "ns": nsd},
                        "cond": r2.choice(MRCA_CONDS[:3])})
        it_rec.append({"spec": {"shape": lst(sh), "leaves": leaves, "rooted": False, "lens": nj_lens(sh, r2.choice([0, 1])), "ns": nsd},
                       "method": "nj", "route": r2.choice(["direct", "csv"])})
        sh2 = random_shape(n, r2, 0.3)
        it_rec.append({"spec": {"shape": lst(sh2), "leaves": leaves, "rooted": True, "lens": ultrametric_lens(sh2, r2.choice([0, 1, 2])), "ns": nsd},
                       "method": "upgma", "route": r2.choice(["direct", "csv"])})
    for item, (key, n, fails, ne) in zip(it_pdm, pmap(_w_pdm, it_pdm, chunksize=2)):
        for i in range(ne):
            ctx.case(sc, (key, i), sample=key)
        for mon, detail in fails:
            rep.fail(mon, {"key": key, "kind": "pdm", "item": item}, detail=detail)
    for item, (key, n, fails, ne) in zip(it_mrca, pmap(_w_mrca, it_mrca, chunksize=2)):
        for i in range(ne):
            ctx.case(sc, (key, i), sample=key)
        for mon, detail, sub in fails:
            rep.fail(mon, {"key": key + " subset=" + "".join(sub), "kind": "mrca", "item": item, "subset": sub}, detail=detail)
    for item, (key, n, fails) in zip(it_rec, pmap(_w_recon, it_rec, chunksize=2)):
        ctx.case(sc, key)
        for mon, detail in fails:
            rep.fail(mon, {"key": key, "kind": "recon", "item": item}, detail=detail)
    rep.close()


def replay(ctx, rec):
    w = rec["witness"]
    kind = w["kind"]
    name = rec["obligation"]
    if kind == "pdm":
        fails, _ = eval_pdm(w["item"])
    elif kind == "ndm":
        fails, _ = eval_ndm(w["item"])
    elif kind == "tm":
        fails, _ = eval_tm(w["item"])
    elif kind == "mrca":
        it = dict(w["item"])
        it["subset"] = w["subset"]
        fails, _ = eval_mrca(it)
        fails = [f[:2] for f in fails]
    elif kind == "recon":
        fails = eval_recon(w["item"])
    else:
        raise ValueError("unknown witness kind %r" % kind)
    mine = [f for f in fails if f[0] == name]
    for f in (mine or fails):
        print("  ", f)
    return not mine
