"""C20 (T2, bounded): readers terminate on every input and report bad data as a parse error.

One evaluation = one call of a public read route (`TreeList.get`, `Tree.get`,
`DataSet.get`, `<X>CharacterMatrix.get`) on one text.  Every call runs in a forked worker
under a CPU-time guard (bounded.iohelp.guarded_map): a hang, a dead worker or a
RecursionError cannot take the driver down.  Required outcome:

    <schema>.hang                   the call returns or raises within the guard
    <schema>.crash                  the interpreter survives
    <schema>.internal_error.<Type>@<function>
                                    (function = innermost library function on the traceback)  an exception must be a dendropy.utility.error.DataParseError (the library's
                                    parse-error family: tokenizer, Newick, NEXUS, PHYLIP, FASTA errors all derive
                                    from it) or the documented ValueError of a source without data
                                    ("No trees in data source", "No trees available at requested location ...",
                                    "No character data in data source")
    <schema>.malformed_tree         every returned tree satisfies the C03 arborescence predicate (specs.trees)
    <schema>.dimensions.rows.fewer|rows.more|cols   a returned matrix has the number of rows / columns the document declares
                                    (PHYLIP: first line; NEXUS: the DIMENSIONS statement of the same DATA/CHARACTERS
                                    block, read by the independent scanner specs.docscan -- only for documents the
                                    scanner finds regular; NTAX of a separate TAXA block is NOT compared with the
                                    number of matrix rows, a CHARACTERS block may cover fewer taxa)
    <schema>.valid_rejected         the unmodified base documents must be read without error

Inputs: base documents of every block structure (each <= ~250 characters); EVERY truncation
point; single edits: delete each character, insert / replace by each character of the
token alphabet at each position (quick: seeded 1/6 sample of positions x alphabet), drop
each span of 1..3 tokens, insert each keyword at each token boundary (quick: 1/3);
seeded double edits; all strings of <= 3 (quick) / <= 4 (thorough) characters over the
Newick alphabet, and '#NEXUS' followed by <= 2 / <= 3 tokens of the NEXUS token alphabet,
short PHYLIP / FASTA strings.  Also nesting depth 3000 (recursion clause).

At most CAP new violations per monitor (CAP_KIND per monitor and edit kind, in the fixed
enumeration order) are written out; the rest are counted in a note (the verdict is
unaffected).  If more than 60 (quick) / 400 (thorough) inputs hang or crash, the remaining
inputs are not run, the cut is recorded in a note and the scopes lose their `exhaustive`
flag for that run (a defect that hangs on a large share of the inputs would otherwise
cost the CPU guard once per input)."""
import io
import itertools
import re

from bounded.common import rng_for
from bounded import iohelp as H
from specs import trees as S
from specs import matrixio as M
from specs import docscan as D

import dendropy
from dendropy import Tree, TreeList, DataSet
from dendropy.utility import error as dp_error

NO_DATA_MESSAGES = ("No trees in data source", "No trees available at requested location in data source",
                    "No character data in data source")

# ----------------------------------------------------------------------------- base documents
DOCS = [
    # (name, schema, text, routes, reader kwargs)
    ("newick:lengths", "newick", "((A:1,B:2)x:0.5,(C:1,D:1):0.25);\n", ["TreeList", "Tree", "DataSet", "yield", "TreeArray"], {}),
    ("newick:two", "newick", "[&R] ((A,B),C); [&U] (A,(B,C));\n", ["TreeList", "Tree", "yield"], {}),
    ("newick:quoted", "newick", "(('A a':1e-2,B_b)[&s=1]:3,C[c]:0);", ["TreeList", "DataSet"], {}),
    ("newick:leaf", "newick", "A;", ["TreeList", "Tree"], {}),
    # options that make the reader evaluate more of the text: tree weights (fractions) and jplace edge numbers
    ("newick:weights", "newick", "[&W 1/2] (A,B); [&W 0.25] [&R] (A,(B,C));\n", ["TreeList", "Tree"], {"store_tree_weights": True}),
    ("newick:jplace", "newick", "((A:1{0},B:1{1}):1{2},C:2{3}){4};\n", ["TreeList"], {"is_parse_jplace_tokens": True}),
    # the terminating semicolon made optional: a stray `)` or `,` at the top level must still end in an error, not in a loop
    ("newick:semicolon-optional", "newick", "(A,(B,C))x;(D,E):1\n", ["TreeList", "yield"], {"terminating_semicolon_required": False}),
    ("nexus:taxa-trees", "nexus",
     "#NEXUS\nBEGIN TAXA;\n DIMENSIONS NTAX=3;\n TAXLABELS A B C;\nEND;\nBEGIN TREES;\n TREE t1 = [&R] ((A:1,B:2):1,C:3);\n TREE t2 = (A,B,C);\nEND;\n",
     ["DataSet", "TreeList", "Tree", "yield"], {}),
    ("nexus:translate", "nexus",
     "#NEXUS\nBEGIN TREES;\n TRANSLATE 1 A, 2 'B b', 3 C;\n TREE * t = [&U] (1,(2,3)x:0.5);\nEND;\n", ["TreeList", "DataSet", "yield", "TreeArray"], {}),
    ("nexus:data", "nexus",
     "#NEXUS\nBEGIN DATA;\n DIMENSIONS NTAX=3 NCHAR=4;\n FORMAT DATATYPE=DNA GAP=- MISSING=?;\n MATRIX\n A ACGT\n B A-G?\n C {AC}CGT\n ;\nEND;\n",
     ["DataSet", "DnaMatrix", "DataSet+ns"], {}),
    ("nexus:taxa-chars-sets", "nexus",
     "#NEXUS\nBEGIN TAXA;\n DIMENSIONS NTAX=2;\n TAXLABELS A B;\nEND;\nBEGIN CHARACTERS;\n DIMENSIONS NCHAR=4;\n FORMAT DATATYPE=DNA;\n MATRIX\n A ACGT\n B ACGA\n ;\nEND;\n"
     "BEGIN SETS;\n CHARSET c1 = 1-2 4;\n CHARSET c2 = 1-4\\2;\nEND;\n", ["DataSet", "DnaMatrix", "DataSet+ns"], {}),
    ("nexus:interleaved", "nexus",
     "#NEXUS\nBEGIN DATA;\n DIMENSIONS NTAX=2 NCHAR=6;\n FORMAT DATATYPE=DNA INTERLEAVE;\n MATRIX\n A ACG\n B AAG\n\n A TTT\n B TTA\n ;\nEND;\n",
     ["DataSet", "DnaMatrix", "DataSet+ns"], {}),
    ("nexus:title-link", "nexus",
     "#NEXUS\nBEGIN TAXA;\n TITLE one;\n DIMENSIONS NTAX=2;\n TAXLABELS A B;\nEND;\nBEGIN TAXA;\n TITLE two;\n DIMENSIONS NTAX=2;\n TAXLABELS C D;\nEND;\n"
     "BEGIN TREES;\n LINK TAXA = two;\n TREE t = (C,D);\nEND;\n", ["DataSet"], {}),
    # every kind of block titled and linked: a LINK may then name a block whose TITLE an edit removed
    ("nexus:all-linked", "nexus",
     "#NEXUS\nBEGIN TAXA;\n TITLE tx;\n DIMENSIONS NTAX=2;\n TAXLABELS A B;\nEND;\nBEGIN CHARACTERS;\n TITLE ch;\n LINK TAXA = tx;\n DIMENSIONS NCHAR=2;\n"
     " FORMAT DATATYPE=DNA;\n MATRIX\n A AC\n B A-\n ;\nEND;\nBEGIN TREES;\n TITLE tr;\n LINK TAXA = tx;\n TREE t = (A,B);\nEND;\n"
     "BEGIN SETS;\n TITLE st;\n LINK CHARACTERS = ch;\n CHARSET c1 = 1-2;\nEND;\n", ["DataSet"], {}),
    ("nexus:unknown-block", "nexus",
     "#NEXUS\nBEGIN PAUP;\n set x=y;\nEND;\nBEGIN TREES;\n TREE t = (A,(B,C));\nEND;\n", ["DataSet", "TreeList", "yield"], {}),
    ("nexus:continuous", "nexus",
     "#NEXUS\nBEGIN DATA;\n DIMENSIONS NTAX=2 NCHAR=3;\n FORMAT DATATYPE=CONTINUOUS;\n MATRIX\n A 0.5 1e-3 -2\n B 1 2 3.25\n ;\nEND;\n",
     ["DataSet", "ContinuousMatrix"], {}),
    ("nexus:continuous-interleaved", "nexus",
     "#NEXUS\nBEGIN DATA;\n DIMENSIONS NTAX=2 NCHAR=4;\n FORMAT DATATYPE=CONTINUOUS INTERLEAVE;\n MATRIX\n A 0.5 1e-3\n B 1 2\n\n A -2 7\n B 3.25 0\n ;\nEND;\n",
     ["DataSet", "ContinuousMatrix"], {}),
    ("nexus:standard", "nexus",
     "#NEXUS\nBEGIN DATA;\n DIMENSIONS NTAX=2 NCHAR=3;\n FORMAT DATATYPE=STANDARD SYMBOLS=\"01\" MISSING=? GAP=-;\n MATRIX\n A 01?\n B 1(01)-\n ;\nEND;\n",
     ["DataSet", "StandardMatrix"], {}),
    ("phylip:relaxed", "phylip", "3 4\nAlpha ACGT\nBeta A-GT\nGamma ACGA\n", ["DnaMatrix", "DataSet"], {}),
    ("phylip:short-labels", "phylip", "3 2\nA AC\nB AG\nC AT\n", ["DnaMatrix", "DataSet"], {}),
    ("phylip:strict", "phylip", "2 4\nAlpha     ACGT\nBeta b    ACGA\n", ["DnaMatrix", "DataSet"], {"strict": True}),
    ("phylip:interleaved", "phylip", "2 6\nAlpha ACG\nBeta ACC\n\nTTT\nTTA\n", ["DnaMatrix", "DataSet"], {"interleaved": True}),
    ("phylip:multiline", "phylip", "2 6\nAlpha ACG\nTTT\nBeta ACC\nTTA\n", ["DnaMatrix"], {}),
    ("fasta:dna", "fasta", ">Alpha\nACGT\nAC\n>Beta b\nAC-TAA\n", ["DnaMatrix", "DataSet"], {}),
    ("fasta:protein", "fasta", ">Alpha\nARND\n>Beta\nA-ND\n", ["ProteinMatrix"], {}),
]
DOC = {d[0]: d for d in DOCS}

CHAR_ALPHABET = {
    "newick": "(),:;=[]'\" \nA10-{",
    "nexus": "(),:;=[]'\" \nA10-{",
    "phylip": " \n>A1x-?",
    "fasta": " \n>A1x-?",
}
KEYWORDS = {
    "newick": ["(", ")", ",", ":", ";", "[&R]", "'", "A"],
    "nexus": ["BEGIN", "END", ";", "TAXA", "TREES", "DATA", "CHARACTERS", "DIMENSIONS", "NTAX", "NCHAR", "FORMAT", "MATRIX", "TAXLABELS",
              "TRANSLATE", "TREE", "TITLE", "LINK", "CHARSET", "INTERLEAVE", "=", "#NEXUS", "SETS"],
    "phylip": [">", "\n", " ", "3", "ACGT"],
    "fasta": [">", "\n", " ", "3", "ACGT"],
}
MATRIX = {"DnaMatrix": (dendropy.DnaCharacterMatrix, "dna"), "ProteinMatrix": (dendropy.ProteinCharacterMatrix, "protein"),
          "ContinuousMatrix": (dendropy.ContinuousCharacterMatrix, "continuous"), "StandardMatrix": (dendropy.StandardCharacterMatrix, "standard")}


# ----------------------------------------------------------------------------- one read
def _site(tb):
    """qualified name of the innermost library function on the traceback (where the internal error arose)"""
    site = "?"
    while tb is not None:
        co = tb.tb_frame.f_code
        if "/dendropy/" in co.co_filename:
            site = getattr(co, "co_qualname", co.co_name)
        tb = tb.tb_next
    return site


def read_one(item):
    """item: dict(schema, text, route, kw) -> dict(outcome=..., detail=...) (JSON-able)"""
    schema, text, route, kw = item["schema"], item["text"], item["route"], dict(item.get("kw") or {})
    try:
        if route == "TreeList":
            prod = TreeList.get(data=text, schema=schema, **kw)
            trees, mats = list(prod._trees), []
        elif route == "Tree":
            prod = Tree.get(data=text, schema=schema, **kw)
            trees, mats = [prod], []
        elif route == "yield":
            # the one-tree-at-a-time iterator (its NEXUS form has a driver loop of its own)
            trees, mats = list(Tree.yield_from_files(files=[io.StringIO(text)], schema=schema, **kw)), []
        elif route == "TreeArray":
            ta = dendropy.TreeArray()
            ta.read(data=text, schema=schema, **kw)
            trees, mats = [], []
        elif route in ("DataSet", "DataSet+ns"):
            if schema in ("phylip", "fasta"):
                kw["data_type"] = item.get("data_type", "dna")
            if route == "DataSet+ns":
                # the caller supplies the namespace (attached-namespace mode): declared dimensions bind all the same
                kw["taxon_namespace"] = dendropy.TaxonNamespace()
            prod = DataSet.get(data=text, schema=schema, **kw)
            trees = [t for tl in prod.tree_lists for t in tl._trees]
            mats = list(prod.char_matrices)
        else:
            cls, _ = MATRIX[route]
            prod = cls.get(data=text, schema=schema, **kw)
            trees, mats = [], [prod]
    except dp_error.DataParseError as e:
        return {"outcome": "parse_error", "detail": type(e).__name__}
    except ValueError as e:
        if any(str(e).startswith(m) for m in NO_DATA_MESSAGES):
            return {"outcome": "no_data", "detail": str(e)}
        return {"outcome": "internal_error", "type": type(e).__name__, "site": _site(e.__traceback__), "detail": str(e)[:200]}
    except Exception as e:  # RecursionError, AttributeError, ...
        return {"outcome": "internal_error", "type": type(e).__name__, "site": _site(e.__traceback__), "detail": str(e)[:200]}
    # product checks
    for k, t in enumerate(trees):
        errs = S.arborescence_errors(t)
        if errs:
            return {"outcome": "malformed_tree", "detail": "tree %d: %s" % (k, errs[0])}
    if mats:
        if schema == "phylip":
            decl = D.phylip_declared_dims(text)
            if decl is not None and len(mats) == 1:
                rows, lens = M.dims(mats[0])
                if rows != decl[0]:
                    return {"outcome": "dimensions.rows.%s" % ("fewer" if rows < decl[0] else "more"), "detail": "document declares %d sequences, matrix has %d" % (decl[0], rows)}
                bad = [x for x in lens if x != decl[1]]
                if bad:
                    return {"outcome": "dimensions.cols", "detail": "document declares %d characters, a row has %d" % (decl[1], bad[0])}
        elif schema == "nexus":
            decl = D.nexus_declared_dims(text)
            if decl is not None and len(decl) == len(mats) and route in ("DataSet", "DataSet+ns"):
                pairs = list(zip(decl, mats))
            elif decl is not None and len(decl) == 1 and len(mats) == 1:
                pairs = [(decl[0], mats[0])]
            else:
                pairs = []
            for d, m in pairs:
                rows, lens = M.dims(m)
                if d["ntax"] is not None and rows != d["ntax"]:
                    return {"outcome": "dimensions.rows.%s" % ("fewer" if rows < d["ntax"] else "more"),
                            "detail": "%s block declares NTAX=%d, matrix has %d rows" % (d["block"], d["ntax"], rows)}
                if d["nchar"] is not None:
                    bad = [x for x in lens if x != d["nchar"]]
                    if bad:
                        return {"outcome": "dimensions.cols", "detail": "%s block declares NCHAR=%d, a row has %d" % (d["block"], d["nchar"], bad[0])}
    return {"outcome": "ok", "detail": "%d trees, %d matrices" % (len(trees), len(mats))}


# ----------------------------------------------------------------------------- mutations
def token_spans(schema, text):
    if schema in ("newick", "nexus"):
        t = D.nexus_tokens(text)
        return [(a, b) for a, b, _, _ in (t or [])]
    return D.word_spans(text)


def apply(text, m):
    k = m[0]
    if k == "trunc":
        return text[: m[1]]
    if k == "del":
        return text[: m[1]] + text[m[1] + 1:]
    if k == "ins":
        return text[: m[1]] + m[2] + text[m[1]:]
    if k == "rep":
        return text[: m[1]] + m[2] + text[m[1] + 1:]
    if k == "drop":
        return text[: m[1]] + text[m[2]:]
    if k == "kw":
        return text[: m[1]] + " " + m[2] + " " + text[m[1]:]
    if k == "2x":
        # second edit is expressed on the result of the first
        return apply(apply(text, tuple(m[1])), tuple(m[2]))
    raise KeyError(k)


def mname(m):
    if m[0] == "2x":
        return "2x(%s;%s)" % (mname(tuple(m[1])), mname(tuple(m[2])))
    return m[0] + "@" + ":".join(repr(x) if isinstance(x, str) else str(x) for x in m[1:])


def single_edits(schema, text, quick, rng):
    n = len(text)
    alpha = CHAR_ALPHABET[schema]
    out = [("trunc", i) for i in range(n)]
    out += [("del", i) for i in range(n)]
    for i in range(n + 1):
        for c in alpha:
            out.append(("ins", i, c))
    for i in range(n):
        for c in alpha:
            if c == text[i]:
                continue
            out.append(("rep", i, c))
    sp = token_spans(schema, text)
    for i in range(len(sp)):
        for j in range(i, min(i + 3, len(sp))):
            out.append(("drop", sp[i][0], sp[j][1]))
    bounds = sorted(set([0, n] + [a for a, _ in sp] + [b for _, b in sp]))
    for b in bounds:
        for kw in KEYWORDS[schema]:
            out.append(("kw", b, kw))
    return out


def double_edits(schema, text, count, rng):
    out = []
    alpha = CHAR_ALPHABET[schema]
    while len(out) < count:
        ms = []
        t = text
        for _ in range(2):
            n = len(t)
            if n == 0:
                break
            kind = rng.choice(["del", "ins", "rep", "kw", "trunc"])
            if kind == "del":
                m = ("del", rng.randrange(n))
            elif kind == "ins":
                m = ("ins", rng.randrange(n + 1), rng.choice(alpha))
            elif kind == "rep":
                m = ("rep", rng.randrange(n), rng.choice(alpha))
            elif kind == "kw":
                m = ("kw", rng.randrange(n + 1), rng.choice(KEYWORDS[schema]))
            else:
                m = ("trunc", rng.randrange(n))
            ms.append(m)
            t = apply(t, m)
        if len(ms) == 2:
            out.append(("2x", list(ms[0]), list(ms[1])))
    return out


NEXUS_TOKENS = ["BEGIN", "END", ";", "TAXA", "TREES", "DATA", "DIMENSIONS", "NTAX", "=", "2", "TAXLABELS", "A", "TREE", "(", ")", ",",
                "MATRIX", "FORMAT", "TRANSLATE", "NCHAR", "LINK", "TITLE"]


def short_strings(tier):
    """(name, schema, text, routes, kw)"""
    out = []
    k = 4 if tier == "thorough" else 3
    for n in range(0, k + 1):
        for tup in itertools.product("(),:;A1 '[]", repeat=n):
            s = "".join(tup)
            out.append(("str", "newick", s, ["TreeList"], {}))
    kt = 3 if tier == "thorough" else 2
    for n in range(0, kt + 1):
        for tup in itertools.product(NEXUS_TOKENS, repeat=n):
            s = " ".join(("#NEXUS",) + tup)
            out.append(("str", "nexus", s, ["DataSet"], {}))
    for n in range(0, 5 if tier == "thorough" else 4):
        for tup in itertools.product(["2", " ", "\n", "A", "x"], repeat=n):
            out.append(("str", "phylip", "".join(tup), ["DnaMatrix"], {}))
        for tup in itertools.product([">", "A", "\n", "x", " "], repeat=n):
            out.append(("str", "fasta", "".join(tup), ["DnaMatrix"], {}))
    return out


# ----------------------------------------------------------------------------- driver
CAP = 8
CAP_KIND = 2


def t2(ctx):
    quick = ctx.tier != "thorough"
    cpu = 0.75 if quick else 2.0
    items = []  # dict(schema,text,route,kw,doc,mut,kind,scope)
    sc_valid, sc_trunc, sc_edit, sc_dbl, sc_str, sc_deep = ("valid@base", "truncations@all", "single-edits", "double-edits(sample)",
                                                           "short-strings", "deep-nesting")
    ctx.scope(sc_valid, rule="the %d unmodified base documents through each of their routes; non-trivial = all" % len(DOCS), exhaustive=True)
    ctx.scope(sc_trunc, rule="every proper prefix of every base document x its routes; non-trivial = prefix of >= 1 character", exhaustive=True)
    ctx.scope(sc_edit, rule="single edits of every base document x its routes: delete each character; insert / replace by each of the "
                            "schema's token-alphabet characters at each position%s; drop each span of 1..3 tokens; insert each keyword at "
                            "each token boundary%s; non-trivial = all" % ("", ""),
              exhaustive=True)
    ctx.scope(sc_dbl, rule="%d seeded random double edits (delete/insert/replace/keyword/truncate composed twice) per base document x its "
                           "first route; non-trivial = all" % (500 if quick else 15000), exhaustive=False)
    ctx.scope(sc_str, rule="every string of <= %d characters over \"(),:;A1 '[]\" as Newick; '#NEXUS' + every sequence of <= %d of %d NEXUS "
                           "tokens; every string of <= %d symbols over 5-symbol PHYLIP and FASTA alphabets; non-trivial = non-empty"
                           % (3 if quick else 4, 2 if quick else 3, len(NEXUS_TOKENS), 3 if quick else 4), exhaustive=True)
    ctx.scope(sc_deep, rule="Newick statements nested 50, 500 and 3000 parentheses deep (balanced), comment runs of 3000; non-trivial = all",
              exhaustive=False)
    rng = rng_for(ctx, 2020)
    for name, schema, text, routes, kw in DOCS:
        for r in routes:
            items.append(dict(schema=schema, text=text, route=r, kw=kw, doc=name, mut="none", kind="valid", scope=sc_valid))
        for m in single_edits(schema, text, quick, rng):
            t = apply(text, m)
            for r in routes:
                items.append(dict(schema=schema, text=t, route=r, kw=kw, doc=name, mut=mname(m), kind=m[0],
                                  scope=(sc_trunc if m[0] == "trunc" else sc_edit), m=list(m)))
        for m in double_edits(schema, text, 500 if quick else 15000, rng):
            items.append(dict(schema=schema, text=apply(text, m), route=routes[0], kw=kw, doc=name, mut=mname(m), kind="2x", scope=sc_dbl, m=list(m)))
    for name, schema, text, routes, kw in short_strings(ctx.tier):
        for r in routes:
            items.append(dict(schema=schema, text=text, route=r, kw=kw, doc="str:" + schema, mut=repr(text), kind="str", scope=sc_str))
    for depth in (50, 500, 3000):
        items.append(dict(schema="newick", text="(" * depth + "A" + ")" * depth + ";", route="TreeList", kw={}, doc="deep:newick",
                          mut="depth=%d" % depth, kind="deep", scope=sc_deep))
        items.append(dict(schema="nexus", text="#NEXUS\nBEGIN TREES;\nTREE t = " + "(" * depth + "A,B" + ")" * depth + ";\nEND;\n", route="TreeList", kw={},
                          doc="deep:nexus", mut="depth=%d" % depth, kind="deep", scope=sc_deep))
    items.append(dict(schema="newick", text="[c]" * 3000 + "(A,B);", route="TreeList", kw={}, doc="deep:newick", mut="comments=3000", kind="deep", scope=sc_deep))
    items.append(dict(schema="nexus", text="#NEXUS\n" + "[c]\n" * 3000 + "BEGIN TREES;\nTREE t = (A,B);\nEND;\n", route="TreeList", kw={}, doc="deep:nexus",
                      mut="comments=3000", kind="deep", scope=sc_deep))

    # the recursion / long-input probes first: they are few and must not be cut by the hang budget
    items.sort(key=lambda it: 0 if it["kind"] in ("deep", "valid") else 1)
    max_hangs = 60 if quick else 400
    results = H.guarded_map(read_one, items, cpu_limit=cpu, max_hangs=max_hangs)
    reported, capped = {}, {}
    tally = {}
    n_skipped = 0
    for it, (status, val) in zip(items, results):
        if status == "skipped":
            n_skipped += 1
            ctx.scopes[it["scope"]]["exhaustive"] = False
            continue
        key = "%s|%s|%s" % (it["doc"], it["mut"], it["route"])
        ctx.case(it["scope"], key, nontrivial=(it["kind"] != "str" or it["text"] != "") and (it["kind"] != "trunc" or it["text"] != ""),
                 sample=key)
        mon = None
        if status == "hang":
            mon, detail = "%s.hang" % it["schema"], val
        elif status in ("crash", "memory"):
            mon, detail = "%s.crash" % it["schema"], val
        else:
            oc = val["outcome"]
            tally[oc] = tally.get(oc, 0) + 1
            if oc == "internal_error":
                mon, detail = "%s.internal_error.%s@%s" % (it["schema"], val["type"], val["site"]), "%s: %s" % (val["type"], val["detail"])
            elif oc in ("malformed_tree", "dimensions.rows.fewer", "dimensions.rows.more", "dimensions.cols"):
                mon, detail = "%s.%s" % (it["schema"], oc), val["detail"]
            elif it["kind"] == "valid" and oc != "ok":
                mon, detail = "%s.valid_rejected" % it["schema"], "%s %s" % (oc, val["detail"])
        if mon is None:
            continue
        g = (mon, it["kind"])
        if reported.get(g, 0) >= CAP_KIND or reported.get(mon, 0) >= CAP:
            capped[mon] = capped.get(mon, 0) + 1
            continue
        w = dict(key=key, schema=it["schema"], text=it["text"], route=it["route"], kw=it["kw"], doc=it["doc"], mutation=it["mut"])
        if ctx.fail(mon, w, detail="%s via %s.get on %s [%s]: %s" % (it["schema"], it["route"], it["doc"], it["mut"], detail)):
            reported[g] = reported.get(g, 0) + 1
            reported[mon] = reported.get(mon, 0) + 1
    if n_skipped:
        ctx.note("%d of %d inputs were NOT evaluated: the run was cut after %d inputs hung or crashed (each costs %.2fs CPU); the scopes "
                 "touched are marked non-exhaustive for this run" % (n_skipped, len(items), max_hangs, cpu))
    ctx.note("outcomes: " + ", ".join("%s=%d" % kv for kv in sorted(tally.items())))
    for g, n in sorted(capped.items()):
        ctx.note("%d further violations of %s not listed (cap: %d per monitor, %d per monitor and edit kind)" % (n, g, CAP, CAP_KIND))


def replay(ctx, rec):
    w = rec["witness"]
    res = H.guarded_map(read_one, [dict(schema=w["schema"], text=w["text"], route=w["route"], kw=w.get("kw") or {})], cpu_limit=5.0, procs=1)
    status, val = res[0]
    print("  %s %r" % (status, val))
    ob = rec["obligation"]
    if status == "hang":
        return not ob.endswith(".hang")
    if status in ("crash", "memory"):
        return not ob.endswith(".crash")
    oc = val["outcome"]
    if oc == "internal_error":
        return ob != "%s.internal_error.%s@%s" % (w["schema"], val["type"], val["site"])
    if oc in ("malformed_tree", "dimensions.rows.fewer", "dimensions.rows.more", "dimensions.cols"):
        return ob != "%s.%s" % (w["schema"], oc)
    if ob.endswith(".valid_rejected"):
        return oc == "ok"
    return True
