"""C05 (T2, bounded): split frequencies, consensus trees, support annotations,
edge collapsing and maximum-credibility trees are exact.

Every evaluation is described by a JSON-able *case* (see kit_a) and run by
run_case(); the oracles live in specs/splitsum.py and work on label sets read from
raw pointers, never on the library's bitmasks (these are only decoded through the
namespace's taxon->bit table).

Clauses and monitors
  freq.*        split distribution == exact weighted fraction per split; nothing for absent
                splits; cache refreshed when more trees are counted (route `incremental`)
  consensus.*   th > 1/2: all and only; th <= 1/2: none below threshold, maximal, greedy by
                decreasing frequency (ties: any order is accepted); spans every taxon once;
                rooting state of the inputs; support of every node
  summary.*     (routes: built at once; `+incremental`: half the trees, a look at consensus / MCCT /
                summaries, then the other half)
                support (proportion / percentage / label with d decimals), length_mean/
                median/range/sd, age_mean/median/range/sd, set_edge_lengths in
                {support, mean-length, median-length, mean-age, median-age}
  collapse.*    exactly the internal edges with frequency < th disappear; root-to-tip
                distances (rooted, or unrooted without a basal bifurcation) and tip-to-tip
                distances are kept
  mcct.*        reported index is an argmax of the reported scores; the returned tree has
                the topology of an input attaining the maximum; reported score attribute;
                score == sum of log support (or sum of support) over the internal splits

Deliberately left out (and why)
  * sd for a single value (undefined; the library reports inf), hpd95 / quant_5_95 (not in
    the statement), summaries of splits absent from the sample (no data values), samples
    containing missing edge lengths in the summary clause (the statement does not say what
    the "value" of a missing length is; TreeArray substitutes 0), zero total weight.
  * trees whose rooting is undefined (None) are only required not to produce a *rooted*
    consensus (the statement speaks of "both rooting states").
  * namespaces larger than the leaf set: the statement quantifies over trees carrying
    exactly the taxa of the namespace (namespaces with *removed* taxa are covered).
  * TreeList.frequency_of_bipartition (not the split distribution the statement speaks of).

Input classes that fail on the unchanged tree are confined to scope `corner` (so that the
large scopes stay informative) and are reported there with pinned witnesses:
  - (repaired in /repo meanwhile, cee52ed6, cases kept) TreeArray(use_tree_weights=False) still weighted (the flag was not
    forwarded to its SplitDistribution): freq.value / freq.getitem / consensus.support / consensus.below-threshold
    with `use_tree_weights=False` on the TreeArray / TreeList.consensus routes;
  - an unrooted 2-leaf tree counts its only split twice (frequency 2.0);
  - (repaired in /repo meanwhile, cases kept) an unrooted tree with a unifurcation at the root or
    on a root child counted one split twice (encode_bipartitions collapsed the basal bifurcation
    before suppressing unifurcations);
  - dendropy.calculate.treesum.consensus_tree raises TypeError whenever the root edge has no
    length (route `treesum.consensus_tree`; the other scopes call TreeSummarizer.tree_from_splits
    directly, which works).
"""
import itertools
import math
from fractions import Fraction

import dendropy
from dendropy.datamodel.treecollectionmodel import TreeList, TreeArray, SplitDistribution
from dendropy.calculate import treesum
from dendropy.utility import constants

from bounded.common import rng_for, time_limit, Timeout
from bounded import kit_a as K
from specs import trees as S
from specs import splitsum as Q

GTH = math.nextafter(0.5, 1.0)  # smallest float above one half, independent of dendropy.utility.constants
# "default" = the call is made without min_freq; the oracle then uses the library's documented
# default, constants.GREATER_THAN_HALF, whatever its value (on the unchanged tree it is exactly
# 0.5 -- Decimal(0.5).next_plus() rounds back to 0.5 -- so the default consensus follows the
# "<= 1/2" clause; the statement does not fix the default, so this is noted, not failed)
THRESHOLDS = [0.2, 0.25, 1.0 / 3.0, 0.5, GTH, "default", 0.6, 2.0 / 3.0, 0.75, 1.0]


def _th(case):
    """(keyword arguments for the call, threshold the oracle uses)"""
    th = case["th"]
    if th == "default":
        return {}, float(constants.GREATER_THAN_HALF)
    return {"min_freq": th}, th
WEIGHT_VALUES = [None, 1, 2, 0.5]


# ----------------------------------------------------------------------------- set-up of one case
def _setup(case):
    ns = K.make_namespace(case["labels"], case.get("removed", ()))
    rooted = case["rooted"]
    ws = case.get("weights") or [None] * len(case["trees"])
    trees = [K.build(sp, ns, rooted=rooted, weight=w) for sp, w in zip(case["trees"], ws)]
    if case.get("edited_after_encoding"):
        # every tree was drawn differently when its bipartitions were encoded (the taxa of its first and last leaf exchanged) and has been
        # edited into what it is now since: a summary made now must describe the trees as they are now
        for t in trees:
            lv = [nd for nd in S.pre(t._seed_node) if not nd._child_nodes]
            if len(lv) >= 2:
                lv[0].taxon, lv[-1].taxon = lv[-1].taxon, lv[0].taxon
                t.encode_bipartitions()
                lv[0].taxon, lv[-1].taxon = lv[-1].taxon, lv[0].taxon
    L = frozenset(t.label for t in ns._taxa)
    r = bool(rooted)
    split_sets = [Q.tree_splits(t, r, L) for t in trees]
    return ns, trees, ws, L, r, split_sets


def _tl(ns, trees):
    tl = TreeList(taxon_namespace=ns)
    for t in trees:
        tl._trees.append(t)  # members already live in ns; list mutators are C11's subject
    return tl


def _key(case):
    rt = {True: "R", False: "U", None: "N"}[case["rooted"]]
    ws = case.get("weights")
    parts = [case["what"], case.get("route", ""), rt]
    if case.get("removed"):
        parts.append("ns=%s-%s" % ("".join(case["labels"]), "".join(case["removed"])))
    parts.append(" ".join(K.spec_newick(sp) for sp in case["trees"]))
    if ws and any(w is not None for w in ws):
        parts.append("w=" + ",".join("-" if w is None else K._num(w) for w in ws))
    for k in ("use_tree_weights", "th", "target", "settings", "include_external_splits", "edited_after_encoding"):
        if k in case and case[k] not in (None,):
            v = case[k]
            if k == "target" and isinstance(v, list):
                v = K.spec_newick(v)
            if k == "use_tree_weights" and v is True:
                continue
            if k == "settings":
                v = ",".join("%s=%s" % kv for kv in sorted(v.items()))
            parts.append("%s=%s" % (k, v if not isinstance(v, float) else repr(v)))
    return "|".join(str(p) for p in parts)


# ----------------------------------------------------------------------------- freq
def _check_dist(sd, bits, L, r, exp, fails, tag=""):
    """sd.split_frequencies / sd[mask] against the exact expected frequencies"""
    got = {}
    for m, f in sd.split_frequencies.items():
        s = Q.decode(m, bits, L, r)
        if s in got:
            fails.append(("freq.one-entry-per-split", "%ssplit %s is reported under two bitmasks" % (tag, Q.split_key(s, r))))
        got[s] = (m, f)
    for s, (m, f) in sorted(got.items(), key=lambda kv: Q.split_key(kv[0], r)):
        if s not in exp:
            if f != 0:
                fails.append(("freq.absent-split", "%ssplit %s occurs in no tree but has frequency %r" % (tag, Q.split_key(s, r), f)))
            continue
        if not Q.feq(f, exp[s]):
            fails.append(("freq.value", "%ssplit %s: reported %r, exact fraction %s" % (tag, Q.split_key(s, r), f, exp[s])))
        if not Q.feq(sd[m], exp[s]):
            fails.append(("freq.getitem", "%ssd[%s] = %r, exact fraction %s" % (tag, Q.split_key(s, r), sd[m], exp[s])))
    for s in sorted(set(exp) - set(got), key=lambda s: Q.split_key(s, r)):
        fails.append(("freq.missing-split", "%ssplit %s (fraction %s) is not reported" % (tag, Q.split_key(s, r), exp[s])))
    # nothing for splits that occur in no tree: every subset of the leaf set
    labs = sorted(L)
    if len(labs) <= 6:
        for k in range(0, len(labs) + 1):
            for A in itertools.combinations(labs, k):
                s = Q.split_of_clade(A, L, r)
                if s in exp:
                    continue
                m = 0
                for a in A:
                    m |= bits[a]
                v = sd[m]
                if v != 0:
                    fails.append(("freq.absent-split", "%ssd[{%s}] = %r for a split of no tree" % (tag, ",".join(A), v)))


def _freq(case):
    ns, trees, ws, L, r, split_sets = _setup(case)
    u = case.get("use_tree_weights", True)
    bits = Q.bit_table(ns)
    fails = []
    route = case["route"]
    if route == "incremental":
        sd = SplitDistribution(taxon_namespace=ns, use_tree_weights=u)
        for i, t in enumerate(trees):
            sd.count_splits_on_tree(t)
            exp = Q.expected_frequencies(split_sets[: i + 1], ws[: i + 1], u)
            if any(v is None for v in exp.values()):
                continue  # total weight zero so far: the fraction is undefined (left out, see docstring)
            _check_dist(sd, bits, L, r, exp, fails, tag="after %d trees: " % (i + 1))
        return fails
    exp = Q.expected_frequencies(split_sets, ws, u)
    if route == "TreeList.split_distribution":
        sd = _tl(ns, trees).split_distribution(use_tree_weights=u)
    elif route == "TreeArray":
        sd = _tl(ns, trees).as_tree_array(use_tree_weights=u).split_distribution
    elif route == "TreeArray.add_tree":
        ta = TreeArray(taxon_namespace=ns, use_tree_weights=u)
        for t in trees:
            ta.add_tree(t)
        sd = ta.split_distribution
    else:
        raise ValueError(route)
    _check_dist(sd, bits, L, r, exp, fails)
    if sd.total_trees_counted != len(trees):
        fails.append(("freq.total", "total_trees_counted = %r for %d trees" % (sd.total_trees_counted, len(trees))))
    return fails


# ----------------------------------------------------------------------------- consensus
def _rooting_ok(tree, rooted):
    if rooted is None:
        return tree.is_rooted is not True
    return tree.is_rooted is rooted


def _support_fails(tree, exp, L, r, fails, mon, factor=1):
    for nd in S.pre(tree._seed_node):
        s = Q.node_split(nd, L, r)
        want = exp.get(s, Fraction(0)) * factor
        got = getattr(nd, "support", None)
        if got is None or not Q.feq(got, want, 1e-9):
            fails.append((mon, "node %s: support %r, frequency of its split is %s" % (Q.split_key(s, r), got, want)))


def _consensus(case):
    ns, trees, ws, L, r, split_sets = _setup(case)
    u = case.get("use_tree_weights", True)
    kw, th = _th(case)
    exp = Q.expected_frequencies(split_sets, ws, u)
    route = case["route"]
    tl = _tl(ns, trees)
    if route == "TreeList.consensus":
        con = tl.consensus(use_tree_weights=u, **kw)
    elif route == "TreeArray.consensus_tree":
        con = tl.as_tree_array(use_tree_weights=u).consensus_tree(**kw)
    elif route == "SplitDistribution.consensus_tree":
        con = tl.split_distribution(use_tree_weights=u).consensus_tree(**kw)
    elif route == "treesum.consensus_tree":  # legacy default is 0.5, not majority rule: always explicit
        con = treesum.consensus_tree(tl, min_freq=th)
    elif route == "TreeSummarizer.tree_from_splits":
        con = treesum.TreeSummarizer().tree_from_splits(tl.split_distribution(use_tree_weights=u), min_freq=th, include_edge_lengths=False)
    else:
        raise ValueError(route)
    fails = []
    for e in S.arborescence_errors(con, check_edges=False):
        fails.append(("consensus.well-formed", e))
    sp = Q.spanning_errors(con, ns)
    for e in sp:
        fails.append(("consensus.spans-namespace", e))
    if con.taxon_namespace is not ns:
        fails.append(("consensus.spans-namespace", "consensus tree is not in the namespace of the sample"))
    if not _rooting_ok(con, case["rooted"]):
        fails.append(("consensus.rooting", "inputs have is_rooted=%r, consensus has is_rooted=%r" % (case["rooted"], con.is_rooted)))
    if not sp:
        con_nt = Q.nontrivial(Q.tree_splits(con, r, L), L, r)
        for clause, text in Q.consensus_errors(con_nt, exp, th, L, r):
            fails.append(("consensus." + clause, text))
        if route != "treesum.consensus_tree":
            _support_fails(con, exp, L, r, fails, "consensus.support")
    return fails


# ----------------------------------------------------------------------------- summaries
def _summary(case):
    ns, trees, ws, L, r, split_sets = _setup(case)
    st = dict(case.get("settings") or {})
    ages = bool(st.pop("ages", False))
    pooled_with = None
    if case["route"] == "TreeArray+pooled":
        # the collection under test holds the first half of the trees and has been an OPERAND of a merge with the second half
        # (`a + b`): its own summaries are still those of its own trees
        h = max(1, len(trees) // 2)
        if not sum((1 if w is None else w) for w in ws[:h]):
            return []   # total weight of the first half is zero: its fractions are undefined (left out, see docstring)
        pooled_with = trees[h:]
        trees, ws, split_sets = trees[:h], ws[:h], split_sets[:h]
    exp = Q.expected_frequencies(split_sets, ws, True)
    # per-split value collections, from the raw pointers, before the library touches the trees
    lens, ags = {}, {}
    for t in trees:
        for s, v in Q.split_edge_values(t, r, L).items():
            lens.setdefault(s, []).append(v)
        if ages:
            for s, v in Q.split_node_ages(t, r, L).items():
                ags.setdefault(s, []).append(v)
    tl = _tl(ns, trees)
    route = case["route"]
    if route in ("TreeArray+incremental", "SplitDistribution+incremental"):
        # the collection is filled in two batches and looked at in between (a consensus tree, the
        # maximum-credibility tree, a summary on a target): whatever was cached for the first batch
        # must not show in the summary of the whole collection
        h = max(1, len(trees) // 2)
        if route.startswith("TreeArray"):
            src = _tl(ns, trees[:h]).as_tree_array(ignore_node_ages=not ages)
            sd0 = src.split_distribution
        else:
            src = _tl(ns, trees[:h]).split_distribution(ignore_node_ages=not ages)
            sd0 = src
        src.consensus_tree(min_freq=0.5)
        if route.startswith("TreeArray"):
            src.maximum_product_of_split_support_tree()
        else:
            src.summarize_splits_on_tree(K.build(case["trees"][0], ns, rooted=case["rooted"]))
        sd0.split_edge_length_summaries
        if ages:
            sd0.split_node_age_summaries
        for t in trees[h:]:
            if route.startswith("TreeArray"):
                src.add_tree(t)
            else:
                src.count_splits_on_tree(t)
    elif route == "TreeArray":
        src = tl.as_tree_array(ignore_node_ages=not ages)
    elif route == "TreeArray+pooled":
        src = tl.as_tree_array(ignore_node_ages=not ages)
        other = _tl(ns, pooled_with).as_tree_array(ignore_node_ages=not ages)
        pooled = src + other
        for t in pooled_with[:1]:
            pooled.add_tree(t)
        route = "TreeArray"
    else:
        src = tl.split_distribution(ignore_node_ages=not ages)
    tgt = case["target"]
    if case.get("i", 0) % 2 == 0 or route.endswith("+incremental"):
        # an earlier summarisation with every option the other way round, on a throw-away tree: what a call does is decided by ITS
        # arguments (defaults included), not by what the same object was asked before
        other = dict(support_as_percentages=not st.get("support_as_percentages", False),
                     set_support_as_node_label=not st.get("set_support_as_node_label", False),
                     support_label_decimals=1, set_edge_lengths="support")
        try:
            src.summarize_splits_on_tree(K.build(case["trees"][0], ns, rooted=case["rooted"]), **other)
        except Exception:  # noqa
            pass
    if isinstance(tgt, list):
        target = K.build(tgt, ns, rooted=case["rooted"])
        src.summarize_splits_on_tree(target, **st)
    else:  # "consensus": the summary is applied by consensus_tree itself
        target = src.consensus_tree(**dict(st, **_th(case)[0]))
    fails = []
    factor = 100 if st.get("support_as_percentages") else 1
    _support_fails(target, exp, L, r, fails, "summary.support", factor)
    sel = st.get("set_edge_lengths")
    dec = st.get("support_label_decimals", 4)
    for nd in S.pre(target._seed_node):
        s = Q.node_split(nd, L, r)
        sk = Q.split_key(s, r)
        want_sup = exp.get(s, Fraction(0)) * factor
        if st.get("set_support_as_node_label"):
            try:
                lv = float(nd.label)
            except (TypeError, ValueError):
                lv = None
            if lv is None or abs(lv - float(want_sup)) > 0.5 * 10 ** (-dec) + 1e-9 or len(str(nd.label).split(".")[-1]) != dec:
                fails.append(("summary.label", "node %s: label %r, support %s to %d decimals expected" % (sk, nd.label, float(want_sup), dec)))
        is_root = nd._parent_node is None
        vals = lens.get(s)
        have_len = (not is_root) and vals and all(v is not None for v in vals)
        e = nd._edge
        if have_len:
            for fld, want in (("length_mean", Q.mean(vals)), ("length_median", Q.median(vals))):
                got = getattr(e, fld, None)
                if not Q.approx(got, want):
                    fails.append(("summary." + fld, "split %s values %r: %s = %r, expected %s" % (sk, vals, fld, got, float(want))))
            got = getattr(e, "length_range", None)
            if got is None or len(got) != 2 or not (Q.approx(got[0], min(vals)) and Q.approx(got[1], max(vals))):
                fails.append(("summary.length_range", "split %s values %r: range %r" % (sk, vals, got)))
            if len(vals) >= 2:
                got = getattr(e, "length_sd", None)
                if not Q.approx(got, Q.sample_sd(vals)):
                    fails.append(("summary.length_sd", "split %s values %r: sd %r, expected %r" % (sk, vals, got, Q.sample_sd(vals))))
            if sel == "mean-length" and not Q.approx(e.length, Q.mean(vals)):
                fails.append(("summary.set-mean-length", "split %s values %r: edge length set to %r" % (sk, vals, e.length)))
            if sel == "median-length" and not Q.approx(e.length, Q.median(vals)):
                fails.append(("summary.set-median-length", "split %s values %r: edge length set to %r" % (sk, vals, e.length)))
        if sel == "support" and not Q.approx(e.length, want_sup):
            fails.append(("summary.set-support-length", "split %s: edge length %r, support %s" % (sk, e.length, float(want_sup))))
        if ages and s in ags:
            av = ags[s]
            for fld, want in (("age_mean", Q.mean(av)), ("age_median", Q.median(av))):
                got = getattr(nd, fld, None)
                if not Q.approx(got, want):
                    fails.append(("summary." + fld, "split %s ages %r: %s = %r, expected %s" % (sk, av, fld, got, float(want))))
            got = getattr(nd, "age_range", None)
            if got is None or len(got) != 2 or not (Q.approx(got[0], min(av)) and Q.approx(got[1], max(av))):
                fails.append(("summary.age_range", "split %s ages %r: range %r" % (sk, av, got)))
            if len(av) >= 2:
                got = getattr(nd, "age_sd", None)
                if not Q.approx(got, Q.sample_sd(av)):
                    fails.append(("summary.age_sd", "split %s ages %r: sd %r, expected %r" % (sk, av, got, Q.sample_sd(av))))
            if sel in ("mean-age", "median-age"):
                f = Q.mean if sel == "mean-age" else Q.median
                if not Q.approx(getattr(nd, "age", None), f(av)):
                    fails.append(("summary.set-" + sel, "split %s ages %r: node age set to %r" % (sk, av, getattr(nd, "age", None))))
                p = nd._parent_node
                if p is not None:
                    ps = Q.node_split(p, L, r)
                    if ps in ags and not Q.approx(e.length, f(ags[ps]) - f(av)):
                        fails.append(("summary.set-" + sel, "split %s: edge length %r, parent age - age = %s"
                                      % (sk, e.length, float(f(ags[ps]) - f(av)))))
    return fails


# ----------------------------------------------------------------------------- collapse
def _collapse(case):
    ns, trees, ws, L, r, split_sets = _setup(case)
    exp = Q.expected_frequencies(split_sets, ws, True)
    kw, th = _th(case)
    target = K.build(case["target"], ns, rooted=case["rooted"])
    before_nt = Q.nontrivial(Q.tree_splits(target, r, L), L, r)
    rt0 = Q.root_tip_distances(target)
    basal_bif = len(target._seed_node._child_nodes) == 2
    tl = _tl(ns, trees)
    if case["route"] == "TreeArray":
        tl.as_tree_array().collapse_edges_with_less_than_minimum_support(target, **kw)
    else:
        tl.split_distribution().collapse_edges_with_less_than_minimum_support(target, **kw)
    fails = []
    for e in S.arborescence_errors(target, check_edges=False):
        fails.append(("collapse.well-formed", e))
    if Q.leaf_labels(target) != L or len(S.leaves(target._seed_node)) != len(L):
        fails.append(("collapse.leaves", "leaf set changed to %s" % sorted(Q.leaf_labels(target))))
        return fails
    want = frozenset(s for s in before_nt if Q.reaches(exp.get(s, Fraction(0)), th))
    after_nt = Q.nontrivial(Q.tree_splits(target, r, L), L, r)
    for s in sorted(after_nt - want, key=lambda s: Q.split_key(s, r)):
        if s in before_nt:
            fails.append(("collapse.kept-weak-edge", "edge %s has frequency %s < %r but was kept" % (Q.split_key(s, r), exp.get(s, 0), th)))
        else:
            fails.append(("collapse.new-edge", "edge %s appeared" % Q.split_key(s, r)))
    for s in sorted(want - after_nt, key=lambda s: Q.split_key(s, r)):
        fails.append(("collapse.removed-supported-edge", "edge %s has frequency %s >= %r but was removed" % (Q.split_key(s, r), exp[s], th)))
    # an unrooted target with a basal bifurcation is first de-rooted by the library (its
    # "root" is not part of the tree), so root-to-tip distances are only defined otherwise
    if r or not basal_bif:
        rt1 = Q.root_tip_distances(target)
        if any(not Q.approx(rt0[k], rt1.get(k)) for k in rt0):
            fails.append(("collapse.distances", "root-to-tip distances changed: %r -> %r" % (sorted(rt0.items()), sorted(rt1.items()))))
    return fails


# ----------------------------------------------------------------------------- mcct
def _mcct(case):
    ns, trees, ws, L, r, split_sets = _setup(case)
    exp = Q.expected_frequencies(split_sets, ws, True)
    ext = bool(case.get("include_external_splits", False))
    route = case["route"]
    use_log = route.endswith("product")
    # definition of the score on the label-set side
    # "internal split": the statement does not say whether a rooted clade of all-but-one
    # taxon counts; both conventions are accepted (the library's two scoring functions differ)
    want_scores = [Q.score_conventions(ss, exp, L, r, use_log, ext) for ss in split_sets]
    nts = [Q.nontrivial(ss, L, r) for ss in split_sets]
    tl = _tl(ns, trees)
    fails = []
    ta = tl.as_tree_array()
    if use_log:
        scores, idx = ta.calculate_log_product_of_split_supports(include_external_splits=ext)
    else:
        scores, idx = ta.calculate_sum_of_split_supports(include_external_splits=ext)
    if len(scores) != len(trees):
        fails.append(("mcct.scores", "%d scores for %d trees" % (len(scores), len(trees))))
        return fails
    if idx is None or not (0 <= idx < len(scores)) or scores[idx] != max(scores):
        fails.append(("mcct.argmax", "reported index %r, scores %r" % (idx, scores)))
    if not Q.scores_match(scores, want_scores):
        fails.append(("mcct.score-definition", "reported scores %r, %s over the internal splits of each tree = %r"
                      % (scores, "sum of log support" if use_log else "sum of support", [b[0] for b in want_scores])))
    best = max(scores)
    maximisers = [i for i, sc in enumerate(scores) if sc == best]
    attr = "log_product_of_split_support" if use_log else "sum_of_split_support"
    if route.startswith("TreeArray"):
        fn = ta.maximum_product_of_split_support_tree if use_log else ta.maximum_sum_of_split_support_tree
        t = fn(include_external_splits=ext)
        for e in Q.spanning_errors(t, ns):
            fails.append(("mcct.spans-namespace", e))
        if not fails or all(f[0] != "mcct.spans-namespace" for f in fails):
            got = Q.nontrivial(Q.tree_splits(t, r, L), L, r)
            if not any(got == nts[i] for i in maximisers):
                fails.append(("mcct.topology", "returned topology %s is not that of a maximiser (scores %r)"
                              % (sorted(Q.split_key(s, r) for s in got), scores)))
        if not _rooting_ok(t, case["rooted"]):
            fails.append(("mcct.rooting", "inputs is_rooted=%r, result is_rooted=%r" % (case["rooted"], t.is_rooted)))
    else:
        ns, trees = _setup(case)[:2]  # fresh objects: the TreeArray above has normalised the first ones
        tl = _tl(ns, trees)
        fn = tl.maximum_product_of_split_support_tree if use_log else tl.maximum_sum_of_split_support_tree
        t = fn(include_external_splits=ext)
        pos = [i for i, x in enumerate(trees) if x is t]
        if not pos or not any(i in maximisers for i in pos):
            fails.append(("mcct.topology", "returned tree is input %r, maximisers are %r (scores %r)" % (pos, maximisers, scores)))
    got = getattr(t, attr, None)
    if not Q.approx(got, best):
        fails.append(("mcct.reported-score", "%s = %r, maximum of the reported scores is %r" % (attr, got, best)))
    return fails


_RUN = {"freq": _freq, "consensus": _consensus, "summary": _summary, "collapse": _collapse, "mcct": _mcct}


def run_case(case):
    """-> list of (monitor, detail).  Exceptions of the library are violations
    (no clause of C05 allows an error on these inputs)."""
    try:
        with time_limit(20):
            return _RUN[case["what"]](case)
    except Timeout:
        return [(case["what"] + ".terminates", "no result within 20 s")]
    except (AssertionError, ArithmeticError, LookupError, TypeError, ValueError, AttributeError, RuntimeError) as ex:
        import traceback
        tb = traceback.extract_tb(ex.__traceback__)
        inner = tb[-1]
        if "/verif/" in inner.filename and "/dendropy/" not in inner.filename:
            raise  # a bug of the checker, not of the library
        return [(case["what"] + ".raises", "%s: %s (at %s:%d)" % (type(ex).__name__, ex, inner.filename.split("/dendropy/")[-1], inner.lineno))]


def _result(scope, case, nontrivial=True):
    fails = run_case(case)
    key = _key(case)
    # the case travels back to the parent only when it is a witness
    return dict(scope=scope, key=key, nontrivial=nontrivial, fails=fails, case=case if fails else None)


# ----------------------------------------------------------------------------- expansion of a sample into cases
CON_ROUTES = ["TreeList.consensus", "TreeArray.consensus_tree", "SplitDistribution.consensus_tree", "TreeSummarizer.tree_from_splits"]
FREQ_ROUTES = ["TreeList.split_distribution", "TreeArray", "incremental", "TreeArray.add_tree"]


def _base(sample):
    return dict(labels=sample["labels"], removed=sample.get("removed", []), trees=sample["trees"],
                weights=sample.get("weights"), rooted=sample["rooted"])


def _nontriv(sample):
    return len(sample["labels"]) - len(sample.get("removed", [])) >= 4 and len(sample["trees"]) >= 2


def eval_topology_sample(sample):
    """frequencies (all routes), consensus (every threshold, routes in rotation), mcct"""
    out = []
    sc = sample["scope"]
    nt = _nontriv(sample)
    i = sample.get("i", 0)
    for route in (FREQ_ROUTES if sample.get("all_routes") else [FREQ_ROUTES[i % 4], "incremental"]):
        c = _base(sample)
        c.update(what="freq", route=route)
        out.append(_result(sc, c, nt))
    for j, th in enumerate(THRESHOLDS):
        if sample.get("light") and (i + j) % 2:
            continue  # 4-tree multisets (thorough tier): every second threshold, alternating with the sample index
        routes = CON_ROUTES if sample.get("all_routes") else [CON_ROUTES[(i + j) % 4]]
        for route in routes:
            c = _base(sample)
            c.update(what="consensus", route=route, th=th)
            out.append(_result(sc, c, nt))
    ws = sample.get("weights") or []
    if any(w is not None for w in ws):
        # weights present but switched off, on the routes that honour the switch (the TreeArray
        # routes do not forward it: recorded in scope `corner`)
        c = _base(sample)
        c.update(what="freq", route=["TreeList.split_distribution", "incremental"][i % 2], use_tree_weights=False)
        out.append(_result(sc, c, nt))
        c = _base(sample)
        c.update(what="consensus", route="SplitDistribution.consensus_tree", th=THRESHOLDS[i % len(THRESHOLDS)], use_tree_weights=False)
        out.append(_result(sc, c, nt))
    for route in ("TreeArray.product", "TreeArray.sum", "TreeList.product", "TreeList.sum"):
        c = _base(sample)
        c.update(what="mcct", route=route)
        if (i % 3) == 0:
            c["include_external_splits"] = True
        out.append(_result(sc, c, nt))
    return out


SETTINGS = [
    {},
    {"support_as_percentages": True},
    {"set_support_as_node_label": True},
    {"set_support_as_node_label": True, "support_as_percentages": True, "support_label_decimals": 1},
    {"set_support_as_node_label": True, "support_label_decimals": 2},
    {"set_edge_lengths": "mean-length"},
    {"set_edge_lengths": "median-length"},
    {"set_edge_lengths": "support"},
    {"set_edge_lengths": "support", "support_as_percentages": True},
]
AGE_SETTINGS = [
    {"ages": True},
    {"ages": True, "set_edge_lengths": "mean-age"},
    {"ages": True, "set_edge_lengths": "median-age"},
]


def eval_length_sample(sample):
    """summaries on the consensus and on explicit targets; collapse on explicit targets"""
    out = []
    sc = sample["scope"]
    nt = _nontriv(sample)
    i = sample.get("i", 0)
    sets = list(SETTINGS) + (list(AGE_SETTINGS) if sample.get("ultrametric") else [])
    targets = list(sample["targets"])
    for j, st in enumerate(sets):
        for route in ("TreeArray", "SplitDistribution", "TreeArray+incremental", "SplitDistribution+incremental", "TreeArray+pooled"):
            if st.get("ages") and sample["rooted"] is not True:
                continue
            if (route.endswith("+incremental") or route.endswith("+pooled")) and len(sample["trees"]) < 2:
                continue
            c = _base(sample)
            c.update(what="summary", route=route, settings=st, target="consensus", th=[0.5, GTH, 0.25][(i + j) % 3])
            out.append(_result(sc, c, nt))
            c = _base(sample)
            c.update(what="summary", route=route, settings=st, target=targets[(i + j) % len(targets)])
            out.append(_result(sc, c, nt))
    if not sample.get("ultrametric"):
        for j, th in enumerate(THRESHOLDS):
            for k, tg in enumerate(targets):
                c = _base(sample)
                c.update(what="collapse", route=["TreeArray", "SplitDistribution"][(i + j + k) % 2], th=th, target=tg)
                out.append(_result(sc, c, nt))
    return out


def eval_single(item):
    return _result(item["scope"], item["case"], item.get("nontrivial", True))


# ----------------------------------------------------------------------------- sample generators
def _weights_for(i, k):
    """deterministic weight vector number i for k trees (None = no weight attribute)"""
    pats = [
        [None] * k,
        [WEIGHT_VALUES[(i + j) % 4] for j in range(k)],
        [2 if j == 0 else 1 for j in range(k)],
        [0.5 if j == k - 1 else 2 for j in range(k)],
        [None if j % 2 else 0.5 for j in range(k)],
    ]
    if k >= 2:
        # a tree of weight exactly 0 (int / float) next to positive ones: it counts for nothing
        pats.append([0 if j == 0 else 1 for j in range(k)])
        pats.append([0.0 if j == k - 1 else 2 for j in range(k)])
    return pats[i % len(pats)]


def _dyadic(i, leaf):
    return [0.5, 1.25, 2.0, 0.75, 3.5, 1.0, 0.25][i % 7]


def _ints(i, leaf):
    return float((i * 7) % 4)


def gen_exhaustive(n, kmax, scope, kmin=1):
    topos = K.labelled_topologies(n)
    i = 0
    for k in range(kmin, kmax + 1):
        for combo in itertools.combinations_with_replacement(range(len(topos)), k):
            for rooted in (True, False):
                i += 1
                yield dict(scope=scope, labels=K.LAB[:n], trees=[topos[x] for x in combo], rooted=rooted,
                           weights=_weights_for(i, k), i=i, light=(k >= 4))


def gen_random(rng, count, scope, nmin=5, nmax=7, kmin=2, kmax=5, p_unif=0.0, removed=False, all_routes=False):
    """p_unif: unifurcations above any node, the root and the root children of unrooted samples
    included (these made the library count one split twice until encode_bipartitions was
    repaired in /repo; scope `corner` keeps pinned cases of that class)"""
    for i in range(count):
        n = rng.randint(nmin, nmax)
        labels = K.LAB[:n]
        rem = []
        if removed:
            labels = K.LAB[: n + 2]
            rem = sorted(rng.sample(labels, rng.randint(1, 2)))
        live = [l for l in labels if l not in rem]
        k = rng.randint(kmin, kmax)
        # a few base topologies, repeated with small probability of change, so that
        # frequencies between 0 and 1 and ties occur
        rooted = rng.choice([True, False])
        md = 0
        base = [K.random_spec(rng, live, p_poly=rng.choice([0.0, 0.2, 0.5]), p_unif=p_unif, unif_min_depth=md) for _ in range(rng.randint(1, 3))]
        trees = [rng.choice(base) if rng.random() < 0.7 else K.random_spec(rng, live, p_poly=0.2, p_unif=p_unif, unif_min_depth=md) for _ in range(k)]
        yield dict(scope=scope, labels=labels, removed=rem, trees=trees, rooted=rooted,
                   weights=_weights_for(rng.randrange(7), k), i=i, all_routes=all_routes)


def _ultrametric(rng, labels):
    """random binary/polytomous ultrametric spec with dyadic node ages"""
    sp = K.random_spec(rng, labels, p_poly=0.2)

    def ages(s):
        """-> (age of the node, spec without its own length)"""
        if not s[2]:
            return 0.0, [s[0], None, []]
        subs = [ages(c) for c in s[2]]
        a = max(x[0] for x in subs) + rng.choice([0.25, 0.5, 1.0, 1.5])
        kids = [[csp[0], a - ca, csp[2]] for ca, csp in subs]
        return a, [s[0], None, kids]

    return ages(sp)[1]


def gen_lengths(rng, count, scope, ultrametric=False):
    pats = [_dyadic, _ints, 1.0]
    for i in range(count):
        n = rng.randint(4, 6)
        labels = K.LAB[:n]
        k = rng.randint(2, 5)
        rooted = True if ultrametric else rng.choice([True, False])
        if ultrametric:
            base = [_ultrametric(rng, labels) for _ in range(2)]
            trees = []
            for _ in range(k):
                if rng.random() < 0.6:
                    # same topology, rescaled (dyadic factor): ultrametric again, other ages
                    f = rng.choice([1.0, 0.5, 2.0, 1.5])
                    trees.append(_scale(rng.choice(base), f))
                else:
                    trees.append(_ultrametric(rng, labels))
            targets = [trees[0], _strip(rng.choice(base))]
        else:
            base = [K.random_spec(rng, labels, p_poly=rng.choice([0.0, 0.3])) for _ in range(2)]
            trees = []
            for j in range(k):
                sp = rng.choice(base) if rng.random() < 0.7 else K.random_spec(rng, labels, p_poly=0.2)
                pat = pats[rng.randrange(3)]
                off = rng.randrange(7)
                trees.append(K.with_lengths(sp, (lambda ii, leaf, pat=pat, off=off: pat(ii + off, leaf)) if callable(pat) else pat))
            tg = [K.with_lengths(base[0], _dyadic), K.with_lengths(K.random_spec(rng, labels, p_poly=0.1), _ints),
                  K.with_lengths(base[-1], lambda ii, leaf: None if ii % 3 == 1 else 1.5)]
            if not rooted:
                # two of the three unrooted targets without a basal bifurcation, so that
                # root-to-tip distances are defined for them
                tg = [K.deroot(tg[0]), tg[1], K.deroot(tg[2])]
            targets = tg
        yield dict(scope=scope, labels=labels, trees=trees, rooted=rooted, weights=_weights_for(rng.randrange(7), k), i=i,
                   targets=targets, ultrametric=ultrametric)


def _scale(sp, f):
    return [sp[0], None if sp[1] is None else sp[1] * f, [_scale(c, f) for c in sp[2]]]


def _strip(sp):
    return [sp[0], None, [_strip(c) for c in sp[2]]]


def gen_corner():
    """1-3 leaves, undefined rooting, weights switched off, single-tree samples"""
    sc = "corner"
    items = []

    def add(case, nontrivial=False):
        items.append(dict(scope=sc, case=case, nontrivial=nontrivial))

    for n in (1, 2, 3):
        labels = K.LAB[:n]
        tps = K.labelled_topologies(n) if n > 1 else [["A", None, []]]
        for rooted in (True, False):
            for combo in itertools.combinations_with_replacement(range(len(tps)), 2 if n > 1 else 1):
                base = dict(labels=labels, removed=[], trees=[tps[x] for x in combo], weights=None, rooted=rooted)
                for route in FREQ_ROUTES:
                    c = dict(base)
                    c.update(what="freq", route=route)
                    add(c)
                for th in (0.5, GTH, 1.0):
                    c = dict(base)
                    c.update(what="consensus", route="TreeList.consensus", th=th)
                    add(c)
                c = dict(base)
                c.update(what="mcct", route="TreeArray.product")
                add(c)
    # a single leaf below a unifurcating root, the way "(A);" is read
    for rooted in (True, False):
        base = dict(labels=["A"], removed=[], trees=[[None, None, [["A", None, []]]]], weights=None, rooted=rooted)
        c = dict(base)
        c.update(what="freq", route="TreeList.split_distribution")
        add(c)
        c = dict(base)
        c.update(what="consensus", route="TreeList.consensus", th=GTH)
        add(c)
    # undefined rooting (None) behaves as unrooted
    tps = K.labelled_topologies(4)
    for combo in [(0, 0, 5), (3, 7, 7), (1, 2, 3), (25, 25, 4)]:
        base = dict(labels=K.LAB[:4], removed=[], trees=[tps[x] for x in combo], weights=None, rooted=None)
        for route in FREQ_ROUTES:
            c = dict(base)
            c.update(what="freq", route=route)
            add(c, True)
        for th in (0.3, GTH, 1.0):
            for route in CON_ROUTES[:3]:
                c = dict(base)
                c.update(what="consensus", route=route, th=th)
                add(c, True)
    # trees that carry bipartitions encoded BEFORE their last edit, every route (the default of every summary is to encode again)
    for combo in [(0, 0, 5), (3, 7, 7), (1, 2, 3), (25, 25, 4), (6, 6, 6, 11)]:
        for rooted in (True, False):
            base = dict(labels=K.LAB[:4], removed=[], trees=[tps[x] for x in combo], weights=None, rooted=rooted, edited_after_encoding=True)
            for route in FREQ_ROUTES:
                c = dict(base)
                c.update(what="freq", route=route)
                add(c, True)
            for route in CON_ROUTES[:3]:
                c = dict(base)
                c.update(what="consensus", route=route, th=GTH)
                add(c, True)
    # weights present but switched off (use_tree_weights=False), every route
    for combo, ws in [((0, 0, 5), [2, 1, 1]), ((3, 7, 7), [0.5, 2, None]), ((1, 2), [2, 0.5]), ((4, 4, 9, 9), [2, 2, 1, 0.5])]:
        for rooted in (True, False):
            base = dict(labels=K.LAB[:4], removed=[], trees=[tps[x] for x in combo], weights=ws, rooted=rooted, use_tree_weights=False)
            for route in FREQ_ROUTES:
                c = dict(base)
                c.update(what="freq", route=route)
                add(c, True)
            for route in CON_ROUTES[:3]:
                c = dict(base)
                c.update(what="consensus", route=route, th=GTH)
                add(c, True)
    # a unifurcating root on an unrooted tree (what "((...));" gives when read)
    for combo, below in [((0,), False), ((0, 5), False), ((3, 7, 7), False), ((1, 1), True), ((8, 2, 2), True)]:
        if below:  # ... or on a child of a bifurcating root: (X,((Y)))
            tt = [[None, None, [["E", None, []], [None, None, [tps[x]]]]] for x in combo]
            labels = K.LAB[:5]
        else:
            tt = [[None, None, [tps[x]]] for x in combo]
            labels = K.LAB[:4]
        base = dict(labels=labels, removed=[], trees=tt, weights=None, rooted=False)
        for route in ("TreeList.split_distribution", "TreeArray"):
            c = dict(base)
            c.update(what="freq", route=route)
            add(c, True)
        c = dict(base)
        c.update(what="consensus", route="TreeList.consensus", th=GTH)
        add(c, True)
    # the legacy summarizer on trees without edge lengths
    for combo in [(0, 0, 5), (3, 7, 7)]:
        for rooted in (True, False):
            for ln in (None, 1.0):
                c = dict(labels=K.LAB[:4], removed=[], trees=[K.with_lengths(tps[x], ln) for x in combo], weights=None, rooted=rooted,
                         what="consensus", route="treesum.consensus_tree", th=GTH)
                add(c, True)
    return items


# ----------------------------------------------------------------------------- driver
def t2(ctx):
    quick = ctx.tier == "quick"
    rep = K.Reporter(ctx)

    def run(scope, rule, exhaustive, fn, items, chunk=20):
        import time
        t0 = time.time()
        ctx.scope(scope, rule=rule, exhaustive=exhaustive)
        for res in K.run_chunks(fn, items, chunk=chunk):
            rep.add(res)
        ctx.note("scope %s: %d evaluations in %.1f s" % (scope, ctx.scopes[scope]["evaluations"], time.time() - t0))

    kmax = 3 if quick else 4
    run("topologies@n4,k<=%d" % kmax,
        "every multiset of 1..%d of the 26 rooted labelled topologies on 4 leaves x {rooted, unrooted} x one of 5 weight "
        "patterns over {None,1,2,1/2} (by index) -> frequencies (2 routes incl. incremental/cache), consensus at 10 thresholds "
        "(0.2,1/4,1/3,1/2,1/2+ulp,default,0.6,2/3,3/4,1; 4 routes in rotation; 4-tree multisets: every second threshold), MCCT (4 routes); "
        "non-trivial = >=2 trees" % kmax,
        True, eval_topology_sample, gen_exhaustive(4, kmax, "topologies@n4,k<=%d" % kmax))
    run("topologies@n3,k<=3", "every multiset of 1..3 of the 4 rooted labelled topologies on 3 leaves x both rootings, all routes; "
        "non-trivial = none (3 leaves have no non-trivial unrooted split)", True, eval_topology_sample,
        [dict(s, all_routes=True) for s in gen_exhaustive(3, 3, "topologies@n3,k<=3")])
    nrand = 600 if quick else 6000
    run("random@n5-7", "seeded random samples of 2-5 trees on 5-7 leaves (polytomies), both rootings, weight patterns; same checks; "
        "non-trivial = all", False, eval_topology_sample, gen_random(rng_for(ctx, 51), nrand, "random@n5-7"))
    run("random@n5-7,unifurcations", "as random@n5-7 with unifurcations inserted (frequencies/consensus/MCCT only)", False,
        eval_topology_sample, gen_random(rng_for(ctx, 52), nrand // 3, "random@n5-7,unifurcations", p_unif=0.15))
    run("random@removed-taxa", "as random@n5-7 over namespaces of n+2 taxa from which 1-2 were removed (bit gaps), all routes", False,
        eval_topology_sample, gen_random(rng_for(ctx, 53), nrand // 3, "random@removed-taxa", nmin=4, nmax=6, removed=True, all_routes=True))
    nlen = 150 if quick else 1500
    run("lengths@n4-6", "seeded random samples of 2-5 trees on 4-6 leaves with dyadic/integer/unit edge lengths: summaries on the "
        "consensus and on 3 explicit targets (one with missing lengths) under 9 settings x 2 routes; collapse at 10 thresholds x targets",
        False, eval_length_sample, gen_lengths(rng_for(ctx, 54), nlen, "lengths@n4-6"), chunk=5)
    run("ages@n4-6", "seeded random rooted ultrametric samples (dyadic node ages): node-age summaries and mean-age/median-age edge lengths",
        False, eval_length_sample, gen_lengths(rng_for(ctx, 55), nlen, "ages@n4-6", ultrametric=True), chunk=5)
    run("corner", "1-3 leaves, single-leaf-under-unifurcation, undefined rooting, use_tree_weights=False on every route; "
        "non-trivial = the 4-leaf cases", True, eval_single, gen_corner())
    rep.finish()


def replay(ctx, rec):
    case = rec["witness"]["case"]
    fails = run_case(case)
    for mon, detail in fails:
        print("  %s :: %s" % (mon, detail))
    return not any(mon == rec["obligation"] for mon, _ in fails)
