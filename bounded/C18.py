"""C18 (T2) -- simulated trees meet their specification for every seed and are reproducible.

One evaluation = one (simulator, parameters, seed): the real simulator is called twice from
`random.Random(seed)` on freshly built, equal arguments -- the second time with the global
generators (`dendropy.utility.GLOBAL_RNG` and the `random` module) put into a different state --
and the first result is examined by the independent predicates of specs/simtrees.py.

Monitors (name = <simulator>.<clause>)
  .raises / .terminates   no exception (repeat_until_success is the default), returns within 30 s
  .exact_N                exactly N leaves (extinct lineages pruned)
  .distinct_taxa          every leaf has a taxon, all distinct objects with distinct labels (as many leaves as taxa in the
                          namespace for the coalescent simulators: exactly one leaf per taxon)
  .taxa_in_namespace      every leaf taxon is a member (by identity) of tree.taxon_namespace
  .namespace              a supplied namespace is the tree's namespace; taxa are taken from it and new ones are
                          created only when it has fewer than N (the documented rule)
  .bifurcating            every internal node has exactly two children
  .well_formed            specs.trees.arborescence_errors is empty
  .equidistant            all root-to-tip distances agree to relative 1e-9 (gene trees: when the containing tree
                          is ultrametric)
  .containment            genes of different species never join before the species' divergence
  .deterministic          the two runs give identical dumps (rooting, namespace order, ordered topology, taxon
                          labels, exact edge lengths)
  .global_rng_untouched   the state of GLOBAL_RNG and of the `random` module is the same after the call
  contained_coalescent_tree.reproducible_fresh_args   the same, with the arguments rebuilt (equal labels, equal
                          insertion order) instead of reused: the result must not depend on object identity

Scope notes: birth-death trees are checked for the tip-count stopping rule without gsa_ntax and with extinct
lineages pruned, as the property says; the other stopping rules / options, discrete_birth_death_tree and the
random-variate helpers are only checked for determinism and for leaving the global generators alone (exceptions
raised there are recorded as notes, not as violations).
"""
import json
import random as _random

import dendropy
from dendropy.utility import GLOBAL_RNG
from dendropy.model import birthdeath, coalescent
from dendropy.simulate import treesim
from dendropy.calculate import probability
from dendropy.utility import error as dperror

from bounded.common import *  # noqa: F401,F403
from specs import trees as S
from specs import simtrees as T

CALL_LIMIT = 30


# ----------------------------------------------------------------------------- running
_KEEP = []


def two_runs(invoke, seed):
    outs, touched = [], None
    for k, (g1, g2) in enumerate(((1001, 2002), (3003, 4004))):
        if k == 1:
            # the second run builds its arguments at other addresses (objects of varying number kept alive in between): a result that
            # depends on the iteration order of a set of identity-hashed objects is not a function of the arguments and the generator state
            del _KEEP[:]
            _KEEP.append([dendropy.Taxon(label="pad") for _ in range(1 + (seed * 7) % 53)])
            _KEEP.append([object() for _ in range((seed * 13) % 101)])
        GLOBAL_RNG.seed(g1)
        _random.seed(g2)
        rng = _random.Random(seed)
        before = (GLOBAL_RNG.getstate(), _random.getstate())
        try:
            with time_limit(CALL_LIMIT):
                o = ("ok", invoke(rng))
        except Timeout:
            o = ("timeout", None)
        except Exception as e:  # judged by the caller
            o = ("exc", e)
        after = (GLOBAL_RNG.getstate(), _random.getstate())
        if k == 0:
            touched = []
            if before[0] != after[0]:
                touched.append("dendropy.utility.GLOBAL_RNG")
            if before[1] != after[1]:
                touched.append("the random module's generator")
        outs.append(o)
    return outs, touched


def _exc(e):
    return "%s: %s" % (type(e).__name__, str(e).split("\n")[0][:160])


def outcome_dump(o, dumper):
    if o[0] == "ok":
        return dumper(o[1])
    if o[0] == "exc":
        return "EXC " + _exc(o[1])
    return "TIMEOUT"


def common_monitors(name, outs, touched, dumper, allow_exc=()):
    """determinism + global generator + exceptions; returns (fails, first result or None)"""
    fails = []
    a, b = outs
    if a[0] == "timeout" or b[0] == "timeout":
        fails.append((name + ".terminates", "no result within %d s" % CALL_LIMIT))
        return fails, None
    if a[0] == "exc" and not isinstance(a[1], tuple(allow_exc)):
        fails.append((name + ".raises", _exc(a[1])))
    da, db = outcome_dump(a, dumper), outcome_dump(b, dumper)
    if da != db:
        fails.append((name + ".deterministic", "two runs from random.Random(seed) on equal arguments differ (only the global generators "
                                                "were in different states): %s  VERSUS  %s" % (da[:300], db[:300])))
    if touched:
        fails.append((name + ".global_rng_untouched", "the call changed the state of " + " and ".join(touched)))
    return fails, (a[1] if a[0] == "ok" else None)


# ----------------------------------------------------------------------------- tree predicates
def structure_monitors(name, tree, n_expected, fails, need_equidistant=True, bifurcating=True):
    root = tree._seed_node
    lv = T.leaves(root)
    if n_expected is not None and len(lv) != n_expected:
        fails.append((name + ".exact_N", "%d leaves, required %d" % (len(lv), n_expected)))
    errs = S.arborescence_errors(tree)
    if errs:
        fails.append((name + ".well_formed", "; ".join(errs[:3])))
        return
    if bifurcating:
        nb = T.non_bifurcating_nodes(root)
        if nb:
            fails.append((name + ".bifurcating", "%d internal node(s) with %s children" % (len(nb), sorted(set(len(n._child_nodes) for n in nb)))))
    if need_equidistant:
        ok, lo, hi = T.equidistant(root)
        if not ok:
            fails.append((name + ".equidistant", "root-to-tip distances range from %r to %r" % (lo, hi)))


def taxa_monitors(name, tree, fails, exactly_namespace=False):
    lv = T.leaves(tree._seed_node)
    ns_ids = set(id(t) for t in tree.taxon_namespace)
    tx = [l.taxon for l in lv]
    msg = None
    if any(t is None for t in tx):
        msg = "%d leaf/leaves without a taxon" % sum(1 for t in tx if t is None)
    elif len(set(id(t) for t in tx)) != len(tx):
        msg = "two leaves carry the same taxon: %r" % sorted(t.label for t in tx)
    elif len(set(t.label for t in tx)) != len(tx):
        msg = "two leaf taxa carry the same label: %r" % sorted(t.label for t in tx)
    elif exactly_namespace and len(tx) != len(ns_ids):
        msg = "%d leaves for %d taxa in the namespace" % (len(tx), len(ns_ids))
    if msg:
        fails.append((name + ".distinct_taxa", msg))
    elif any(id(t) not in ns_ids for t in tx):
        fails.append((name + ".taxa_in_namespace", "leaf taxa that are not members (by identity) of tree.taxon_namespace: %r; the namespace holds %r"
                      % (sorted(t.label for t in tx if id(t) not in ns_ids), [t.label for t in tree.taxon_namespace])))


# ----------------------------------------------------------------------------- namespaces
def ns_make(variant, N):
    if variant == "none":
        return None
    if variant == "exact":
        labels = ["S%d" % i for i in range(1, N + 1)]
    elif variant == "bigger":
        labels = ["S%d" % i for i in range(1, N + 4)]
    elif variant == "smaller":
        labels = ["S%d" % i for i in range(1, max(N - 2, 1) + 1)] if N > 1 else []
    elif variant == "empty":
        labels = []
    elif variant == "tlabels":
        labels = ["T2", "T1", "T4"]
    elif variant == "tlower":
        labels = ["t2", "t1", "t4"]   # the labels the simulators generate (T1, T2, ...) differ from these in case only: still the same labels to the namespace
    elif variant == "renamed":
        # a namespace with a history: T3 was looked up by label and has been renamed since (the simulators name new taxa T1, T2, ...)
        ns = dendropy.TaxonNamespace(["T1", "T2", "T3"])
        ns.get_taxon("T3").label = "outgroup"
        return ns
    else:
        raise KeyError(variant)
    return dendropy.TaxonNamespace(labels)


NS_VARIANTS = ["none", "exact", "bigger", "smaller", "empty", "tlabels", "renamed", "tlower"]


# ----------------------------------------------------------------------------- kind: bd
BD_SIMS = {"birth_death_tree": treesim.birth_death_tree, "fast_birth_death_tree": birthdeath.fast_birth_death_tree}


def eval_bd(cfg, seed):
    name = cfg["sim"]
    f = BD_SIMS[name]
    N = cfg["N"]

    def invoke(rng):
        ns = ns_make(cfg["ns"], N)
        pre = list(ns) if ns is not None else None
        kw = dict(birth_rate=cfg["b"], death_rate=cfg["d"], num_extant_tips=N, rng=rng)
        if ns is not None:
            kw["taxon_namespace"] = ns
        return (f(**kw), ns, pre)

    outs, touched = two_runs(invoke, seed)
    fails, res = common_monitors(name, outs, touched, lambda r: T.tree_dump(r[0]))
    if res is None:
        return fails
    tree, ns, pre = res
    structure_monitors(name, tree, N, fails)
    taxa_monitors(name, tree, fails)
    lv = T.leaves(tree._seed_node)
    msg = None
    if ns is not None:
        if tree.taxon_namespace is not ns:
            msg = "the supplied namespace is not the tree's namespace"
        elif len(pre) >= N and [id(t) for t in ns] != [id(t) for t in pre]:
            msg = "namespace had %d >= N taxa but was changed to %r" % (len(pre), [t.label for t in ns])
        elif len(pre) < N and (len(ns) != N or not set(id(t) for t in pre) <= set(id(l.taxon) for l in lv)):
            msg = "namespace had %d < N=%d taxa; afterwards it has %d and the leaves use %d of the original ones" % (
                len(pre), N, len(ns), len(set(id(t) for t in pre) & set(id(l.taxon) for l in lv)))
    elif len(tree.taxon_namespace) != N:
        msg = "no namespace supplied: the new namespace has %d taxa for N=%d" % (len(tree.taxon_namespace), N)
    if msg:
        fails.append((name + ".namespace", msg))
    return fails


# ----------------------------------------------------------------------------- kind: bdopt (determinism only)
def eval_bdopt(cfg, seed):
    name = cfg["sim"]
    f = {"birth_death_tree": treesim.birth_death_tree, "fast_birth_death_tree": birthdeath.fast_birth_death_tree,
         "discrete_birth_death_tree": treesim.discrete_birth_death_tree}[name]

    def invoke(rng):
        kw = dict(cfg["kw"])
        ns = kw.pop("ns", None)
        if ns is not None:
            kw["taxon_namespace"] = dendropy.TaxonNamespace(["S%d" % i for i in range(1, ns + 1)])
        kw["rng"] = rng
        return f(cfg["b"], cfg["d"], **kw)

    outs, touched = two_runs(invoke, seed)
    # Outside the property's quantifier (other stopping rules, GSA, retained extinct tips, the discrete-time simulator):
    # only determinism and the global generators are judged.  Exceptions other than the documented total-extinction
    # error are passed on as observations ("NOTE:" entries become ctx.note lines, not violations).
    fails, _ = common_monitors(name, outs, touched, T.tree_dump, allow_exc=(Exception,))
    a = outs[0]
    if a[0] == "exc" and not isinstance(a[1], dperror.TreeSimTotalExtinctionException):
        fails.append(("NOTE:" + name + ".raises", _exc(a[1])))
    return fails


# ----------------------------------------------------------------------------- kind: upb
def eval_upb(cfg, seed):
    name = "uniform_pure_birth_tree"
    n = cfg["n"]

    def invoke(rng):
        ns = dendropy.TaxonNamespace(["S%d" % i for i in range(1, n + 1)])
        if cfg["rate"] == "default":
            return treesim.uniform_pure_birth_tree(ns, rng=rng), ns
        return treesim.uniform_pure_birth_tree(ns, cfg["rate"], rng), ns

    outs, touched = two_runs(invoke, seed)
    fails, res = common_monitors(name, outs, touched, lambda r: T.tree_dump(r[0]))
    if res is None:
        return fails
    tree, ns = res
    structure_monitors(name, tree, n, fails)
    taxa_monitors(name, tree, fails, exactly_namespace=True)
    if tree.taxon_namespace is not ns or len(ns) != n:
        fails.append((name + ".namespace", "the supplied namespace is not the tree's namespace or was resized to %d" % len(ns)))
    return fails


# ----------------------------------------------------------------------------- kind: kingman
def eval_kingman(cfg, seed):
    name = cfg["fn"]
    n = cfg["n"]
    f = getattr(treesim, name, None) or getattr(coalescent, name)

    def invoke(rng):
        kw = {"rng": rng}
        if cfg["pop"] != "default":
            kw["pop_size"] = cfg["pop"]
        if name == "pure_kingman_tree_shape":
            return f(n, **kw), None
        ns = dendropy.TaxonNamespace(["S%d" % i for i in range(1, n + 1)])
        return f(ns, **kw), ns

    outs, touched = two_runs(invoke, seed)
    fails, res = common_monitors(name, outs, touched, lambda r: T.tree_dump(r[0]))
    if res is None:
        return fails
    tree, ns = res
    structure_monitors(name, tree, n, fails)
    if ns is not None:
        taxa_monitors(name, tree, fails, exactly_namespace=True)
        if tree.taxon_namespace is not ns or len(ns) != n:
            fails.append((name + ".namespace", "the supplied namespace is not the tree's namespace or was resized to %d" % len(ns)))
    return fails


# ----------------------------------------------------------------------------- species trees
def _tup(x):
    return tuple(_tup(c) for c in x)


def sp_lengths(shape, kind):
    """'ultra': exactly ultrametric dyadic; 'plain': dyadic, not ultrametric; 'zero': ultrametric with zero-length internal edges"""
    if kind == "plain":
        return [None] + [[0.5, 1.25, 2.0, 0.75, 3.5, 1.0, 0.25][i % 7] for i in range(1, n_nodes(shape))]
    inc = (lambda i: [0.5, 1.25, 2.0, 0.75][i % 4]) if kind == "ultra" else (lambda i: 0.0 if i % 2 else 1.5)
    ages, order, counter = {}, [], [0]

    def rec(s, parent):
        idx = counter[0]
        counter[0] += 1
        order.append((idx, parent))
        ca = [rec(c, idx) for c in s]
        ages[idx] = 0.0 if s == () else max(ca) + inc(idx)
        if s != () and kind == "zero" and ages[idx] == 0.0:
            ages[idx] = 1.0
        return ages[idx]

    rec(shape, None)
    ls = [None] * counter[0]
    for idx, parent in order:
        if parent is not None:
            ls[idx] = ages[parent] - ages[idx]
    return ls


def mk_species(desc, pop=None):
    ls = desc["lengths"]
    t = build_tree(_tup(desc["shape"]), lengths=lambda i, leaf: ls[i], rooted=True)
    if ls[0] is not None:
        t._seed_node.edge.length = ls[0]   # build_tree leaves the root edge alone
    if pop == "edge_attr":
        for i, n in enumerate(S.pre(t._seed_node)):
            n._edge.pop_size = [0.5, 2, 10][i % 3]
    return t


def gene_species_fn(species_tree):
    by_label = dict((l.taxon.label, l) for l in T.leaves(species_tree._seed_node))
    return lambda g: by_label[g.taxon.label.split("^")[0]]


def genes_list(genes, nsp):
    if genes == "mixed":
        return [[1, 2, 3][i % 3] for i in range(nsp)]
    return [genes] * nsp


def gene_tree_monitors(name, gtree, sptree, desc, n_expected, fails, species_of=None):
    ultra = desc["kind"] != "plain"
    structure_monitors(name, gtree, n_expected, fails, need_equidistant=ultra)
    taxa_monitors(name, gtree, fails, exactly_namespace=True)
    if any(name + c in [m for m, _ in fails] for c in (".well_formed", ".distinct_taxa")) or any(l.taxon is None for l in T.leaves(gtree._seed_node)):
        return
    bad = T.containment_violations(gtree._seed_node, sptree._seed_node, species_of or gene_species_fn(sptree))
    if bad:
        g1, g2, dg, ds = bad[0]
        fails.append((name + ".containment", "genes %s and %s join after %r (along each lineage) but their species diverged %r ago"
                      % (g1.taxon.label, g2.taxon.label, dg, ds)))


# ----------------------------------------------------------------------------- kind: contained
def _contained_args(cfg):
    sp = mk_species(cfg["sp"], cfg["pop"])
    nsp = len(T.leaves(sp._seed_node))
    m = dendropy.TaxonNamespaceMapping.create_contained_taxon_mapping(
        sp.taxon_namespace, genes_list(cfg["genes"], nsp), contained_taxon_label_fn=lambda t, i: "%s^%d" % (t.label, i + 1))
    kw = {}
    if cfg["pop"] == "default_pop_size":
        kw["default_pop_size"] = 4
    elif cfg["pop"] == "attr_none":
        kw["edge_pop_size_attr"] = None
        kw["default_pop_size"] = 2
    return sp, m, kw


def eval_contained(cfg, seed):
    name = "contained_coalescent_tree"
    built = []

    def invoke(rng):
        # every run builds its own (equal) arguments, at other addresses: equal arguments and equal generator states, identical trees
        sp, m, kw = _contained_args(cfg)
        built.append((sp, m))
        return treesim.contained_coalescent_tree(sp, m, rng=rng, **kw)

    outs, touched = two_runs(invoke, seed)
    fails, gtree = common_monitors(name, outs, touched, T.tree_dump)
    if gtree is None:
        return fails
    sp, m = built[0]   # (the tree handed back by common_monitors is the first run's)
    nsp = len(T.leaves(sp._seed_node))
    gene_tree_monitors(name, gtree, sp, cfg["sp"], sum(genes_list(cfg["genes"], nsp)), fails)
    if gtree.taxon_namespace is not m.domain_taxon_namespace:
        fails.append((name + ".namespace", "the gene tree does not use the mapping's domain namespace"))
    return fails


def eval_containing(cfg, seed):
    """the same clause through reconcile.ContainingTree.simulate_contained_kingman (the species tree wrapped as a containing tree)"""
    from dendropy.model import reconcile
    name = "ContainingTree.simulate_contained_kingman"
    sp, m, kw = _contained_args(cfg)
    ct = reconcile.ContainingTree(containing_tree=sp, contained_taxon_namespace=m.domain_taxon_namespace,
                                  contained_to_containing_taxon_map=m, fit_containing_edge_lengths=False)

    species_of = None
    if cfg.get("remap"):
        # the genes are re-assigned to the NEXT species (in leaf order) after construction: the simulation follows the map it has NOW
        name += "@remapped"
        sp_leaves = [l.taxon for l in T.leaves(ct._seed_node)]
        by_label = dict((t.label, i) for i, t in enumerate(sp_leaves))
        new_map = dict((g, sp_leaves[(by_label[g.label.split("^")[0]] + 1) % len(sp_leaves)]) for g in m.domain_taxon_namespace)
        ct.contained_to_containing_taxon_map = new_map
        leaf_of = dict((l.taxon, l) for l in T.leaves(ct._seed_node))
        species_of = lambda g: leaf_of[new_map[g.taxon]]

    built = []

    def invoke(rng):
        if cfg.get("remap"):
            return ct.simulate_contained_kingman(rng=rng, **kw)
        # every run builds its own (equal) arguments: equal arguments and equal generator states must give identical trees
        sp2, m2, kw2 = _contained_args(cfg)
        ct2 = reconcile.ContainingTree(containing_tree=sp2, contained_taxon_namespace=m2.domain_taxon_namespace,
                                       contained_to_containing_taxon_map=m2, fit_containing_edge_lengths=False)
        built.append((sp2, m2, ct2))
        return ct2.simulate_contained_kingman(rng=rng, **kw2)

    outs, touched = two_runs(invoke, seed)
    fails, gtree = common_monitors(name, outs, touched, T.tree_dump)
    if gtree is None:
        return fails
    if built:
        sp, m, ct = built[0]
    nsp = len(T.leaves(sp._seed_node))
    gene_tree_monitors(name, gtree, ct, cfg["sp"], sum(genes_list(cfg["genes"], nsp)), fails, species_of=species_of)
    return fails


FRESH_TRIES = 12


def eval_contained_fresh(cfg, seed):
    """equal arguments rebuilt from scratch (same labels, same insertion order) for every run"""
    name = "contained_coalescent_tree"
    keep, dumps = [], []
    for k in range(FRESH_TRIES):
        sp, m, kw = _contained_args(cfg)
        keep.append((sp, m))  # keep alive so that the next objects get other addresses
        try:
            with time_limit(CALL_LIMIT):
                d = T.tree_dump(treesim.contained_coalescent_tree(sp, m, rng=_random.Random(seed), **kw))
        except Exception as e:
            d = "EXC " + _exc(e)
        dumps.append(d)
        if d != dumps[0]:
            return [(name + ".reproducible_fresh_args",
                     "run 1 and run %d from random.Random(%d) on arguments rebuilt with equal content differ: %s  VERSUS  %s"
                     % (k + 1, seed, dumps[0][:300], d[:300]))]
    return []


# ----------------------------------------------------------------------------- kind: constrained
def eval_constrained(cfg, seed):
    name = "constrained_kingman_tree"

    def invoke(rng):
        sp = mk_species(cfg["sp"], cfg["pop"])
        lv = T.leaves(sp._seed_node)
        kw = dict(rng=rng, gene_node_label_fn=lambda x, y: "%s^%d" % (x, y), gene_sampling_strategy=cfg["strategy"])
        if cfg["num_genes"] is not None:
            kw["num_genes"] = cfg["num_genes"]
        if cfg["strategy"] == "node_attribute":
            for i, l in enumerate(lv):
                l.num_genes = [1, 2, 3][i % 3]
        if cfg["decorate"]:
            kw["decorate_original_tree"] = True
        tl = None
        if cfg["with_list"]:
            tl = dendropy.TreeList()
            kw["gene_tree_list"] = tl
        r = treesim.constrained_kingman_tree(sp, **kw)
        return r, sp, tl

    outs, touched = two_runs(invoke, seed)
    fails, res = common_monitors(name, outs, touched, lambda r: T.tree_dump(r[0][0]))
    if res is None:
        return fails
    (gtree, wtree), sp, tl = res
    nsp = len(T.leaves(sp._seed_node))
    if cfg["strategy"] == "fixed_per_population":
        n = cfg["num_genes"] * nsp
    elif cfg["strategy"] == "node_attribute":
        n = sum([1, 2, 3][i % 3] for i in range(nsp))
    else:
        n = cfg["num_genes"] if cfg["num_genes"] is not None else nsp
    gene_tree_monitors(name, gtree, sp, cfg["sp"], n, fails)
    if cfg["strategy"] != "random_uniform":
        per = {}
        for l in T.leaves(gtree._seed_node):
            if l.taxon is not None:
                k = l.taxon.label.split("^")[0]
                per[k] = per.get(k, 0) + 1
        want = dict((l.taxon.label, (cfg["num_genes"] if cfg["strategy"] == "fixed_per_population" else [1, 2, 3][i % 3]))
                    for i, l in enumerate(T.leaves(sp._seed_node)))
        if per != want:
            fails.append((name + ".genes_per_species", "genes per species %r, required %r" % (per, want)))
    if tl is not None and (len(tl) != 1 or tl[0] is not gtree or gtree.taxon_namespace is not tl.taxon_namespace):
        fails.append((name + ".namespace", "gene tree not appended to the supplied TreeList / not in its namespace"))
    return fails


# ----------------------------------------------------------------------------- kind: helper
def _nodes_dump(nodes):
    return json.dumps([T.node_dump(n) for n in nodes])


def _h_coalesce(period):
    def f(rng):
        nodes = [dendropy.Node(label="n%d" % i) for i in range(6)]
        kw = {} if period is None else {"period": period}
        return _nodes_dump(coalescent.coalesce_nodes(nodes, pop_size=2, rng=rng, **kw))
    return f


def _h_assign(rng):
    t = build_tree(((), ((), ()), ((), (), ())), ns=dendropy.TaxonNamespace(["A", "B", "C", "D", "E", "F", "G", "H"]), leaf_taxa=[None] * 6)
    t.randomly_assign_taxa(rng=rng)
    return T.tree_dump(t)


HELPERS = {
    "time_to_coalescence": lambda rng: repr(coalescent.time_to_coalescence(5, pop_size=10, rng=rng)),
    "time_to_coalescence/3": lambda rng: repr(coalescent.time_to_coalescence(7, None, 3, rng)),
    "discrete_time_to_coalescence": lambda rng: repr(coalescent.discrete_time_to_coalescence(10, pop_size=5, rng=rng)),
    "discrete_time_to_coalescence/3": lambda rng: repr(coalescent.discrete_time_to_coalescence(12, 11, 3, rng)),
    "coalesce_nodes": _h_coalesce(None),
    "coalesce_nodes/period": _h_coalesce(0.25),
    "binomial_rv": lambda rng: repr(probability.binomial_rv(10, 0.3, rng)),
    "poisson_rv": lambda rng: repr(probability.poisson_rv(3.0, rng)),
    "num_poisson_events": lambda rng: repr(probability.num_poisson_events(2.0, 3.0, rng)),
    "sample_multinomial": lambda rng: repr(probability.sample_multinomial([0.2, 0.3, 0.5], rng)),
    "weighted_choice": lambda rng: repr(probability.weighted_choice("abc", [0.2, 0.3, 0.5], rng)),
    "weighted_choice/short": lambda rng: repr(probability.weighted_choice("abc", [0.2, 0.3], rng)),
    "weighted_index_choice": lambda rng: repr(probability.weighted_index_choice([2, 3, 5], rng)),
    "geometric_rv": lambda rng: repr(probability.geometric_rv(0.2, rng)),
    "Tree.randomly_assign_taxa": _h_assign,
}


def eval_helper(cfg, seed):
    name = cfg["fn"].split("/")[0]
    outs, touched = two_runs(HELPERS[cfg["fn"]], seed)
    fails, _ = common_monitors(name, outs, touched, lambda r: r)
    return fails


EVAL = {"bd": eval_bd, "bdopt": eval_bdopt, "upb": eval_upb, "kingman": eval_kingman, "contained": eval_contained,
        "contained_fresh": eval_contained_fresh, "constrained": eval_constrained, "helper": eval_helper, "containing": eval_containing}


def cfg_key(kind, cfg, seed=None):
    def short(v):
        if isinstance(v, dict) and "shape" in v:
            t = mk_species(v)
            return S.newick(t._seed_node)
        return json.dumps(v, sort_keys=True)
    k = "%s|%s" % (kind, "|".join("%s=%s" % (k, short(cfg[k])) for k in sorted(cfg)))
    return k if seed is None else "%s|seed=%d" % (k, seed)


def run_block(item):
    """-> (scope, kind, cfg, key prefix, nontrivial, [(seed, fails)])"""
    scope, kind, cfg, seeds, nontrivial = item
    return (scope, kind, cfg, cfg_key(kind, cfg), nontrivial, [(seed, EVAL[kind](cfg, seed)) for seed in seeds])


# ----------------------------------------------------------------------------- scopes
def species_descs(quick):
    out = []
    shapes = [s for s in shapes_upto(3 if quick else 4, 2)]
    shapes += [((((), ()), ()), ((), ())), ((), ((), ((), ((), ()))))] if quick else list(binary_shapes(5))[:6]
    shapes.append((((), ()), (((),), ())))  # with a unifurcation
    for s in shapes:
        for kind in ("ultra", "plain", "zero"):
            out.append({"shape": s, "lengths": sp_lengths(s, kind), "kind": kind})
        # a species tree whose root carries a branch length (newick "(...):0.25;", or a tree from birth_death_tree): the root
        # population is still open-ended
        ls = sp_lengths(s, "ultra")
        out.append({"shape": s, "lengths": [0.25] + ls[1:], "kind": "ultra+rootlength"})
    return out


def blocks(seq, n):
    seq = list(seq)
    return [seq[i:i + n] for i in range(0, len(seq), n)]


def gen_items(ctx):
    quick = ctx.tier != "thorough"
    items = []
    nseeds = 200 if quick else 2000
    # ---- birth-death, tip-count rule
    sc = "birth_death@seeds"
    Ns = [1, 2, 3, 4, 5, 6, 8, 12, 20] + ([] if quick else [35, 60])
    rates = [(1.0, 0.0), (0.3, 0.0), (1.0, 0.5), (1.0, 0.9), (2.0, 1.0), (0.1, 0.05)]
    ctx.scope(sc, "{birth_death_tree, fast_birth_death_tree} x (birth,death) in %r x num_extant_tips in %r x namespace in %r "
                  "(every combination for seeds < %d, rotating beyond) x seeds 0..%d; non-trivial = N >= 3"
              % (rates, Ns, NS_VARIANTS, 60 if quick else 400, nseeds - 1), exhaustive=False)
    full = 60 if quick else 400
    for sim in ("birth_death_tree", "fast_birth_death_tree"):
        for (b, d) in rates:
            for N in Ns:
                for vi, v in enumerate(NS_VARIANTS):
                    cfg = dict(sim=sim, b=b, d=d, N=N, ns=v)
                    seeds = [s for s in range(nseeds) if s < full or (s + N) % len(NS_VARIANTS) == vi]
                    if N >= 35:
                        seeds = seeds[:300]
                    for blk in blocks(seeds, 100):
                        items.append((sc, "bd", cfg, blk, N >= 3))
    # ---- other stopping rules / options: determinism only
    sc = "birth_death_options@seeds"
    ctx.scope(sc, "determinism and global-generator monitors only: gsa_ntax, num_total_tips, max_time, num_extinct_tips, retained extinct tips, "
                  "evolving rates, no taxon assignment, repeat_until_success=False, discrete_birth_death_tree x seeds 0..%d; non-trivial = all"
              % (nseeds // 4 - 1), exhaustive=False)
    opts = [
        ("birth_death_tree", 1.0, 0.5, dict(num_extant_tips=5, gsa_ntax=9)),
        ("fast_birth_death_tree", 1.0, 0.5, dict(num_extant_tips=5, gsa_ntax=9)),
        ("birth_death_tree", 1.0, 0.3, dict(num_total_tips=8)),
        ("fast_birth_death_tree", 1.0, 0.3, dict(num_total_tips=8)),
        ("birth_death_tree", 1.0, 0.2, dict(max_time=2.0)),
        ("fast_birth_death_tree", 1.0, 0.2, dict(max_time=2.0)),
        ("birth_death_tree", 1.0, 0.6, dict(num_extinct_tips=3)),
        ("birth_death_tree", 1.0, 0.5, dict(num_extant_tips=6, is_retain_extinct_tips=True, ns=4)),
        ("fast_birth_death_tree", 1.0, 0.5, dict(num_extant_tips=6, is_retain_extinct_tips=True, ns=4)),
        ("birth_death_tree", 1.0, 0.1, dict(num_extant_tips=6, birth_rate_sd=0.05, death_rate_sd=0.01)),
        ("birth_death_tree", 1.0, 0.5, dict(num_extant_tips=6, is_assign_extant_taxa=False, is_assign_extinct_taxa=False)),
        ("birth_death_tree", 1.0, 0.9, dict(num_extant_tips=6, repeat_until_success=False)),
        ("fast_birth_death_tree", 1.0, 0.9, dict(num_extant_tips=6, repeat_until_success=False)),
        ("discrete_birth_death_tree", 0.3, 0.1, dict(ntax=6, repeat_until_success=True)),
        ("discrete_birth_death_tree", 0.3, 0.1, dict(ns=5, repeat_until_success=True)),
        ("discrete_birth_death_tree", 0.2, 0.0, dict(max_time=6)),
    ]
    for sim, b, d, kw in opts:
        for blk in blocks(range(nseeds // 4), 50):
            items.append((sc, "bdopt", dict(sim=sim, b=b, d=d, kw=kw), blk, True))
    # more tips than taxa in the supplied namespace (documented: new taxa are created); three seeds; observation only
    items.append((sc, "bdopt", dict(sim="discrete_birth_death_tree", b=0.3, d=0.0, kw=dict(ntax=6, ns=2, repeat_until_success=True)), [0, 1, 2], True))
    # ---- pure birth
    sc = "uniform_pure_birth@seeds"
    sizes = [1, 2, 3, 4, 5, 6, 8, 12, 20]
    ctx.scope(sc, "uniform_pure_birth_tree x namespace size in %r x birth_rate in {default, 0.5, 3.0} x seeds 0..%d; non-trivial = size >= 3"
              % (sizes, nseeds - 1), exhaustive=False)
    for n in sizes:
        for rate in ("default", 0.5, 3.0):
            for blk in blocks(range(nseeds), 100):
                items.append((sc, "upb", dict(n=n, rate=rate), blk, n >= 3))
    # ---- Kingman
    sc = "kingman@seeds"
    pops = ["default", 1, None, 0, 0.5, 2, 1000]
    ctx.scope(sc, "{pure_kingman_tree, mean_kingman_tree, pure_kingman_tree_shape} x size in %r x pop_size in %r x seeds 0..%d; "
                  "non-trivial = size >= 3" % (sizes, pops, nseeds // 2 - 1), exhaustive=False)
    for fn in ("pure_kingman_tree", "mean_kingman_tree", "pure_kingman_tree_shape"):
        for n in sizes:
            for pop in pops:
                for blk in blocks(range(nseeds // 2), 100):
                    items.append((sc, "kingman", dict(fn=fn, n=n, pop=pop), blk, n >= 3))
    # ---- gene trees in species trees
    sps = species_descs(quick)
    gseeds = 40 if quick else 240
    sc = "contained@seeds"
    ctx.scope(sc, "contained_coalescent_tree x %d species trees (every shape with 2..%d leaves + some 5-leaf + one unifurcation; exactly ultrametric / "
                  "not ultrametric / zero-length internal edges) x genes per species in {1,2,3,mixed} x population sizes in {default, "
                  "default_pop_size=4, per-edge attribute, attribute disabled} x seeds 0..%d; non-trivial = >= 3 gene leaves"
              % (len(sps), 3 if quick else 4, gseeds - 1), exhaustive=False)
    for sp in sps:
        for genes in (1, 2, 3, "mixed"):
            for pop in ("default", "default_pop_size", "edge_attr", "attr_none"):
                cfg = dict(sp=sp, genes=genes, pop=pop)
                nl = n_leaves(_tup(sp["shape"]))
                items.append((sc, "contained", cfg, list(range(gseeds)), sum(genes_list(genes, nl)) >= 3))
    sc = "containing_tree@seeds"
    ctx.scope(sc, "reconcile.ContainingTree(species tree).simulate_contained_kingman x the same species trees x genes per species in {1,2,mixed} x "
                  "population sizes {default, default_pop_size=4} x seeds 0..%d; non-trivial = >= 3 gene leaves" % (gseeds // 2 - 1), exhaustive=False)
    for sp in sps:
        for genes in (1, 2, "mixed"):
            for pop in ("default", "default_pop_size"):
                cfg = dict(sp=sp, genes=genes, pop=pop)
                nl = n_leaves(_tup(sp["shape"]))
                items.append((sc, "containing", cfg, list(range(gseeds // 2)), sum(genes_list(genes, nl)) >= 3))
                if pop == "default" and genes in (2, "mixed"):
                    items.append((sc, "containing", dict(cfg, remap=True), list(range(gseeds // 4)), sum(genes_list(genes, nl)) >= 3))
    sc = "contained_fresh_args@seeds"
    ctx.scope(sc, "contained_coalescent_tree on arguments rebuilt with equal content for each of %d runs, 2 fixed species trees x 4 genes per species "
                  "x seeds 0..1; non-trivial = all" % FRESH_TRIES, exhaustive=False)
    for sp in (sps[0], sps[3]):
        items.append((sc, "contained_fresh", dict(sp=sp, genes=4, pop="default"), [0, 1], True))
    sc = "constrained_kingman@seeds"
    ctx.scope(sc, "constrained_kingman_tree x the same species trees x strategy {random_uniform (num_genes None, 1, 2n), fixed_per_population (1,2,3), "
                  "node_attribute} x population sizes {none, per-edge attribute} x decorate_original_tree x gene_tree_list given or not x seeds 0..%d; "
                  "non-trivial = >= 3 gene leaves" % (gseeds // 2 - 1), exhaustive=False)
    for si, sp in enumerate(sps):
        nl = n_leaves(_tup(sp["shape"]))
        strat = [("random_uniform", None), ("random_uniform", 1), ("random_uniform", 2 * nl), ("fixed_per_population", 1),
                 ("fixed_per_population", 2), ("fixed_per_population", 3), ("node_attribute", None)]
        for st, ng in strat:
            for pi, pop in enumerate(("default", "edge_attr")):
                for dec in (False, True):
                    for wl in (False, True):
                        if (si + pi + dec + wl) % 2 and not (st == "fixed_per_population" and ng == 2):
                            continue
                        cfg = dict(sp=sp, strategy=st, num_genes=ng, pop=pop, decorate=dec, with_list=wl)
                        items.append((sc, "constrained", cfg, list(range(gseeds // 2)), True))
    # ---- helpers
    sc = "helpers@seeds"
    ctx.scope(sc, "coalescent.time_to_coalescence / discrete_time_to_coalescence / coalesce_nodes, probability.* random variates, "
                  "Tree.randomly_assign_taxa: determinism and global-generator monitors x seeds 0..%d; "
                  "non-trivial = all" % (nseeds // 4 - 1), exhaustive=False)
    for fn in sorted(HELPERS):
        seeds = list(range(nseeds // 4))
        items.append((sc, "helper", dict(fn=fn), seeds, True))
    return items


PER_CFG = 1  # witnesses reported per (monitor, parameter setting); further failing seeds are counted in a note


def t2(ctx):
    items = gen_items(ctx)
    seen, extra, observed = {}, {}, {}
    for scope, kind, cfg, prefix, nontrivial, results in pmap(run_block, items, chunksize=4):
        for seed, fails in results:
            key = "%s|seed=%d" % (prefix, seed)
            ctx.case(scope, key, nontrivial=nontrivial, sample=key)
            for mon, detail in fails:
                if mon.startswith("NOTE:"):
                    observed.setdefault((mon[5:], prefix, detail), []).append(seed)
                    continue
                k = (mon, prefix)
                seen[k] = seen.get(k, 0) + 1
                if seen[k] > PER_CFG:
                    extra[mon] = extra.get(mon, 0) + 1
                    continue
                ctx.fail(mon, {"key": key, "kind": kind, "cfg": cfg, "seed": seed, "scope": scope}, detail=detail)
    for (mon, prefix, detail), seeds in sorted(observed.items()):
        ctx.note("outside the property's quantifier, not judged: %s on %s for %d seed(s), first %d: %s" % (mon, prefix, len(seeds), seeds[0], detail))
        print("  (not judged, outside the quantifier: %s %s seeds %r...: %s)" % (mon, prefix, seeds[:3], detail))
    for mon in sorted(extra):
        ctx.note("%s: %d further failing seeds not listed (the first %d seeds of each parameter setting are)" % (mon, extra[mon], PER_CFG))
        print("  (%s: %d further failing seeds of already reported parameter settings)" % (mon, extra[mon]))
    ctx.note("probability.poisson_rv(rate > 64, rng) recurses without forwarding rng (draws from GLOBAL_RNG); it is not called by any tree "
             "simulator and is outside the property's observation points, so it is recorded here and not judged")


def replay(ctx, rec):
    w = rec["witness"]
    fails = EVAL[w["kind"]](w["cfg"], w["seed"])
    for mon, detail in fails:
        print("  %s :: %s" % (mon, detail))
    return not any(mon == rec["obligation"] for mon, _ in fails)
