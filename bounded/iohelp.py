"""Helpers shared by the I/O drivers C02 / C13 / C20 (test-input construction and a
crash/hang-proof process pool; no oracles live here)."""
import json
import os
import select
import signal
import sys
import time
import traceback

from dendropy.datamodel.treemodel import Node, Tree
from dendropy.datamodel.treecollectionmodel import TreeList
from dendropy.datamodel.taxonmodel import TaxonNamespace


# ----------------------------------------------------------------------------- building from plain specs
def build_doc(doc):
    """doc = {"ns": [labels], "trees": [plain tree,...]} (see specs/treeio.py) ->
    (TaxonNamespace, [Tree,...]) built through the Node API only (no parser)."""
    ns = TaxonNamespace()
    by = {}
    # optional doc["ns_all"]: labels created first, those not in doc["ns"] are removed again
    # (namespace with removed taxa: accession indices are no longer list positions)
    for lab in doc.get("ns_all") or doc["ns"]:
        by[lab] = ns.new_taxon(label=lab)
    for lab in doc.get("ns_all") or []:
        if lab not in doc["ns"]:
            ns.remove_taxon(by.pop(lab))
    assert [t.label for t in ns._taxa] == list(doc["ns"]), "ns_all must list doc['ns'] in order"
    trees = []

    def mk(n):
        nd = Node()
        if n[0] is not None:
            nd.taxon = by[n[0]]
        if n[1] is not None:
            nd.label = n[1]
        if n[2] is not None:
            nd.edge.length = n[2]
        for c in n[3]:
            nd.add_child(mk(c))
        return nd

    for t in doc["trees"]:
        tr = Tree(seed_node=mk(t["root"]), taxon_namespace=ns)
        tr.is_rooted = t["rooted"]
        if t.get("weight") is not None:
            tr.weight = t["weight"]
        trees.append(tr)
    return ns, trees


def build_tree_list(doc):
    ns, trees = build_doc(doc)
    tl = TreeList(taxon_namespace=ns)
    for t in trees:
        tl.append(t)
    return tl


def shape_to_node(shape, leaf_labels, lengths=None, internal_labels=False, internal_taxa=None):
    """nested-tuple shape (bounded.common) -> plain node.  lengths: callable(preorder
    index, is_leaf, is_root) -> value|None.  internal_taxa: iterator of labels."""
    it = iter(leaf_labels)
    counter = [0]

    def rec(s, is_root):
        i = counter[0]
        counter[0] += 1
        leaf = (s == ())
        ln = lengths(i, leaf, is_root) if lengths is not None else None
        if leaf:
            return [next(it), None, ln, []]
        tx = next(internal_taxa) if internal_taxa is not None else None
        lb = ("in%d" % i) if (internal_labels and tx is None) else None
        return [tx, lb, ln, [rec(c, False) for c in s]]

    return rec(shape, True)


# ----------------------------------------------------------------------------- guarded pool
class _CpuTimeout(BaseException):
    pass


def _alarm(signum, frame):
    raise _CpuTimeout()


def _worker_loop(fn, items, idxs, wfd, cpu_limit, mem_bytes):
    if mem_bytes:
        try:
            import resource

            with open("/proc/self/statm") as f:
                cur = int(f.read().split()[0]) * os.sysconf("SC_PAGE_SIZE")
            resource.setrlimit(resource.RLIMIT_AS, (cur + mem_bytes, cur + mem_bytes))
        except Exception:
            pass
    signal.signal(signal.SIGPROF, _alarm)
    signal.signal(signal.SIGALRM, _alarm)
    out = os.fdopen(wfd, "w")
    for i in idxs:
        out.write("S %d\n" % i)
        out.flush()
        t0 = time.time()
        try:
            # CPU-time guard (a spinning loop burns CPU; robust against machine load)
            signal.setitimer(signal.ITIMER_PROF, cpu_limit)
            # wall guard as a second line (blocking waits), generous
            signal.setitimer(signal.ITIMER_REAL, cpu_limit * 6 + 2)
            try:
                res = ("ok", fn(items[i]))
            finally:
                signal.setitimer(signal.ITIMER_PROF, 0)
                signal.setitimer(signal.ITIMER_REAL, 0)
        except _CpuTimeout:
            res = ("hang", "no result after %.1fs CPU" % cpu_limit)
        except MemoryError:
            res = ("memory", "MemoryError")
        except BaseException as e:  # an exception in the driver's own code: propagate to the parent
            res = ("driver-error", "".join(traceback.format_exception(type(e), e, e.__traceback__))[-1500:])
        out.write("R %d %s\n" % (i, json.dumps(res, default=repr)))
        out.flush()
    out.write("D\n")
    out.flush()
    out.close()
    os._exit(0)


def guarded_map(fn, items, cpu_limit=1.0, procs=None, wall_kill=None, mem_bytes=3 << 30, max_hangs=None):
    """Map fn over items in forked workers.  Returns a list of (status, value):
    ("ok", result) | ("hang", msg) | ("crash", msg) | ("memory", msg) | ("skipped", msg).
    max_hangs: once that many items have hung/crashed the remaining items are not run
    (status "skipped"): a defect that makes a large share of the inputs hang would
    otherwise cost cpu_limit seconds each; the caller must report the cut.
    A worker that dies (segfault, os._exit) or stops reporting (stuck in C code where
    signals are not delivered) is killed; the item it was on is reported as crash/hang
    and the rest of its share is handed to a fresh worker.  An exception raised by fn
    itself (driver bug) is re-raised in the parent."""
    items = list(items)
    n = len(items)
    results = [None] * n
    if n == 0:
        return results
    procs = procs or min(16, os.cpu_count() or 1)
    if os.environ.get("DPVC_SERIAL"):
        procs = 1
    procs = max(1, min(procs, n))
    wall_kill = wall_kill or (cpu_limit * 8 + 10)
    shares = [list(range(k, n, procs)) for k in range(procs)]
    live = {}  # rfd -> dict(pid, buf, pending(list of idx), current, t_last)

    def spawn(idxs):
        if not idxs:
            return
        r, w = os.pipe()
        sys.stdout.flush()
        sys.stderr.flush()
        pid = os.fork()
        if pid == 0:
            os.close(r)
            try:
                _worker_loop(fn, items, idxs, w, cpu_limit, mem_bytes)
            finally:
                os._exit(1)
        os.close(w)
        live[r] = dict(pid=pid, buf=b"", pending=list(idxs), current=None, t_last=time.time(), done=False)

    for sh in shares:
        spawn(sh)
    driver_error = None
    n_bad = 0
    while live:
        if max_hangs is not None and n_bad >= max_hangs:
            for r in list(live):
                st = live.pop(r)
                try:
                    os.kill(st["pid"], signal.SIGKILL)
                    os.waitpid(st["pid"], 0)
                except OSError:
                    pass
                os.close(r)
            for i in range(n):
                if results[i] is None:
                    results[i] = ("skipped", "not run: %d inputs had already hung or crashed" % n_bad)
            break
        rl, _, _ = select.select(list(live), [], [], 1.0)
        now = time.time()
        for r in list(live):
            st = live[r]
            eof = False
            if r in rl:
                data = os.read(r, 1 << 16)
                if not data:
                    eof = True
                else:
                    st["buf"] += data
                    st["t_last"] = now
                    while b"\n" in st["buf"]:
                        line, st["buf"] = st["buf"].split(b"\n", 1)
                        line = line.decode("utf8")
                        if line.startswith("S "):
                            st["current"] = int(line[2:])
                        elif line.startswith("R "):
                            _, i, payload = line.split(" ", 2)
                            i = int(i)
                            res = json.loads(payload)
                            if res[0] == "driver-error":
                                driver_error = res[1]
                            results[i] = (res[0], res[1])
                            if res[0] in ("hang", "memory"):
                                n_bad += 1
                            st["pending"].remove(i)
                            st["current"] = None
                        elif line == "D":
                            st["done"] = True
            stuck = (not eof) and (now - st["t_last"] > wall_kill)
            if eof or stuck:
                try:
                    if stuck:
                        os.kill(st["pid"], signal.SIGKILL)
                    _, status = os.waitpid(st["pid"], 0)
                except OSError:
                    status = -1
                os.close(r)
                del live[r]
                if not st["done"] and st["pending"]:
                    cur = st["current"] if st["current"] is not None else st["pending"][0]
                    results[cur] = ("hang", "worker unresponsive for %.0fs wall (killed)" % wall_kill) if stuck else \
                        ("crash", "worker process died (wait status %r)" % (status,))
                    n_bad += 1
                    rest = [i for i in st["pending"] if i != cur]
                    spawn(rest)
    if driver_error is not None:
        raise RuntimeError("exception in the driver's worker function:\n" + driver_error)
    return results
