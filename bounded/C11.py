"""C11 (T2, bounded): collections keep every member inside their own taxon namespace.

Histories of container operations are run on a small *world* (a TreeList over the
namespace {A,B,C} holding one native tree, foreign trees / tree lists / matrices created
under their own namespaces with overlapping, disjoint, case-variant, duplicate labels,
taxa on internal nodes), and after EVERY operation every live object is audited with
the identity-based oracles of specs/namespaces.py:

  <op>.closure                   container and members share ONE namespace object; every
                                 taxon referenced by a node / sequence is a member of it
  <op>.labels-preserved          every node / sequence still carries a taxon with its original
                                 label (exact under a case-sensitive namespace, modulo case
                                 otherwise): nothing dropped, nothing re-labelled
  <op>.taxa-preserved            strategy 'add', same-namespace copies, plain moves: the very
                                 same Taxon objects are still referenced
  <op>.equal-labels-one-taxon    items brought in by label (migrate / read / clone / unify) that
                                 have exactly equal labels sit on one and the same taxon
  <op>.different-labels-different-taxa   no two different labels merged onto one taxon
  <op>.taxon-not-duplicated      list-wide migrations: nodes that shared one taxon still share one
  <op>.removed-tree-consistent   popped / removed / replaced / cleared trees still have all
                                 their taxa in their own namespace
  <op>.source-untouched          a TreeList that was copied from (extend / + / slice
                                 assignment / clone) is still closed over its own namespace
  <op>.raises                    an operation fails although no documented refusal applies
  <op>.accepts-foreign-taxon / .accepts-foreign-tree   CharacterMatrix / TreeArray refusals

Policy decisions (all in favour of the library where the statement is silent)
  * labels that differ only in case: "equal" under a case-insensitive namespace (the default,
    documented in migrate_taxon_namespace) -> may be merged or kept apart; "different" under a
    case-sensitive namespace -> must stay apart.  Readers are only given exact or new labels
    under case-sensitive namespaces (they have their own case option).
  * strategy 'add' and unify_taxa_by_label=False are documented to create duplicate labels:
    only closure / preservation clauses apply to them.
  * documented refusals are allowed outcomes: CharacterMatrix.new_sequence/[]= with a foreign
    taxon (ValueError), unknown label / index (KeyError / IndexError), matrix merges across
    namespaces (TaxonNamespaceIdentityError), label clashes while re-keying a matrix
    (TaxonNamespaceReconstructionError; the history ends there), DataSet reads/creations with
    a namespace other than the attached one (ValueError / TypeError), TreeArray.add_tree of a
    foreign tree (TaxonNamespaceIdentityError).
  * DataSet.add(<component living in another namespace>) and attach_taxon_namespace() on a
    data set that already holds components of other namespaces do not migrate anything; their
    docstrings only promise the attached namespace for read()/new_*().  This is NOT failed; it
    is probed once and recorded with ctx.note (see final report).
"""
import collections
import copy
import itertools

import dendropy
from dendropy.datamodel.taxonmodel import TaxonNamespace, Taxon
from dendropy.datamodel.treemodel import Node, Tree
from dendropy.datamodel.treecollectionmodel import TreeList, TreeArray
from dendropy.datamodel.datasetmodel import DataSet
from dendropy.datamodel.charmatrixmodel import DnaCharacterMatrix
from dendropy.utility import error as dperror

from bounded.common import rng_for, time_limit, Timeout
from bounded import kit_a as K
from specs import namespaces as N

# ----------------------------------------------------------------------------- tree kinds
# kind -> (taxon labels, shape); shape = (taxon index or None, [children])
_B3 = (None, [(None, [(0, []), (1, [])]), (2, [])])
KINDS = {
    "overlap": (["B", "C", "D"], _B3),
    "disjoint": (["X", "Y", "Z"], _B3),
    "casevar": (["a", "B", "c"], _B3),
    "dupcase": (["A", "a", "C"], _B3),
    "same": (["A", "B", "C"], _B3),
    "duplabel": (["D", "D", "A"], _B3),
    "internal": (["A", "D", "E", "F", "G"], (4, [(2, [(0, []), (1, [])]), (3, []), (None, [])])),
}
FOREIGN = ["overlap", "disjoint", "casevar", "dupcase", "same", "duplabel", "internal"]


def _mk_ns(labels=(), cs=False):
    ns = TaxonNamespace(is_case_sensitive=cs)
    taxa = []
    for l in labels:
        t = Taxon(label=l)
        ns.add_taxon(t)
        taxa.append(t)
    return ns, taxa


def _mk_tree(shape, taxa, ns):
    def mk(s):
        nd = Node()
        if s[0] is not None:
            nd.taxon = taxa[s[0]]
        for c in s[1]:
            nd.add_child(mk(c))
        return nd
    return Tree(seed_node=mk(shape), taxon_namespace=ns)


class Rec(object):
    """what the oracle expects of one tracked tree"""

    def __init__(self, tree, labels=None, unified=True, keep_taxa=False):
        self.tree = tree
        self.labels = N.tree_labels(tree) if labels is None else list(labels)
        self.unified = unified
        self.taxa = N.tree_taxa(tree) if keep_taxa else None


class World(object):
    def __init__(self, case):
        self.cs = bool(case.get("cs", False))
        self.n0, self.t0 = _mk_ns(["A", "B", "C"], self.cs)
        self.recs = {}
        self.lists = []      # every TreeList that must be closed
        self.sources = []    # TreeLists that were only copied from
        self.loose = []      # trees outside any list
        self.cur = TreeList(taxon_namespace=self.n0)
        nat = _mk_tree((None, [(None, [(0, []), (2, [])]), (1, [])]), self.t0, self.n0)
        self.cur._trees.append(nat)
        self.track(nat, unified=True, keep_taxa=True)
        self.lists.append(self.cur)

    # -- tracking
    def track(self, tree, labels=None, unified=True, keep_taxa=False):
        r = Rec(tree, labels, unified, keep_taxa)
        self.recs[id(tree)] = r
        return r

    def rec(self, tree):
        return self.recs[id(tree)]

    def foreign_tree(self, kind):
        if kind == "native":
            t = _mk_tree(_B3, self.t0, self.n0)
        else:
            labels, shape = KINDS[kind]
            ns, taxa = _mk_ns(labels, self.cs)
            t = _mk_tree(shape, taxa, ns)
        self.track(t, unified=True, keep_taxa=True)
        return t

    def foreign_list(self, kind):
        if kind == "FL-same-ns":
            fl = TreeList(taxon_namespace=self.n0)
            for sh in (_B3, (None, [(1, []), (None, [(0, []), (2, [])])])):
                t = _mk_tree(sh, self.t0, self.n0)
                fl._trees.append(t)
                self.track(t, keep_taxa=True)
        else:
            ns, taxa = _mk_ns(["B", "C", "D", "E"] if kind == "FL-overlap" else ["b", "C", "D", "d"], self.cs)
            fl = TreeList(taxon_namespace=ns)
            for sh in (_B3, (None, [(3, []), (None, [(0, []), (2, [])])])):
                t = _mk_tree(sh, taxa, ns)
                fl._trees.append(t)
                self.track(t, keep_taxa=True)
        self.sources.append(fl)
        return fl

    def new_ns(self, kind):
        if kind == "empty":
            return _mk_ns([], self.cs)[0]
        if kind == "overlap":
            return _mk_ns(["B", "D"], self.cs)[0]
        if kind == "cs-flip":
            return _mk_ns([], not self.cs)[0]
        if kind == "own":
            return self.cur._taxon_namespace
        raise ValueError(kind)

    # -- predicted effect of importing an existing tree object into list `tl`
    def imported(self, tree, tl, strategy):
        r = self.rec(tree)
        if N.ns_of(tree) is N.ns_of(tl) or strategy == "add":
            r.taxa = N.tree_taxa(tree)  # the same Taxon objects must still be there afterwards
            if strategy == "add" and N.ns_of(tree) is not N.ns_of(tl):
                r.unified = False
        elif strategy == "migrate":
            r.taxa = None
            r.unified = True
        else:  # migrate with unify_taxa_by_label=False
            r.taxa = None
            r.unified = False

    def copied(self, src_tree, new_tree, same_ns):
        s = self.rec(src_tree)
        r = self.track(new_tree, labels=s.labels, unified=(s.unified if same_ns else True))
        if same_ns:
            r.taxa = N.tree_taxa(src_tree)
        return r

    def relist(self, tl):
        """a list-wide label-unifying pass (migrate / reconstruct / clone into another ns)"""
        # lists that merely alias the same Tree objects (slices, TreeList(list_of_trees)) cannot stay
        # closed when the trees are moved through another list: documented shallow sharing, left out
        mine = set(id(t) for t in tl._trees)
        self.lists = [l for l in self.lists if l is tl or not any(id(t) in mine for t in l._trees)]
        for t in tl._trees:
            r = self.rec(t)
            r.taxa = None
            r.unified = True


# ----------------------------------------------------------------------------- audit
def audit(W, op, fails):
    def bad(clause, text):
        fails.append(("%s.%s" % (op, clause), text))

    for tl in W.lists:
        for e in N.treelist_closure_errors(tl):
            bad("closure", e)
    for tl in W.sources:
        for e in N.treelist_closure_errors(tl):
            bad("source-untouched", e)
    for t in W.loose:
        for e in N.tree_own_errors(t):
            bad("removed-tree-consistent", e)
    for r in W.recs.values():
        ns = N.ns_of(r.tree)
        cs = bool(ns.is_case_sensitive) if ns is not None else True
        got = N.tree_labels(r.tree)
        if len(got) != len(r.labels) or any(not N.same_label(a, b, cs) for a, b in zip(got, r.labels)):
            bad("labels-preserved", "node labels %r, originally %r" % (got, r.labels))
        if r.taxa is not None:
            now = N.tree_taxa(r.tree)
            if len(now) != len(r.taxa) or any(a is not b for a, b in zip(now, r.taxa)):
                bad("taxa-preserved", "the nodes no longer reference their original Taxon objects (labels %r)" % (got,))
    for tl in W.lists:
        ns = N.ns_of(tl)
        cs = bool(ns.is_case_sensitive)
        uni, allp = [], []
        for t in tl._trees:
            r = W.recs.get(id(t))
            if r is None:
                bad("closure", "untracked tree in list")
                continue
            pairs = list(zip(r.labels, N.tree_taxa(t)))
            allp.extend(pairs)
            if r.unified:
                uni.extend(pairs)
        labs = [t.label for t in N.members(ns)]
        if len(set(labs)) == len(labs):  # with duplicate labels in the namespace ('add' strategy) "the" taxon of a label is undefined
            for e in N.label_function_errors(uni):
                bad("equal-labels-one-taxon", e)
        for e in N.distinct_label_errors(allp, cs):
            bad("different-labels-different-taxa", e)


# ----------------------------------------------------------------------------- TreeList histories
READ_TEXTS = {
    "r-overlap": ("((A,B),D);", [None, None, "A", "B", "D"]),
    "r-new": ("(X,(Y,Z));", [None, "X", None, "Y", "Z"]),
    "r-case": ("((a,B),D);", [None, None, "a", "B", "D"]),
}


def _rkw(cs):
    """readers refuse a case-sensitive namespace unless told to read case-sensitively (documented)"""
    return {"case_sensitive_taxon_labels": True} if cs else {}


def _idx(tl, code):
    n = len(tl._trees)
    return {"0": 0, "-1": n - 1, "mid": n // 2}[code]


def apply_tl(W, op):
    """run one TreeList operation and update the expectations"""
    cur = W.cur
    name = op[0]
    if name == "rename":
        # the caller renames a member taxon in place (its label is an ordinary attribute): from now on THAT is its label,
        # for look-ups and for every tree that sits on it
        ns = N.ns_of(cur)
        old_label, new_label = op[1], op[2]
        hit = [x for x in N.members(ns) if x.label == old_label]
        if hit and not any(N.same_label(x.label, new_label, W.cs) for x in N.members(ns)):
            tx = hit[0]
            tx.label = new_label
            for r in W.recs.values():
                taxa = N.tree_taxa(r.tree)
                r.labels = [new_label if (taxa[i] is tx) else l for i, l in enumerate(r.labels)] if len(taxa) == len(r.labels) else r.labels
    elif name in ("append", "insert"):
        kind, strat = op[-2], op[-1]
        t = W.foreign_tree(kind)
        W.imported(t, cur, "migrate" if strat == "migrate" else strat)
        kw = {}
        if strat == "add":
            kw["taxon_import_strategy"] = "add"
        elif strat == "nounify":
            kw["unify_taxa_by_label"] = False
        if name == "append":
            cur.append(t, **kw)
        else:
            cur.insert(_idx(cur, op[1]) if cur._trees else 0, t, **kw)
    elif name in ("extend-list", "iadd-list", "add-list", "ctor-list"):
        trees = [W.foreign_tree(k) for k in op[1]]
        if name == "add-list":
            old = cur
            for t in trees:
                W.imported(t, cur, "migrate")
            new = cur + trees
            W.lists.append(new)
            for a, b in zip(old._trees, new._trees):
                W.copied(a, b, True)
            W.cur = new
        elif name == "ctor-list":
            for t in trees:
                W.imported(t, cur, "migrate")
            new = TreeList(trees, taxon_namespace=N.ns_of(cur))
            W.lists.append(new)
        else:
            for t in trees:
                W.imported(t, cur, "migrate")
            if name == "extend-list":
                cur.extend(trees)
            else:
                cur += trees
                W.cur = cur
    elif name in ("extend-tl", "iadd-tl", "add-tl"):
        fl = W.foreign_list(op[1])
        same = N.ns_of(fl) is N.ns_of(cur)
        if name == "add-tl":
            old = cur
            new = cur + fl
            W.lists.append(new)
            srcs = list(old._trees) + list(fl._trees)
            if len(new._trees) == len(srcs):
                for k, (a, b) in enumerate(zip(srcs, new._trees)):
                    W.copied(a, b, True if k < len(old._trees) else same)
            W.cur = new
        else:
            n0 = len(cur._trees)
            if name == "extend-tl":
                cur.extend(fl)
            else:
                cur += fl
            added = cur._trees[n0:]
            if len(added) == len(fl._trees):
                for a, b in zip(fl._trees, added):
                    W.copied(a, b, same)
    elif name == "setitem":
        if not cur._trees:
            return
        t = W.foreign_tree(op[2])
        W.imported(t, cur, "migrate")
        i = _idx(cur, op[1])
        old = cur._trees[i]
        cur[i] = t
        W.loose.append(old)
    elif name == "setslice-list":
        trees = [W.foreign_tree(k) for k in op[2]]
        for t in trees:
            W.imported(t, cur, "migrate")
        a, b = op[1]
        for t in cur._trees[a:b]:
            W.loose.append(t)
        cur[a:b] = trees
    elif name == "setslice-tl":
        fl = W.foreign_list(op[2])
        same = N.ns_of(fl) is N.ns_of(cur)
        a, b = op[1]
        before = list(cur._trees)
        for t in before[a:b]:
            W.loose.append(t)
        cur[a:b] = fl
        new = [t for t in cur._trees if not any(t is x for x in before)]
        if len(new) == len(fl._trees):
            for s, t in zip(fl._trees, new):
                W.copied(s, t, same)
    elif name == "getslice":
        a, b = op[1]
        sl = cur[a:b]
        W.lists.append(sl)
    elif name == "read":
        text, labels = READ_TEXTS[op[1]]
        n0 = len(cur._trees)
        cur.read(data=text, schema="newick", **_rkw(N.ns_of(cur).is_case_sensitive))
        for t in cur._trees[n0:]:
            W.track(t, labels=labels, unified=True)
    elif name == "get":
        text, labels = READ_TEXTS[op[1]]
        new = TreeList.get(data=text, schema="newick", taxon_namespace=N.ns_of(cur), **_rkw(N.ns_of(cur).is_case_sensitive))
        for t in new._trees:
            W.track(t, labels=labels, unified=True)
        W.lists.append(new)
    elif name == "new_tree":
        if op[1] == "empty":
            t = cur.new_tree()
            W.track(t)
        elif op[1].startswith("seed:"):
            # new_tree(seed_node=<a structure built elsewhere>): the nodes carry taxa of another namespace; the new tree is a
            # member of the list, so they must become members of the list's namespace (the very same Taxon objects: nothing
            # says they are replaced)
            src = W.foreign_tree(op[1][5:])
            root = src._seed_node
            t = cur.new_tree(seed_node=root)
            W.track(t, labels=N.tree_labels(src), unified=False, keep_taxa=True)
            del W.recs[id(src)]   # the source tree object gave its structure away
        else:
            src = W.foreign_tree(op[1])
            t = cur.new_tree(src)
            W.copied(src, t, N.ns_of(src) is N.ns_of(cur))
            W.loose.append(src)
    elif name in ("migrate", "migrate-nounify"):
        ns = W.new_ns(op[1])
        W.relist(cur)
        nodes = [n for t in cur._trees for n in N.tree_nodes(t) if n.taxon is not None]
        before = [n.taxon for n in nodes]
        if name == "migrate":
            cur.migrate_taxon_namespace(ns)
        else:
            cur.migrate_taxon_namespace(ns, unify_taxa_by_label=False)
            for t in cur._trees:
                W.rec(t).unified = False
        # items that sat on one taxon still sit on one taxon (nothing duplicated)
        after = [n.taxon for n in nodes]
        for i in range(len(nodes)):
            for k in range(i + 1, len(nodes)):
                if before[i] is before[k] and after[i] is not after[k]:
                    return [("taxon-not-duplicated", "two nodes that shared the taxon %r now reference two different taxa" % (before[i].label,))]
    elif name == "migrate-memo":
        W.relist(cur)
        memo = {}
        k = 0
        for t in cur._trees:
            for tx in N.tree_taxa(t):
                if tx is not None and tx not in memo:
                    if op[1] == "all" or k % 2 == 0:
                        memo[tx] = Taxon(label=tx.label)
                    k += 1
        given = dict(memo)
        nodes = [n for t in cur._trees for n in N.tree_nodes(t) if n.taxon is not None]
        before = [n.taxon for n in nodes]
        cur.migrate_taxon_namespace(W.new_ns("empty"), taxon_mapping_memo=memo)
        for t in cur._trees:
            # which taxa end up equal is the caller's doing (the memo sends every old taxon to its own new one,
            # also two old taxa that carried the same label): only closure / preservation clauses apply
            W.rec(t).unified = False
        for n, b in zip(nodes, before):
            if b in given and n.taxon is not given[b]:
                return [("memo-honoured", "a node labelled %r was not moved to the taxon the caller's memo names" % (b.label,))]
    elif name == "migrate-shared-memo":
        # two collections over one namespace are moved into a new one with ONE memo that starts EMPTY and without unification by label
        # (the documented way to keep them on the same taxa): what sat on one taxon before sits on one taxon afterwards, across both lists
        W.relist(cur)
        src_ns = N.ns_of(cur)
        other = TreeList(taxon_namespace=src_ns)
        mem = N.members(src_ns)
        if len(mem) >= 3:
            other.append(_mk_tree(_B3, mem[:3], src_ns))
        elif len(mem) >= 1:
            other.append(_mk_tree((None, [(0, [])]) if len(mem) == 1 else (None, [(0, []), (1, [])]), mem[:2], src_ns))
        memo = {}
        dest = W.new_ns("empty")
        nodes = [n for tl_ in (cur, other) for t in tl_._trees for n in N.tree_nodes(t) if n.taxon is not None]
        before = [n.taxon for n in nodes]
        how = op[1]
        for tl_ in (cur, other):
            if how == "migrate":
                tl_.migrate_taxon_namespace(dest, unify_taxa_by_label=False, taxon_mapping_memo=memo)
            else:
                tl_._taxon_namespace = dest
                tl_.reconstruct_taxon_namespace(unify_taxa_by_label=False, taxon_mapping_memo=memo)
        for t in cur._trees:
            W.rec(t).unified = False
        after = [n.taxon for n in nodes]
        for i in range(len(nodes)):
            for k in range(i + 1, len(nodes)):
                if before[i] is before[k] and after[i] is not after[k]:
                    return [("taxon-not-duplicated", "two nodes (of two collections moved with one shared memo) that shared the taxon %r now reference two different taxa; "
                             "the destination holds %r" % (before[i].label, [t.label for t in N.members(dest)]))]
    elif name == "reconstruct":
        W.relist(cur)
        cur.reconstruct_taxon_namespace()
        # a unifying pass over the whole list (unify_taxa_by_label=True is the default): whatever the
        # namespace held before -- duplicate labels left by 'add' / unify_taxa_by_label=False included --
        # items with exactly equal labels now sit on one taxon
        pairs = []
        for t in cur._trees:
            pairs.extend(zip(W.rec(t).labels, N.tree_taxa(t)))
        errs = N.label_function_errors(pairs)
        if errs:
            return [("unified-by-label", errs[0])]
    elif name == "update_ns":
        cur.update_taxon_namespace()
    elif name in ("pop", "remove", "del"):
        if not cur._trees:
            return
        i = _idx(cur, op[1])
        t = cur._trees[i]
        if name == "pop":
            got = cur.pop(i)
            if got is not t:
                W.loose.append(got)
        elif name == "remove":
            cur.remove(t)
        else:
            del cur[i]
        W.loose.append(t)
    elif name == "clear":
        for t in cur._trees:
            W.loose.append(t)
        cur.clear()
    elif name in ("clone", "scoped_copy", "deepcopy"):
        old = cur
        if name == "clone":
            ns = W.new_ns(op[1])
            new = TreeList(old, taxon_namespace=ns)
            same = ns is N.ns_of(old)
        elif name == "scoped_copy":
            new = old.taxon_namespace_scoped_copy()
            same = True
        else:
            new = copy.deepcopy(old)
            same = False
        if len(new._trees) == len(old._trees):
            for a, b in zip(old._trees, new._trees):
                r = W.copied(a, b, same)
                if name == "deepcopy":  # an exact replica of the old namespace: nothing is unified
                    r.unified = W.rec(a).unified
        W.lists.append(new)
        W.sources.append(old)
        W.cur = new
    else:
        raise ValueError(name)


def _is_lib_error(ex):
    import traceback
    tb = traceback.extract_tb(ex.__traceback__)
    fn = tb[-1].filename
    return "/dendropy/" in fn, "%s:%d" % (fn.split("/dendropy/")[-1], tb[-1].lineno)


def _history_tl(case):
    W = World(case)
    fails = []
    audit(W, "world", fails)
    if fails:
        raise AssertionError("the initial world is not closed: %r" % (fails,))
    for j, op in enumerate(case["ops"]):
        name = op[0]
        try:
            for clause, text in (apply_tl(W, op) or ()):
                fails.append(("%s.%s" % (name, clause), text))
        except Timeout:
            raise
        except Exception as ex:
            lib, where = _is_lib_error(ex)
            if not lib:
                raise
            fails.append(("%s.raises" % name, "%s: %s (at %s)" % (type(ex).__name__, str(ex)[:160], where)))
        if not fails:
            audit(W, name, fails)
        if fails:
            sub = dict(case, ops=case["ops"][: j + 1])
            return [(m, d, _key(sub), sub) for m, d in _dedupe(fails)]
        if name.endswith("-memo"):
            # the caller's memo may have put equal labels on different taxa (its right); the history ends here
            return []
        # the labels now carried are the reference for the next step (a case-insensitive
        # namespace may have replaced 'a' by its existing variant 'A': allowed, see docstring)
        for r in W.recs.values():
            r.labels = N.tree_labels(r.tree)
    return []


def _dedupe(fails):
    seen, out = set(), []
    for m, d in fails:
        if m not in seen:
            seen.add(m)
            out.append((m, d))
    return out


# ----------------------------------------------------------------------------- CharacterMatrix histories
class MWorld(object):
    def __init__(self, case):
        self.cs = bool(case.get("cs", False))
        self.n0, self.t0 = _mk_ns(["A", "B", "C"], self.cs)
        self.m = DnaCharacterMatrix(taxon_namespace=self.n0)
        self.m.new_sequence(self.t0[0], "AAAA")
        self.m.new_sequence(self.t0[1], "CCCC")
        self.labels = ["A", "B"]  # model: labels that have a sequence
        self.mats = [self.m]
        self.sources = []


def _m_other(W, kind):
    if kind == "same-ns":
        o = DnaCharacterMatrix(taxon_namespace=N.ns_of(W.m))
        have = [t for t in N.members(N.ns_of(W.m))]
        labs = []
        for t in have[1:3]:
            o.new_sequence(t, "GGGG")
            labs.append(t.label)
        return o, labs
    ns, taxa = _mk_ns(["B", "D"], W.cs)
    o = DnaCharacterMatrix(taxon_namespace=ns)
    for t in taxa:
        o.new_sequence(t, "TTTT")
    return o, ["B", "D"]


def _m_audit(W, op, fails):
    for m in W.mats:
        for e in N.matrix_closure_errors(m):
            fails.append(("%s.closure" % op, e))
    for m in W.sources:
        for e in N.matrix_closure_errors(m):
            fails.append(("%s.source-untouched" % op, e))
    cs = bool(N.ns_of(W.m).is_case_sensitive)
    got = sorted(t.label for t in W.m._taxon_sequence_map)
    want = sorted(W.labels)
    if len(got) != len(want) or any(not N.same_label(a, b, cs) for a, b in zip(sorted(got, key=str.lower), sorted(want, key=str.lower))):
        fails.append(("%s.labels-preserved" % op, "sequences are keyed by labels %r, expected %r" % (got, want)))
    for e in N.label_function_errors([(t.label, t) for t in W.m._taxon_sequence_map]):
        fails.append(("%s.equal-labels-one-taxon" % op, e))


ALLOWED_M = (ValueError, KeyError, IndexError, dperror.TaxonNamespaceIdentityError, dperror.TaxonNamespaceReconstructionError)


def apply_m(W, op):
    """-> 'end' when a documented error leaves the matrix in an unspecified state"""
    m = W.m
    name = op[0]
    ns = N.ns_of(m)
    mem = N.members(ns)

    def by_label(l):
        for t in mem:
            if t.label == l:
                return t
        return None

    if name in ("new_sequence", "setitem", "getitem"):
        who = op[1]
        foreign = False
        if who == "free":  # a member without sequence, if any
            cand = [t for t in mem if not any(t is k for k in m._taxon_sequence_map)]
            key = cand[0] if cand else mem[0]
        elif who == "used":
            key = list(m._taxon_sequence_map)[0] if len(m._taxon_sequence_map) else mem[0]
        elif who == "foreign-new":
            key, foreign = Taxon(label="Q"), True
        elif who == "foreign-same-label":
            key, foreign = Taxon(label=mem[0].label), True
        elif who == "label":
            key = mem[-1].label
        elif who == "label-unknown":
            key = "nosuchlabel"
        elif who == "index":
            key = len(mem) - 1
        elif who == "index-out":
            key = len(mem) + 5
        else:
            raise ValueError(who)
        tx = key if isinstance(key, Taxon) else (by_label(key) if isinstance(key, str) else (mem[key] if key < len(mem) else None))
        try:
            if name == "new_sequence":
                if not isinstance(key, Taxon):
                    key = tx if tx is not None else Taxon(label="Q")
                    foreign = tx is None
                m.new_sequence(key, "ACGT")
            elif name == "setitem":
                m[key] = "ACGT"
            else:
                m[key]
        except ALLOWED_M:
            return None
        if foreign:
            return ("accepts-foreign-taxon", "a sequence was created for a Taxon (%r) that is not in the matrix's namespace" % (key.label,))
        if tx is not None and tx.label not in W.labels:
            W.labels.append(tx.label)
        return None
    if name in ("migrate", "clone"):
        kind = op[1]
        if kind == "empty":
            ns2 = _mk_ns([], W.cs)[0]
        elif kind == "overlap":
            ns2 = _mk_ns(["B", "D"], W.cs)[0]
        elif kind == "cs-flip":
            ns2 = _mk_ns([], not W.cs)[0]
        else:
            ns2 = ns
        try:
            if name == "migrate":
                m.migrate_taxon_namespace(ns2)
            else:
                new = DnaCharacterMatrix(m, taxon_namespace=ns2)
                W.sources.append(m)
                W.mats.append(new)
                W.m = new
        except dperror.TaxonNamespaceReconstructionError:
            return "end"
        return None
    if name == "reconstruct":
        try:
            m.reconstruct_taxon_namespace()
        except dperror.TaxonNamespaceReconstructionError:
            return "end"
        return None
    if name in ("migrate-memo", "reconstruct-memo"):
        # the caller names the replacement taxon of some (op[1] == "some": every other) or all sequence taxa;
        # the replacements are fresh Taxon objects that are members of no namespace yet
        keys = list(m._taxon_sequence_map.keys())
        memo = {}
        for i, t in enumerate(keys):
            if op[1] == "all" or i % 2 == 0:
                memo[t] = Taxon(label=t.label)
        given = dict(memo)
        try:
            if name == "migrate-memo":
                m.migrate_taxon_namespace(_mk_ns([], W.cs)[0], taxon_mapping_memo=memo)
            else:
                m.reconstruct_taxon_namespace(taxon_mapping_memo=memo)
        except dperror.TaxonNamespaceReconstructionError:
            return "end"
        now = set(id(t) for t in m._taxon_sequence_map.keys())
        for t, r in given.items():
            if id(r) not in now:
                return ("memo-honoured", "the sequence of %r was not re-keyed to the taxon the caller's memo names" % (t.label,))
        return None
    if name == "update_ns":
        m.update_taxon_namespace()
        return None
    if name == "merge":
        fn, kind = op[1], op[2]
        o, labs = _m_other(W, kind)
        W.sources.append(o)
        try:
            if fn == "extend_sequences+new":
                m.extend_sequences(o, is_add_new_sequences=True)
            else:
                getattr(m, fn)(o)
        except dperror.TaxonNamespaceIdentityError:
            return None
        if N.ns_of(o) is not ns:
            return ("accepts-foreign-taxon", "%s merged a matrix living in another namespace" % fn)
        if fn in ("add_sequences", "update_sequences", "extend_matrix", "extend_sequences+new"):
            for l in labs:
                if l not in W.labels:
                    W.labels.append(l)
        return None
    if name in ("fill_taxa", "pack"):
        if name == "fill_taxa":
            m.fill_taxa()
        else:
            m.pack()
        for t in mem:
            if t.label not in W.labels:
                W.labels.append(t.label)
        return None
    raise ValueError(name)


def _history_m(case):
    W = MWorld(case)
    fails = []
    for j, op in enumerate(case["ops"]):
        name = op[0] if op[0] != "merge" else op[1]
        try:
            res = apply_m(W, op)
        except Timeout:
            raise
        except Exception as ex:
            lib, where = _is_lib_error(ex)
            if not lib:
                raise
            res = ("raises", "%s: %s (at %s)" % (type(ex).__name__, str(ex)[:160], where))
        if res == "end":
            return []
        if res is not None:
            fails.append(("matrix.%s.%s" % (name, res[0]), res[1]))
        _m_audit(W, "matrix." + name, fails)
        if fails:
            sub = dict(case, ops=case["ops"][: j + 1])
            return [(m, d, _key(sub), sub) for m, d in _dedupe(fails)]
        if name.endswith("-memo"):
            return []
    return []


# ----------------------------------------------------------------------------- DataSet histories
NEXUS_FULL = ("#NEXUS\nbegin taxa; dimensions ntax=3; taxlabels A B D; end;\n"
              "begin characters; dimensions nchar=2; format datatype=dna; matrix A AC\nB AC\nD GT;\nend;\n"
              "begin trees; tree t1 = (A,(B,D)); tree t2 = ((A,B),D); end;\n")
NEXUS_CHARS = ("#NEXUS\nbegin taxa; dimensions ntax=2; taxlabels B E; end;\n"
               "begin characters; dimensions nchar=2; format datatype=dna; matrix B AC\nE GT;\nend;\n")
# two <otus> blocks that share labels (P, Q), neither known before: read into one namespace they resolve to one taxon each
NEXML_TWO = """<?xml version="1.0" encoding="ISO-8859-1"?>
<nex:nexml version="0.9" xmlns:nex="http://www.nexml.org/2009" xmlns="http://www.nexml.org/2009" xmlns:xsi="http://www.w3.org/2001/XMLSchema-instance">
  <otus id="tax1" label="first">
    <otu id="t1" label="B"/>
    <otu id="t2" label="P"/>
    <otu id="t3" label="Q"/>
  </otus>
  <otus id="tax2" label="second">
    <otu id="u1" label="Q"/>
    <otu id="u2" label="P"/>
    <otu id="u3" label="R"/>
  </otus>
  <trees id="trees1" otus="tax1">
    <tree id="tree1" xsi:type="nex:FloatTree">
      <node id="n1" root="true"/>
      <node id="n2" otu="t1"/>
      <node id="n3"/>
      <node id="n4" otu="t2"/>
      <node id="n5" otu="t3"/>
      <edge id="e1" source="n1" target="n2" length="1.0"/>
      <edge id="e2" source="n1" target="n3" length="1.0"/>
      <edge id="e3" source="n3" target="n4" length="1.0"/>
      <edge id="e4" source="n3" target="n5" length="1.0"/>
    </tree>
  </trees>
  <trees id="trees2" otus="tax2">
    <tree id="tree2" xsi:type="nex:FloatTree">
      <node id="m1" root="true"/>
      <node id="m2" otu="u1"/>
      <node id="m3"/>
      <node id="m4" otu="u2"/>
      <node id="m5" otu="u3"/>
      <edge id="f1" source="m1" target="m2" length="1.0"/>
      <edge id="f2" source="m1" target="m3" length="1.0"/>
      <edge id="f3" source="m3" target="m4" length="1.0"/>
      <edge id="f4" source="m3" target="m5" length="1.0"/>
    </tree>
  </trees>
</nex:nexml>
"""

# the same for NEXUS: two TAXA blocks sharing labels, a TREES block linked to each
NEXUS_TWO = ("#NEXUS\nbegin taxa; title first; dimensions ntax=3; taxlabels B P Q; end;\n"
             "begin taxa; title second; dimensions ntax=3; taxlabels Q P R; end;\n"
             "begin trees; title t1; link taxa = first; tree t = (B,(P,Q)); end;\n"
             "begin trees; title t2; link taxa = second; tree t = (Q,(P,R)); end;\n")
DS_SOURCES = {
    "nexml-two-otus": (NEXML_TWO, "nexml", ["B", "P", "Q", "R"]),
    "nexus-two-taxa": (NEXUS_TWO, "nexus", ["B", "P", "Q", "R"]),
    "nexus-full": (NEXUS_FULL, "nexus", ["A", "B", "D"]),
    "nexus-chars": (NEXUS_CHARS, "nexus", ["B", "E"]),
    "newick-overlap": ("(A,(B,F));((A,F),B);", "newick", ["A", "B", "F"]),
    "newick-new": ("(X,(Y,Z));", "newick", ["X", "Y", "Z"]),
    "newick-case": ("(a,(b,G));", "newick", ["a", "b", "G"]),
    # character data keyed by labels that are case variants of members: the readers resolve a name as the namespace does
    # a TREES block whose TRANSLATE statement introduces the taxa (no TAXA block) and whose tree names one of them by its LABEL
    "nexus-translate-by-label": ("#NEXUS\nBEGIN TREES;\n TRANSLATE 1 A, 2 B, 3 X;\n TREE t = (A,(2,3));\n TREE u = ((1,B),X);\nEND;\n", "nexus", ["A", "B", "X"]),
    "fasta-case": (">a\nACGT\n>b\nACGA\n>G\nAAAA\n", "fasta", ["a", "b", "G"]),
    "phylip-case": ("3 4\na ACGT\nb ACGA\nG AAAA\n", "phylip", ["a", "b", "G"]),
}


def _ds_components(ds):
    return list(ds.tree_lists) + list(ds.char_matrices)


def _ds_audit(ds, op, fails, strict_attached, registry_stale=False):
    att = ds.attached_taxon_namespace
    known = list(ds.taxon_namespaces)
    pairs = []
    for c in _ds_components(ds):
        ns = N.ns_of(c)
        errs = N.treelist_closure_errors(c) if isinstance(c, TreeList) else N.matrix_closure_errors(c)
        for e in errs:
            fails.append(("dataset.%s.closure" % op, e))
        if not registry_stale and not any(ns is k for k in known):
            fails.append(("dataset.%s.closure" % op, "a component's namespace is not among the data set's taxon_namespaces"))
        if att is not None and strict_attached and ns is not att:
            fails.append(("dataset.%s.attached-closure" % op, "a component refers to another namespace than the attached one"))
        if isinstance(c, TreeList):
            for t in c._trees:
                pairs.extend((ns, l, x) for l, x in zip(N.tree_labels(t), N.tree_taxa(t)))
        else:
            pairs.extend((ns, t.label, t) for t in c._taxon_sequence_map)
    # within each namespace shared by components: exactly equal labels -> one taxon
    by_ns = {}
    for ns, l, x in pairs:
        by_ns.setdefault(id(ns), []).append((l, x))
    for ps in by_ns.values():
        for e in N.label_function_errors(ps):
            fails.append(("dataset.%s.equal-labels-one-taxon" % op, e))


def _history_ds(case):
    cs = bool(case.get("cs", False))
    ds = DataSet()
    fails = []
    strict = True
    stale = False
    expect = []  # labels every read promised, per read: all must be present somewhere afterwards
    for j, op in enumerate(case["ops"]):
        name = op[0]
        try:
            if name == "attach":
                ns = _mk_ns(["A", "B", "C"] if op[1] == "abc" else [], cs)[0]
                if _ds_components(ds):
                    strict = False  # earlier components are not migrated by attach (documented for read() only)
                ds.attach_taxon_namespace(ns)
            elif name == "detach":
                ds.detach_taxon_namespace()
                strict = False
            elif name == "read":
                text, schema, labs = DS_SOURCES[op[1]]
                kw = {}
                if len(op) > 2 and op[2] == "kw-attached" and ds.attached_taxon_namespace is not None:
                    kw["taxon_namespace"] = ds.attached_taxon_namespace
                if len(op) > 2 and op[2] == "kw-other":
                    kw["taxon_namespace"] = _mk_ns(["A"], cs)[0]
                tgt = kw.get("taxon_namespace", ds.attached_taxon_namespace)
                kw.update(_rkw(tgt is not None and tgt.is_case_sensitive))
                if schema in ("fasta", "phylip"):
                    kw["data_type"] = "dna"
                    kw.pop("case_sensitive_taxon_labels", None)
                clash = ("taxon_namespace" in kw and ds.attached_taxon_namespace is not None
                         and kw["taxon_namespace"] is not ds.attached_taxon_namespace)
                folded = None
                if tgt is not None and not tgt.is_case_sensitive:
                    folded = collections.Counter(str(t.label).lower() for t in N.members(tgt))
                try:
                    ds.read(data=text, schema=schema, **kw)
                    if clash:
                        fails.append(("dataset.read.attached-closure", "read() accepted a namespace other than the attached one"))
                    expect.append(labs)
                    if folded is not None:
                        # a namespace that ignores case resolves a name to the member whose label equals it ignoring case: a read adds no second
                        # member for a label it already has in another case
                        now = collections.Counter(str(t.label).lower() for t in N.members(tgt))
                        dup = sorted(k for k in now if now[k] > 1 and now[k] > folded.get(k, 0))
                        if dup:
                            fails.append(("dataset.read.equal-labels-one-taxon", "reading %s into a namespace that ignores case left it with %r: a second member for %r"
                                          % (op[1], [t.label for t in N.members(tgt)], dup)))
                except ValueError:
                    if not clash:
                        raise
            elif name == "new_tree_list":
                kw = {}
                if op[1] == "other":
                    kw["taxon_namespace"] = _mk_ns(["A"], cs)[0]
                try:
                    tl = ds.new_tree_list(**kw)
                    if op[1] == "other" and ds.attached_taxon_namespace is not None:
                        fails.append(("dataset.new_tree_list.attached-closure", "a list over a foreign namespace was created in attached mode"))
                    t = _mk_tree(_B3, *(_mk_ns(["B", "C", "H"], cs)[::-1]))
                    tl.append(t)
                except TypeError:
                    if not (op[1] == "other" and ds.attached_taxon_namespace is not None):
                        raise
            elif name == "new_char_matrix":
                kw = {}
                if op[1] == "other":
                    kw["taxon_namespace"] = _mk_ns(["A"], cs)[0]
                try:
                    cm = ds.new_char_matrix("dna", **kw)
                    if op[1] == "other" and ds.attached_taxon_namespace is not None:
                        fails.append(("dataset.new_char_matrix.attached-closure", "a matrix over a foreign namespace was created in attached mode"))
                    ns = N.ns_of(cm)
                    if N.members(ns):
                        cm.new_sequence(N.members(ns)[0], "ACGT")
                except TypeError:
                    if not (op[1] == "other" and ds.attached_taxon_namespace is not None):
                        raise
            elif name == "add-own":  # a component that already lives in the attached namespace (or a fresh one)
                ns = ds.attached_taxon_namespace if ds.attached_taxon_namespace is not None else _mk_ns(["A", "B"], cs)[0]
                if op[1] == "tl":
                    tl = TreeList(taxon_namespace=ns)
                    tl.append(_mk_tree(_B3, *(_mk_ns(["A", "B", "K"], cs)[::-1])))
                    ds.add(tl)
                else:
                    cm = DnaCharacterMatrix(taxon_namespace=ns)
                    if N.members(ns):
                        cm.new_sequence(N.members(ns)[0], "ACGT")
                    ds.add(cm)
            elif name == "unify":
                if not (_ds_components(ds) or len(ds.taxon_namespaces)):
                    continue  # an empty data set asks for an explicit namespace (TypeError by design)
                if op[1] == "new":
                    ds.unify_taxon_namespaces()
                else:
                    ds.unify_taxon_namespaces(taxon_namespace=_mk_ns(["B", "D"], cs)[0])
                strict = True
                stale = False
            elif name == "component-migrate":
                # the caller moves one component to a namespace of its own: the data set is not told (its registry of
                # namespaces is the caller's to refresh), a later unification has to bring the component back
                comps = list(ds.tree_lists) if op[1] == "tl" else list(ds.char_matrices)
                if comps:
                    comps[0].migrate_taxon_namespace(_mk_ns(["B", "Z"], cs)[0])
                    strict = False
                    stale = True
            elif name == "tl-append":
                tls = list(ds.tree_lists)
                if tls:
                    tls[-1].append(_mk_tree(_B3, *(_mk_ns(["A", "D", "M"], cs)[::-1])))
            else:
                raise ValueError(name)
        except Timeout:
            raise
        except dperror.TaxonNamespaceReconstructionError:
            return []  # documented clash of case variants while re-keying a matrix
        except Exception as ex:
            lib, where = _is_lib_error(ex)
            if not lib:
                raise
            fails.append(("dataset.%s.raises" % name, "%s: %s (at %s)" % (type(ex).__name__, str(ex)[:160], where)))
        if not fails:
            _ds_audit(ds, name, fails, strict, registry_stale=stale)
            # nothing dropped: every label of every source read so far is still carried by a member
            have = set()
            for c in _ds_components(ds):
                if isinstance(c, TreeList):
                    for t in c._trees:
                        have.update(l.lower() for l in N.tree_labels(t) if l is not None)
                else:
                    have.update(t.label.lower() for t in c._taxon_sequence_map)
            for labs in expect:
                miss = [l for l in labs if l.lower() not in have]
                if miss:
                    fails.append(("dataset.%s.labels-preserved" % name, "labels %r of an earlier source are no longer carried by any member" % (miss,)))
                    break
        if fails:
            sub = dict(case, ops=case["ops"][: j + 1])
            return [(m, d, _key(sub), sub) for m, d in _dedupe(fails)]
    return []


# ----------------------------------------------------------------------------- TreeArray
def _history_ta(case):
    cs = bool(case.get("cs", False))
    ns, taxa = _mk_ns(["A", "B", "C", "D"], cs)
    ta = TreeArray(taxon_namespace=ns)
    sh4 = (None, [(None, [(0, []), (1, [])]), (2, []), (3, [])])
    fails = []
    for j, op in enumerate(case["ops"]):
        name = op[0]
        try:
            if name == "add_tree":
                if op[1] == "native":
                    ta.add_tree(_mk_tree(sh4, taxa, ns))
                else:
                    fns, ftaxa = _mk_ns(["A", "B", "C", "D"] if op[1] == "same-labels" else ["A", "B", "X", "Y"], cs)
                    try:
                        getattr(ta, op[2])(*(([0] if op[2] == "insert" else []) + [_mk_tree(sh4, ftaxa, fns)]))
                        fails.append(("treearray.%s.accepts-foreign-tree" % op[2], "a tree of another namespace was accessioned"))
                    except dperror.TaxonNamespaceIdentityError:
                        pass
            elif name == "read":
                ta.read(data="((A,B),C,D);((A,C),B,D);", schema="newick", **_rkw(cs))
            elif name == "read-kw-other":
                try:
                    ta.read(data="((A,B),C,D);", schema="newick", taxon_namespace=_mk_ns(["A"], cs)[0], **_rkw(cs))
                    fails.append(("treearray.read.accepts-foreign-tree", "read() accepted another namespace"))
                except (ValueError, TypeError):
                    pass
            else:
                raise ValueError(name)
        except Timeout:
            raise
        except Exception as ex:
            lib, where = _is_lib_error(ex)
            if not lib:
                raise
            fails.append(("treearray.%s.raises" % name, "%s: %s (at %s)" % (type(ex).__name__, str(ex)[:160], where)))
        if not fails:
            if N.ns_of(ta) is not ns or N.ns_of(ta.split_distribution) is not ns:
                fails.append(("treearray.%s.closure" % name, "array / distribution namespace object changed"))
            if len(ta):
                outs = [ta.consensus_tree(min_freq=0.5), ta.restore_tree(0)] + list(ta.topologies())
                for t in outs:
                    if N.ns_of(t) is not ns:
                        fails.append(("treearray.%s.closure" % name, "a reconstructed tree refers to another namespace"))
                    for e in N.tree_own_errors(t):
                        fails.append(("treearray.%s.closure" % name, e))
        if fails:
            sub = dict(case, ops=case["ops"][: j + 1])
            return [(m, d, _key(sub), sub) for m, d in _dedupe(fails)]
    return []


# ----------------------------------------------------------------------------- protocol
_RUN = {"treelist": _history_tl, "matrix": _history_m, "dataset": _history_ds, "treearray": _history_ta}


def _history_from_dict(case):
    """CharacterMatrix.from_dict into a namespace that already has members: ops = [[existing labels], [keys], flag]; the flag
    case_sensitive_taxon_labels (documented: how string keys are matched against the namespace) decides which keys are 'equal labels'"""
    existing, keys, flag = case["ops"][0][1:], case["ops"][1][1:], case["ops"][2][1]
    ns, _ = _mk_ns(list(existing), cs=case.get("cs", False))
    kw = {} if flag == "default" else {"case_sensitive_taxon_labels": flag}
    eff = False if flag == "default" else flag
    src = collections.OrderedDict((k, "ACGT"[i % 4] * 3) for i, k in enumerate(keys))
    # the specification: keys in order; a key names the first member whose label equals it (exactly / ignoring case), else a new member
    labels = list(existing)
    rows = {}
    for k, v in src.items():
        hit = None
        for i, l in enumerate(labels):
            if (l == k) if eff else (l.lower() == k.lower()):
                hit = i
                break
        if hit is None:
            labels.append(k)
            hit = len(labels) - 1
        rows[hit] = v
    fails = []
    key = _key(case)
    try:
        m = DnaCharacterMatrix.from_dict(src, taxon_namespace=ns, **kw)
    except Exception as ex:  # noqa
        return [("from_dict.raises", "%s: %s" % (type(ex).__name__, str(ex)[:120]), key, case)]
    got_labels = [t.label for t in N.members(ns)]
    if got_labels != labels:
        fails.append(("from_dict.equal_labels_one_taxon", "keys %r with case_sensitive_taxon_labels=%r into a namespace holding %r: members afterwards %r, required %r "
                      "(a key names the first member with an equal label under the flag, else a new member)" % (list(keys), flag, list(existing), got_labels, labels), key, case))
    else:
        mem = N.members(ns)
        got_rows = dict((i, m._taxon_sequence_map[t].symbols_as_string()) for i, t in enumerate(mem) if any(t is k for k in m._taxon_sequence_map))
        if got_rows != rows:
            fails.append(("from_dict.rows", "rows by member position %r, required %r" % (got_rows, rows), key, case))
    for t in m._taxon_sequence_map:
        if not any(t is x for x in N.members(ns)):
            fails.append(("matrix.closure", "from_dict: the row of %r sits on a taxon that is not a member of the matrix's namespace" % (t.label,), key, case))
    if N.ns_of(m) is not ns:
        fails.append(("matrix.namespace", "from_dict(taxon_namespace=ns): the matrix is not in ns", key, case))
    return fails


_RUN["from_dict"] = _history_from_dict


def _key(case):
    def f(o):
        return "(" + ",".join(f(x) if isinstance(x, list) else str(x) for x in o) + ")"
    return "%s|cs=%s|%s" % (case["what"], case.get("cs", False), ";".join(o[0] + f(o[1:]) for o in case["ops"]))


def run_case(case):
    try:
        with time_limit(20):
            return _RUN[case["what"]](case)
    except Timeout:
        return [(case["what"] + ".terminates", "no result within 20 s", _key(case), case)]


def eval_case(item):
    case = item["case"]
    return dict(scope=item["scope"], key=_key(case), nontrivial=item.get("nontrivial", True), fails=run_case(case), case=None)


# ----------------------------------------------------------------------------- enumeration
def tl_alphabet(cs, small=False):
    ops = []
    kinds = FOREIGN + ["native"]
    for k in kinds:
        for st in ("migrate", "add", "nounify"):
            ops.append(["append", k, st])
    for k in (["overlap", "casevar", "duplabel"] if small else kinds):
        for st in ("migrate", "add"):
            for pos in ("0", "mid"):
                ops.append(["insert", pos, k, st])
    pairs = [["overlap", "casevar"], ["same", "disjoint"], ["dupcase"], ["internal", "duplabel"], ["native", "overlap"]]
    for nm in ("extend-list", "iadd-list", "add-list", "ctor-list"):
        for p in pairs:
            ops.append([nm, p])
    for nm in ("extend-tl", "iadd-tl", "add-tl"):
        for fl in ("FL-overlap", "FL-case", "FL-same-ns"):
            ops.append([nm, fl])
    for k in kinds:
        for pos in ("0", "-1"):
            ops.append(["setitem", pos, k])
    for sl in ([0, 1], [0, 0], [1, 3]):
        for p in pairs[:4]:
            ops.append(["setslice-list", sl, p])
        for fl in ("FL-overlap", "FL-case", "FL-same-ns"):
            ops.append(["setslice-tl", sl, fl])
    ops.append(["getslice", [0, 2]])
    for r in ("r-overlap", "r-new", "r-case"):
        ops.append(["read", r])
        ops.append(["get", r])
    ops.append(["new_tree", "empty"])
    for k in ("overlap", "casevar", "native", "duplabel"):
        ops.append(["new_tree", k])
    for k in ("overlap", "disjoint", "native"):
        ops.append(["new_tree", "seed:" + k])
    for n in ("empty", "overlap", "cs-flip", "own"):
        ops.append(["migrate", n])
        ops.append(["clone", n])
    ops.append(["migrate-nounify", "empty"])
    ops += [["migrate-memo", "all"], ["migrate-memo", "some"], ["migrate-shared-memo", "migrate"], ["migrate-shared-memo", "reconstruct"]]
    ops += [["reconstruct"], ["update_ns"], ["pop", "0"], ["pop", "-1"], ["remove", "0"], ["del", "-1"], ["clear"],
            ["scoped_copy"], ["deepcopy"]]
    ops += [["rename", "A", "X"], ["rename", "B", "Q"]]
    return ops


def m_alphabet():
    ops = []
    for nm in ("new_sequence", "setitem", "getitem"):
        for who in ("free", "used", "foreign-new", "foreign-same-label", "label", "label-unknown", "index", "index-out"):
            ops.append([nm, who])
    for n in ("empty", "overlap", "cs-flip", "own"):
        ops.append(["migrate", n])
        ops.append(["clone", n])
    ops += [["reconstruct"], ["update_ns"], ["fill_taxa"], ["pack"]]
    ops += [["migrate-memo", "all"], ["migrate-memo", "some"], ["reconstruct-memo", "all"], ["reconstruct-memo", "some"]]
    for fn in ("add_sequences", "replace_sequences", "update_sequences", "extend_sequences", "extend_sequences+new", "extend_matrix"):
        for k in ("same-ns", "foreign"):
            ops.append(["merge", fn, k])
    return ops


def ds_alphabet():
    ops = [["attach", "abc"], ["attach", "empty"], ["detach"]]
    for s in sorted(DS_SOURCES):
        ops.append(["read", s])
    ops += [["read", "newick-overlap", "kw-attached"], ["read", "nexus-full", "kw-other"],
            ["new_tree_list", "own"], ["new_tree_list", "other"], ["new_char_matrix", "own"], ["new_char_matrix", "other"],
            ["add-own", "tl"], ["add-own", "cm"], ["unify", "new"], ["unify", "given"], ["tl-append"],
            ["component-migrate", "tl"], ["component-migrate", "cm"]]
    return ops


def ta_alphabet():
    ops = [["add_tree", "native"], ["read"], ["read-kw-other"]]
    for k in ("same-labels", "other-labels"):
        for fn in ("add_tree", "append", "insert"):
            ops.append(["add_tree", k, fn])
    return ops


def gen(what, alphabet_fn, lengths, scope, cs_values=(False, True), prefix=()):
    for cs in cs_values:
        alpha = alphabet_fn(cs) if what == "treelist" else alphabet_fn()
        for n in lengths:
            for combo in itertools.product(alpha, repeat=n):
                yield dict(scope=scope, nontrivial=(n >= 2), case=dict(what=what, cs=cs, ops=list(prefix) + [list(o) for o in combo]))


def gen_random(rng, what, alphabet_fn, count, lmin, lmax, scope):
    for _ in range(count):
        cs = rng.random() < 0.4
        alpha = alphabet_fn(cs) if what == "treelist" else alphabet_fn()
        ops = [list(alpha[rng.randrange(len(alpha))]) for _ in range(rng.randint(lmin, lmax))]
        yield dict(scope=scope, nontrivial=True, case=dict(what=what, cs=cs, ops=ops))


def _probe_dataset_add(ctx):
    """DataSet.add / attach on foreign components: observed, not failed (see docstring)"""
    ns, _ = _mk_ns(["A", "B", "C"])
    ds = DataSet()
    ds.attach_taxon_namespace(ns)
    fl = TreeList(taxon_namespace=_mk_ns(["A", "B", "D"])[0])
    ds.add(fl)
    if N.ns_of(fl) is not ns:
        ctx.note("observation (not failed): DataSet.add(tree_list) in attached mode leaves the list in its own namespace; "
                 "ds.taxon_namespaces then holds %d namespaces" % len(ds.taxon_namespaces))
    m = DnaCharacterMatrix(taxon_namespace=ns)
    m.new_sequence(N.members(ns)[0], "ACGT")
    try:
        m.reconstruct_taxon_namespace()
    except dperror.TaxonNamespaceReconstructionError as ex:
        ctx.note("observation (not failed): CharacterMatrix.reconstruct_taxon_namespace() / migrate_taxon_namespace(own namespace) "
                 "on a consistent matrix raises TaxonNamespaceReconstructionError (%s); the matrix stays closed" % ex)


# ----------------------------------------------------------------------------- driver
class _Rep(K.Reporter):
    def add(self, res):
        ctx = self.ctx
        ctx.case(res["scope"], res["key"], nontrivial=res.get("nontrivial", True), sample=res["key"])
        for mon, detail, key, case in res.get("fails", ()):
            tag = (mon, key)
            if tag in self.seen:
                continue
            self.seen.add(tag)
            n = self.per.get(mon, 0)
            if n >= self.cap:
                self.over[mon] = self.over.get(mon, 0) + 1
                continue
            if ctx.fail(mon, {"key": key, "scope": res["scope"], "case": case}, detail=detail):
                self.per[mon] = n + 1


def t2(ctx):
    import time
    quick = ctx.tier == "quick"
    rep = _Rep(ctx, cap=30)

    def run(scope, rule, exhaustive, items, chunk=100):
        t0 = time.time()
        ctx.scope(scope, rule=rule, exhaustive=exhaustive)
        for res in K.run_chunks(eval_case, items, chunk=chunk):
            rep.add(res)
        ctx.note("scope %s: %d evaluations in %.1f s" % (scope, ctx.scopes[scope]["evaluations"], time.time() - t0))

    na = len(tl_alphabet(False))
    run("treelist<=2", "every history of 1-2 TreeList operations (%d operations: append/insert x 8 tree kinds x {migrate, add, "
        "unify_taxa_by_label=False}, extend/+=/+/constructor with plain lists and with foreign/same-namespace TreeLists, item and slice "
        "assignment, slicing, read/get, new_tree, migrate/clone into 4 namespaces, reconstruct, update, pop/remove/del/clear, copies) "
        "x namespace case-sensitivity {off,on}; audited after every step; non-trivial = 2 operations" % na,
        True, gen("treelist", tl_alphabet, (1, 2), "treelist<=2"))
    if quick:
        run("treelist=3,random", "seeded random histories of 3 TreeList operations", False,
            gen_random(rng_for(ctx, 111), "treelist", tl_alphabet, 20000, 3, 3, "treelist=3,random"))
    else:
        small = lambda cs: tl_alphabet(cs, small=True)[::2]
        run("treelist=3,every-other-op", "every history of 3 operations over every second operation of the alphabet", True,
            gen("treelist", small, (3,), "treelist=3,every-other-op"))
        run("treelist=3-4,random", "seeded random histories of 3-4 TreeList operations over the full alphabet", False,
            gen_random(rng_for(ctx, 111), "treelist", tl_alphabet, 600000, 3, 4, "treelist=3-4,random"))
    run("matrix<=%d" % (2 if quick else 3), "every history of CharacterMatrix operations (%d operations: new_sequence / []= / [] with member, "
        "foreign, unknown keys; migrate/clone into 4 namespaces; reconstruct; update; fill_taxa; pack; the 6 sequence-merging methods with a "
        "same-namespace and a foreign matrix) x case-sensitivity" % len(m_alphabet()), True,
        gen("matrix", m_alphabet, (1, 2) if quick else (1, 2, 3), "matrix<=%d" % (2 if quick else 3)))
    run("dataset<=3", "every history of 1-3 DataSet operations (%d operations: attach/detach, read of 5 sources with and without "
        "taxon_namespace=, new_tree_list / new_char_matrix, add of own components, unify_taxon_namespaces, append to a member list) "
        "x case-sensitivity" % len(ds_alphabet()), True, gen("dataset", ds_alphabet, (1, 2, 3), "dataset<=3"), chunk=50)
    if not quick:
        run("dataset=4,attached", "every history of 3 further operations after attach_taxon_namespace({A,B,C})", True,
            gen("dataset", ds_alphabet, (3,), "dataset=4,attached", prefix=[["attach", "abc"]]), chunk=50)
    run("treearray<=3", "every history of 1-3 TreeArray accessions (native / foreign trees through add_tree, append, insert; read)", True,
        gen("treearray", ta_alphabet, (1, 2, 3), "treearray<=3"))
    items = []
    for cs in (False, True):
        for existing in ([], ["Human"], ["human", "Chimp"], ["A", "a"] if cs else ["A"]):
            for keys in (["a", "A"], ["HUMAN", "b"], ["human", "Human", "HUMAN"], ["chimp", "x"], ["x", "X", "y"]):
                for flag in ("default", False, True):
                    items.append(dict(scope="matrix.from_dict@case-variants", nontrivial=True,
                                      case=dict(what="from_dict", cs=cs, ops=[["existing"] + existing, ["keys"] + keys, ["flag", flag]])))
    run("matrix.from_dict@case-variants", "CharacterMatrix.from_dict(keys, taxon_namespace=ns, case_sensitive_taxon_labels=flag) for 4 member sets x 5 key lists "
        "with case variants x flag {default, False, True} x namespace case-sensitivity: a key names the first member with an equal label under the FLAG "
        "(as documented), else becomes exactly one new member; rows sit on those taxa", True, items)
    _probe_dataset_add(ctx)
    rep.finish()


def replay(ctx, rec):
    case = rec["witness"]["case"]
    fails = run_case(case)
    for m, d, k, c in fails:
        print("  %s :: %s" % (m, d))
    return not any(m == rec["obligation"] for m, d, k, c in fails)
