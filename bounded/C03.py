"""C03 (T2): trees stay well-formed arborescences under every history of mutating operations.

State = a real dendropy Tree; a history = a list of JSON-able operation descriptors (targets are
preorder indices in the CURRENT tree, so a history replays deterministically from its start tree).
After EVERY operation of a history the monitor is evaluated on the real tree:

  <op>.raises               an exception that is not the operation's documented refusal
  <op>.refused              a request the operation documents as refused was not refused (with that class)
  <op>.wellformed           specs.trees.arborescence_errors: seed parentless, every other node exactly once among
                            its parent's children, edge.head_node / edge.tail_node consistent, nothing shared / cyclic
                            (also evaluated after a raised exception: "...and leaves the tree well formed")
  <op>.traversals           preorder / postorder / levelorder / leaf / nodes() / internal_nodes()+leaf_nodes() /
                            postorder_edge_iter visit exactly the nodes reachable by an independent BFS, each once
                            (under a wall-clock guard: a cyclic structure makes them run forever)
  <op>.leaf_taxa            multiset of leaf taxa = (before) - (taxa of the leaves the request removes) + (taxa added)
  <op>.node_taxa            same over all nodes (used alone when a leaf is legitimately turned into the seed node)
  <op>.bipartitions_fresh   update_bipartitions=True (after the driver made the encoding current with a structure-
                            preserving encode) leaves every edge and tree.bipartition_encoding with what a fresh
                            encoding of the resulting tree holds (specs/bipart.py, bits recorded by the driver)
  <op>.debug_check          second opinion only: Tree._debug_tree_is_valid disagrees with the monitor (noted, not failed)

Input classes that carry a defect of the unchanged tree keep the same strict check under a suffixed name:
  to_outgroup_position@not_rooted.raises       (DESIGN.md section 8)
  collapse_unweighted_edges@leaf_length_missing.raises   (DESIGN.md section 8, operator precedence)
  reroot_at_midpoint@on_node.*                 (C07 defect: a leaf becomes the seed node)
  randomly_reorient@single_node.raises         (one-node tree: AssertionError)
  *@seed_unifurcation.*                        start/current tree whose seed node has exactly one child and an
                                               operation that re-seeds with suppress_unifurcations=True

Documented refusals (allowed outcome, tree must stay as it was): prune_subtree(seed) TypeError;
Edge.collapse on a leaf edge ValueError; Node.remove_child(non-child) ValueError;
filter_leaf_nodes rejecting every leaf, and prune_* / retain_* asked to remove the taxon of a one-node tree, SeedNodeDeletionException.

Left out on purpose (said here so nobody reads more into the evidence):
  * (requests that leave no taxon-bearing leaf -- prune_taxa of every taxon, retain_taxa of none -- used to be left out because they ended in an
    AttributeError on the seed node; that is not a documented error, the statement quantifies over all taxon sets, so it was a defect: repaired,
    and the requests are made since);
  * misuse the docstrings exclude: add_child of an ancestor or of a node that still has another parent,
    parent_node := a descendant, Edge.invert / Node.edge / Edge.head_node assignment by hand;
  * the taxon clauses for reseed_at / reroot_at_node at a LEAF (docstrings: "takes an internal node"; the leaf becomes
    the seed node, and on a two-leaf tree it is then suppressed together with its taxon): structural clauses only.
    reroot_at_midpoint re-seeds at a leaf in its defect class (@on_node): checked strictly there, it is a legal call.
"""
import itertools
import random
import warnings

from bounded.common import *  # noqa: F401,F403
from bounded.common import build_tree, shapes_upto, shapes_exact, length_patterns, pmap, rng_for, n_leaves, LABELS, with_unifurcations, time_limit, Timeout
from specs import trees as S
from bounded.guard import cpu_limit, CpuTimeout
from specs import bipart as BP
from specs import reroot as RR

from bounded.C08 import _tup, shape_str, random_shape

import dendropy
from dendropy.datamodel.taxonmodel import TaxonNamespace
from dendropy.datamodel.treemodel import Node, Tree, Bipartition
from dendropy.utility.error import SeedNodeDeletionException

MAX_REPORT_PER_MONITOR = 12
HANG_SECONDS = 3
HANG_LIMIT = 3      # per worker process and operation: afterwards the operation is reported without being run
_HANGS = {}
B2 = (False, True)
PATS = length_patterns()
PATS["zeros"] = lambda i, leaf: (0.0 if i % 2 else 1.5)
PATS["leafmissing"] = lambda i, leaf: (None if leaf else [0.5, 2.0, 1.25][i % 3])


# ----------------------------------------------------------------------------- state
class Env(object):
    """what the driver knows about the namespace: its own record of the bit of every taxon"""

    def __init__(self, ns):
        self.bitof = {t: i for i, t in enumerate(ns)}
        self.next_bit = len(self.bitof)
        self.fresh = 0

    def new_taxon(self, ns):
        self.fresh += 1
        t = ns.require_taxon(label="N%d" % self.fresh)
        if t not in self.bitof:
            self.bitof[t] = self.next_bit
            self.next_bit += 1
        return t


def mk(spec):
    shape = _tup(spec["shape"])
    n = n_leaves(shape)
    labs = LABELS[:n]
    kind = spec.get("ns", "exact")
    if kind == "exact":
        ns = TaxonNamespace(labs)
        taxa = list(ns)
        env = Env(ns)
    elif kind == "case":
        # two taxa whose labels differ in case only: in the (default, case-insensitive) namespace a label names BOTH
        labs = list(labs)
        if n >= 3:
            labs[2] = labs[1].lower()
        ns = TaxonNamespace(labs)
        taxa = list(ns)
        env = Env(ns)
    else:  # "removed": bits differ from list positions
        ns = TaxonNamespace(["X0"] + labs[:1] + ["X1"] + labs[1:])
        env = Env(ns)
        taxa = [t for t in ns if not t.label.startswith("X")]
        ns.remove_taxon(ns.get_taxon("X0"))
        ns.remove_taxon(ns.get_taxon("X1"))
    t = build_tree(shape, ns=ns, leaf_taxa=taxa, lengths=PATS[spec["pat"]], rooted=spec.get("rooted"))
    if spec.get("notaxon") is not None:
        ls = S.leaves(t._seed_node)
        ls[spec["notaxon"] % len(ls)].taxon = None
    return t, env


def spec_key(spec):
    k = "%s|%s|r=%s" % (shape_str(_tup(spec["shape"])), spec["pat"], {None: "N", True: "R", False: "U"}[spec.get("rooted")])
    if spec.get("ns", "exact") != "exact":
        k += "|ns=" + spec["ns"]
    if spec.get("notaxon") is not None:
        k += "|notaxon=%d" % spec["notaxon"]
    return k


def op_key(d):
    parts = [d["op"]]
    for k in sorted(d):
        if k != "op":
            v = d[k]
            if isinstance(v, bool):
                v = int(v)
            elif isinstance(v, (list, tuple)):
                v = "".join(str(x) for x in v)
            parts.append("%s=%s" % (k, v))
    return ",".join(parts)


def hist_key(spec, hist):
    return spec_key(spec) + " ; " + " ; ".join(op_key(d) for d in hist)


# ----------------------------------------------------------------------------- menus
def _opt(level, names):
    """option combinations: level 2 = every combination, 1 = defaults and all-flipped, 0 = defaults only"""
    defaults = dict(upd=False, sup=True, col=True, rec=True, adj=False, asc=True, unr=True, inc=False, plwt=False)
    base = {k: defaults[k] for k in names}
    if level == 0 or not names:
        return [base]
    if level == 1:
        return [base, {k: (not v) for k, v in base.items()}]
    return [dict(zip(names, vals)) for vals in itertools.product(B2, repeat=len(names))]


def menu(t, level, subset_level=None):
    """operation descriptors applicable to the current tree"""
    if subset_level is None:
        subset_level = level
    order = S.pre(t._seed_node)
    n = len(order)
    leaves = [i for i, x in enumerate(order) if not x._child_nodes]
    internal = [i for i, x in enumerate(order) if x._child_nodes]
    nonroot = list(range(1, n))
    leaf_taxa = [order[i].taxon for i in leaves if order[i].taxon is not None]
    labels = sorted(set(x.label for x in leaf_taxa))
    distinct = len(labels) == len(leaf_taxa) and len(leaf_taxa) == len(leaves)
    all_len = all(x._edge.length is not None for x in order[1:])
    ops = []
    add = ops.append
    if level < 0:
        return _mini_menu(order, n, leaves, internal, nonroot, labels, distinct, all_len)
    for i in range(n):
        for o in _opt(level, ["upd", "sup", "col"]):
            add(dict(op="reseed_at", t=i, **o))
            add(dict(op="reroot_at_node", t=i, **o))
    for i in nonroot:
        for lc in (("none", "half") if level else ("half",)):
            for o in _opt(level, ["upd", "sup"]):
                add(dict(op="reroot_at_edge", t=i, l=lc, **o))
        for o in _opt(level, ["upd", "sup"]):
            if o["sup"] and len(order[i]._child_nodes) == 1:
                continue  # the outgroup itself is a unifurcation the caller asks to suppress: contradictory request
            add(dict(op="to_outgroup_position", t=i, **o))
    if len(leaves) >= 2 and all_len and distinct:
        for o in _opt(level, ["upd", "sup", "col"]):
            add(dict(op="reroot_at_midpoint", **o))
    for sd in ((1, 2) if level else (1,)):
        for o in _opt(min(level, 1), ["upd"]):
            add(dict(op="randomly_reorient", seed=sd, **o))
    # pruning: subsets of the labels present (never all of them)
    subsets = []
    if labels:
        maxr = len(labels) - 1
        sizes = range(1, maxr + 1) if subset_level >= 2 else ([1] if subset_level <= 0 else sorted(set([1, maxr])))
        for r in sizes:
            if 1 <= r <= maxr:
                for c in itertools.combinations(labels, r):
                    subsets.append(list(c))
    for sub in subsets:
        for o in _opt(level, ["upd", "sup"]):
            add(dict(op="prune_taxa", s=sub, **o))
        # (in a case-insensitive namespace a label also names its case variants: a request that would name every leaf, or keep none, is not made)
        low = set(l.lower() for l in sub)
        names_all = all(l.lower() in low for l in labels)
        for o in _opt(min(level, 1), ["upd", "sup"]):
            if not names_all:
                add(dict(op="prune_taxa_with_labels", s=sub, **o))
            add(dict(op="retain_taxa", s=sub, **o))
            add(dict(op="retain_taxa_with_labels", s=sub, **o))
        for o in _opt(level, ["upd", "sup", "rec"]):
            add(dict(op="filter_leaf_nodes", s=sub, **o))
    if labels and distinct:
        # every taxon asked away / none asked to stay: the operation completes (or refuses with a documented error) and what is left is well formed
        for o in _opt(min(level, 1), ["upd", "sup"]):
            add(dict(op="prune_taxa", s=list(labels), **o))
            add(dict(op="prune_taxa_with_labels", s=list(labels), **o))
            add(dict(op="retain_taxa", s=[], **o))
            add(dict(op="retain_taxa_with_labels", s=[], **o))
    if labels:
        add(dict(op="filter_leaf_nodes", s=[], upd=False, sup=True, rec=True))  # documented refusal
    if labels:
        for o in _opt(level, ["upd", "sup", "rec"]):
            add(dict(op="prune_leaves_without_taxa", **o))
    for i in range(n):
        for o in _opt(level if i else 0, ["upd", "sup"]):
            if _survivors(order, [order[i]]) or i == 0:
                add(dict(op="prune_subtree", t=i, **o))
    for i in nonroot:
        if _survivors(order, [order[i]]):
            for o in _opt(min(level, 1), ["plwt", "upd", "sup"]):
                add(dict(op="prune_nodes", t=i, **o))
            add(dict(op="seed_of_new_tree", t=i))
            for sup in B2 if level else (False,):
                add(dict(op="remove_child", t=i, sup=sup))
                add(dict(op="reversible_remove_child", t=i, sup=sup, undo=False))
                add(dict(op="reversible_remove_child", t=i, sup=sup, undo=True))
    # collapsing
    for i in range(n):
        for o in _opt(level, ["adj"]):
            add(dict(op="edge_collapse", t=i, **o))
    for th in ((None, 1.0) if level else (None,)):
        for o in _opt(min(level, 1), ["upd"]):
            add(dict(op="collapse_unweighted_edges", th=th, **o))
    for i in internal:
        add(dict(op="collapse_clade", t=i))
        for dist in ((1, 2) if level else (1,)):
            add(dict(op="collapse_neighborhood", t=i, dist=dist))
    if level and len(labels) >= 3 and distinct:
        for i in internal[:2]:
            for c in itertools.combinations(labels, 2):
                add(dict(op="collapse_conflicting", t=i, s=list(c)))
    for o in _opt(min(level, 1), ["unr"]):
        add(dict(op="collapse_basal_bifurcation", **o))
        add(dict(op="polytomize_root", **o))
    add(dict(op="deroot"))
    for lim in ((2, 3) if level else (2,)):
        for sd in (None, 5):
            for o in _opt(min(level, 1), ["upd"]):
                add(dict(op="resolve_polytomies", limit=lim, seed=sd, **o))
    for o in _opt(min(level, 1), ["upd"]):
        add(dict(op="suppress_unifurcations", **o))
    for o in _opt(min(level, 1), ["asc"]):
        add(dict(op="ladderize", **o))
        add(dict(op="reorder", **o))
    add(dict(op="randomly_rotate", seed=3))
    for o in _opt(min(level, 1), ["inc"]):
        add(dict(op="shuffle_taxa", seed=4, **o))
    for o in _opt(level, ["sup", "col"]):
        add(dict(op="encode_bipartitions", **o))
    add(dict(op="update_bipartitions"))
    # children
    for i in range(n):
        k = len(order[i]._child_nodes)
        if k == 0 and order[i].taxon is not None:
            continue  # a child under a taxon-bearing leaf would make an internal node with a taxon (outside the property)
        add(dict(op="add_child", t=i))
        add(dict(op="new_child", t=i))
        for idx in sorted(set([0, 1, k])) if level else (0,):
            if idx <= k:
                add(dict(op="insert_child", t=i, idx=idx))
        add(dict(op="insert_new_child", t=i, idx=0))
        if k >= 2:
            add(dict(op="move_child", t=i, frm=k - 1, idx=0))
            if level:
                add(dict(op="move_child", t=i, frm=0, idx=k - 1))
                add(dict(op="move_child", t=i, frm=0, idx=0))
            add(dict(op="set_child_nodes", t=i))
        if k >= 1 and i and _survivors(order, [order[i]]) and level:
            add(dict(op="clear_child_nodes", t=i))
    if n >= 2:
        add(dict(op="remove_nonchild", t=0, c=0))
    for i in nonroot:
        sub = set(id(x) for x in S.pre(order[i]))
        cands = [j for j in range(n) if id(order[j]) not in sub and order[j] is not order[i]._parent_node
                 and (order[j]._child_nodes or order[j].taxon is None)]
        for j in (cands if level >= 2 else cands[:1]):
            add(dict(op="set_parent", t=i, p=j))
    for i in internal[1:]:
        if level:
            add(dict(op="set_seed_node", t=i))
    return ops


def _mini_menu(order, n, leaves, internal, nonroot, labels, distinct, all_len):
    """one representative per family of operations, default options, every target"""
    ops = []
    add = ops.append
    for i in range(n):
        add(dict(op="reseed_at", t=i, upd=False, sup=True, col=True))
        add(dict(op="edge_collapse", t=i, adj=False))
        if i == 0 or _survivors(order, [order[i]]):
            add(dict(op="prune_subtree", t=i, upd=False, sup=True))
    for i in nonroot:
        add(dict(op="reroot_at_edge", t=i, l="half", upd=False, sup=True))
        if len(order[i]._child_nodes) != 1:
            add(dict(op="to_outgroup_position", t=i, upd=False, sup=True))
        if _survivors(order, [order[i]]):
            add(dict(op="remove_child", t=i, sup=False))
    if len(leaves) >= 2 and all_len and distinct:
        add(dict(op="reroot_at_midpoint", upd=False, sup=True, col=True))
    if len(labels) >= 2:
        for l in labels:
            add(dict(op="prune_taxa", s=[l], upd=True, sup=True))
            add(dict(op="filter_leaf_nodes", s=[l], upd=False, sup=False, rec=True))
    for i in internal:
        add(dict(op="collapse_clade", t=i))
        add(dict(op="add_child", t=i))
    add(dict(op="collapse_basal_bifurcation", unr=True))
    add(dict(op="resolve_polytomies", limit=2, seed=None, upd=False))
    add(dict(op="suppress_unifurcations", upd=True))
    add(dict(op="encode_bipartitions", sup=True, col=True))
    add(dict(op="shuffle_taxa", seed=4, inc=False))
    add(dict(op="ladderize", asc=True))
    for i in nonroot:
        sub = set(id(x) for x in S.pre(order[i]))
        cands = [j for j in range(n) if id(order[j]) not in sub and order[j] is not order[i]._parent_node
                 and (order[j]._child_nodes or order[j].taxon is None)]
        for j in cands[:1]:
            add(dict(op="set_parent", t=i, p=j))
    return ops


def _survivors(order, removed_roots):
    """labels of taxon-bearing leaves that are not below any of removed_roots"""
    gone = set()
    for r in removed_roots:
        for x in S.pre(r):
            gone.add(id(x))
    return [x.taxon.label for x in order if not x._child_nodes and x.taxon is not None and id(x) not in gone]


# ----------------------------------------------------------------------------- applying one operation
class Plan(object):
    """what the request is entitled to change, computed on the tree BEFORE the call"""

    def __init__(self):
        self.removed = []          # nodes whose subtrees the request removes
        self.added = []            # taxa the request adds (on new leaves)
        self.added_internal = []   # ... on nodes that are not leaves afterwards
        self.refusal = None        # exception class of a documented refusal
        self.may_refuse = None     # exception class of a refusal that is allowed but not required
        self.leafcheck = True
        self.nodecheck = True
        self.permute = False
        self.prefix = None
        self.call = None


def plan(t, env, d):
    order = S.pre(t._seed_node)
    op = d["op"]
    tg = order[d["t"]] if "t" in d else None
    P = Plan()
    P.prefix = op
    ns = t.taxon_namespace
    seed_unif = len(order[0]._child_nodes) == 1
    o = d
    if op in ("reseed_at", "reroot_at_node"):
        if not tg._child_nodes:
            # docstring: "takes an internal node"; at a leaf only the structural clauses are demanded
            P.leafcheck = False
            P.nodecheck = False
        f = getattr(t, op)
        P.call = lambda: f(tg, update_bipartitions=o["upd"], suppress_unifurcations=o["sup"], collapse_unrooted_basal_bifurcation=o["col"])
    elif op == "reroot_at_edge":
        e = tg._edge
        old = e.length
        l1, l2 = (None, None) if o["l"] == "none" else ((old or 0) / 2.0, (old or 0) / 2.0)
        P.call = lambda: t.reroot_at_edge(e, length1=l1, length2=l2, update_bipartitions=o["upd"], suppress_unifurcations=o["sup"])
    elif op == "reroot_at_midpoint":
        if RR.center_on_node(t):
            P.prefix = "reroot_at_midpoint@on_node"
            P.leafcheck = False
        elif seed_unif:
            P.prefix = op + "@seed_unifurcation"
        P.call = lambda: t.reroot_at_midpoint(update_bipartitions=o["upd"], suppress_unifurcations=o["sup"], collapse_unrooted_basal_bifurcation=o["col"])
    elif op == "to_outgroup_position":
        if seed_unif and o["sup"]:
            P.prefix = op + "@seed_unifurcation"
        elif not t._is_rooted:
            P.prefix = op + "@not_rooted"
        P.call = lambda: t.to_outgroup_position(tg, update_bipartitions=o["upd"], suppress_unifurcations=o["sup"])
    elif op == "randomly_reorient":
        if len(order) == 1:
            P.prefix = op + "@single_node"
        elif seed_unif:
            P.prefix = op + "@seed_unifurcation"
        elif not t._is_rooted:
            P.prefix = op + "@not_rooted"
        P.call = lambda: t.randomly_reorient(rng=random.Random(o["seed"]), update_bipartitions=o["upd"])
    elif op in ("prune_taxa", "prune_taxa_with_labels", "retain_taxa", "retain_taxa_with_labels", "filter_leaf_nodes"):
        sel = set(o["s"])
        taxa = [x for x in ns if x.label in sel]
        if op.endswith("_with_labels") and not ns.is_case_sensitive:
            # a label names every taxon whose label matches it under the namespace's case rule
            low = set(l.lower() for l in sel)
            named = lambda lab: lab.lower() in low
        else:
            named = lambda lab: lab in sel
        if op.startswith("prune"):
            P.removed = [x for x in order if not x._child_nodes and x.taxon is not None and named(x.taxon.label)]
        else:
            P.removed = [x for x in order if not x._child_nodes and x.taxon is not None and not named(x.taxon.label)]
        if op != "filter_leaf_nodes" and any(x is t._seed_node for x in P.removed):
            # the seed node itself carries a taxon asked away (a one-node tree): documented refusal, the tree stays as it is
            P.refusal = SeedNodeDeletionException
            P.removed = []
        elif op != "filter_leaf_nodes" and t._seed_node.taxon is not None and \
                (named(t._seed_node.taxon.label) if op.startswith("prune") else not named(t._seed_node.taxon.label)):
            # an INTERNAL seed node carries a taxon asked away (a tree re-seeded at a leaf): it becomes a tip when all its children go, and the
            # seed node cannot be removed -- the documented refusal is an allowed outcome then (well-formedness still demanded)
            P.may_refuse = SeedNodeDeletionException
        if op == "prune_taxa":
            P.call = lambda: t.prune_taxa(taxa, update_bipartitions=o["upd"], suppress_unifurcations=o["sup"])
        elif op == "prune_taxa_with_labels":
            P.call = lambda: t.prune_taxa_with_labels(sorted(sel), update_bipartitions=o["upd"], suppress_unifurcations=o["sup"])
        elif op == "retain_taxa":
            P.call = lambda: t.retain_taxa(set(taxa), update_bipartitions=o["upd"], suppress_unifurcations=o["sup"])
        elif op == "retain_taxa_with_labels":
            P.call = lambda: t.retain_taxa_with_labels(sorted(sel), update_bipartitions=o["upd"], suppress_unifurcations=o["sup"])
        else:
            if not sel:
                P.refusal = SeedNodeDeletionException
                P.removed = []
                P.leafcheck = False  # a refused filter has already detached leaves; only well-formedness is demanded
                P.permute = None
            P.call = lambda: t.filter_leaf_nodes(lambda nd: nd.taxon is not None and nd.taxon.label in sel, recursive=o["rec"],
                                                 update_bipartitions=o["upd"], suppress_unifurcations=o["sup"])
    elif op == "prune_leaves_without_taxa":
        P.call = lambda: t.prune_leaves_without_taxa(recursive=o["rec"], update_bipartitions=o["upd"], suppress_unifurcations=o["sup"])
    elif op == "prune_subtree":
        if tg._parent_node is None:
            P.refusal = TypeError
        else:
            P.removed = [tg]
        P.call = lambda: t.prune_subtree(tg, update_bipartitions=o["upd"], suppress_unifurcations=o["sup"])
    elif op == "prune_nodes":
        P.removed = [tg]
        P.call = lambda: t.prune_nodes([tg], prune_leaves_without_taxa=o["plwt"], update_bipartitions=o["upd"], suppress_unifurcations=o["sup"])
    elif op == "remove_child":
        P.removed = [tg]
        par = tg._parent_node
        P.call = lambda: par.remove_child(tg, suppress_unifurcations=o["sup"])
    elif op == "seed_of_new_tree":
        # Tree(seed_node=<a clade of this tree>): documented to splice the clade out of this tree (a warning says so); this tree stays well formed
        # and loses exactly that clade
        P.removed = [tg]

        def _donate():
            nt = Tree(seed_node=tg, taxon_namespace=ns)
            if nt._seed_node is not tg or tg._parent_node is not None:
                raise AssertionError("the new tree's seed node is not the clade, or the clade still has a parent")
            _KEEP_TREES.append(nt)
            del _KEEP_TREES[:-8]
        P.call = _donate
    elif op == "reversible_remove_child":
        par = tg._parent_node
        if not o["undo"]:
            P.removed = [tg]
            P.call = lambda: par.reversible_remove_child(tg, suppress_unifurcations=o["sup"])
        else:
            def both():
                info = par.reversible_remove_child(tg, suppress_unifurcations=o["sup"])
                par.reinsert_nodes(info)
            P.call = both
    elif op == "remove_nonchild":
        other = Node()
        P.refusal = ValueError
        P.call = lambda: order[0].remove_child(other)
    elif op == "edge_collapse":
        e = tg._edge
        if not tg._child_nodes and tg._parent_node is not None:
            P.refusal = ValueError
        P.call = lambda: e.collapse(adjust_collapsed_head_children_edge_lengths=o["adj"])
    elif op == "collapse_unweighted_edges":
        if any((not x._child_nodes) and x._edge.length is None and x._parent_node is not None for x in order):
            P.prefix = op + "@leaf_length_missing"
        if o["th"] is None:
            P.call = lambda: t.collapse_unweighted_edges(update_bipartitions=o["upd"])
        else:
            P.call = lambda: t.collapse_unweighted_edges(threshold=o["th"], update_bipartitions=o["upd"])
    elif op == "collapse_clade":
        P.call = lambda: tg.collapse_clade()
    elif op == "collapse_neighborhood":
        P.call = lambda: tg.collapse_neighborhood(o["dist"])
    elif op == "collapse_conflicting":
        full = 0
        for x in order:
            if not x._child_nodes and x.taxon is not None:
                full |= 1 << env.bitof[x.taxon]
        m = 0
        for x in ns:
            if x.label in o["s"]:
                m |= 1 << env.bitof[x]

        def cc():
            t.encode_bipartitions(suppress_unifurcations=False, collapse_unrooted_basal_bifurcation=False)
            b = Bipartition(leafset_bitmask=m, tree_leafset_bitmask=full, is_rooted=t._is_rooted, compile_bipartition=True)
            tg.collapse_conflicting(b)
        P.call = cc
    elif op == "collapse_basal_bifurcation":
        P.call = lambda: t.collapse_basal_bifurcation(set_as_unrooted_tree=o["unr"])
    elif op == "polytomize_root":
        P.call = lambda: t.polytomize_root(set_as_unrooted_tree=o["unr"])
    elif op == "deroot":
        P.call = lambda: t.deroot()
    elif op == "resolve_polytomies":
        P.call = lambda: t.resolve_polytomies(limit=o["limit"], update_bipartitions=o["upd"], rng=(None if o["seed"] is None else random.Random(o["seed"])))
    elif op == "suppress_unifurcations":
        P.call = lambda: t.suppress_unifurcations(update_bipartitions=o["upd"])
    elif op == "ladderize":
        P.call = lambda: t.ladderize(ascending=o["asc"])
    elif op == "reorder":
        P.call = lambda: t.reorder(ascending=o["asc"])
    elif op == "randomly_rotate":
        P.call = lambda: t.randomly_rotate(rng=random.Random(o["seed"]))
    elif op == "shuffle_taxa":
        P.permute = True
        P.call = lambda: t.shuffle_taxa(include_internal_nodes=o["inc"], rng=random.Random(o["seed"]))
    elif op == "encode_bipartitions":
        P.call = lambda: t.encode_bipartitions(suppress_unifurcations=o["sup"], collapse_unrooted_basal_bifurcation=o["col"])
    elif op == "update_bipartitions":
        P.call = lambda: t.update_bipartitions()
    elif op in ("add_child", "new_child", "insert_child", "insert_new_child"):
        tx = env.new_taxon(ns)
        P.added = [tx]
        if not tg._child_nodes and tg.taxon is not None:
            P.removed_leaf_becomes_internal = tg
        if op == "add_child":
            nd = Node(taxon=tx, edge_length=0.5)
            P.call = lambda: tg.add_child(nd)
        elif op == "new_child":
            P.call = lambda: tg.new_child(taxon=tx, edge_length=0.5)
        elif op == "insert_child":
            nd = Node(taxon=tx, edge_length=0.5)
            P.call = lambda: tg.insert_child(o["idx"], nd)
        else:
            P.call = lambda: tg.insert_new_child(o["idx"], taxon=tx, edge_length=0.5)
    elif op == "move_child":
        ch = tg._child_nodes[o["frm"]]
        P.call = lambda: tg.insert_child(o["idx"], ch)
    elif op == "set_child_nodes":
        ch = list(reversed(tg._child_nodes))
        P.call = lambda: tg.set_child_nodes(ch)
    elif op == "clear_child_nodes":
        P.removed = list(tg._child_nodes)
        P.call = lambda: tg.clear_child_nodes()
    elif op == "set_parent":
        newp = order[o["p"]]
        if not newp._child_nodes and newp.taxon is not None:
            P.removed_leaf_becomes_internal = newp

        def sp():
            tg.parent_node = newp
        P.call = sp
    elif op == "set_seed_node":
        P.removed = [c for c in _outside(order, tg)]

        def ss():
            with warnings.catch_warnings():
                warnings.simplefilter("ignore")
                t.seed_node = tg
        P.call = ss
    else:
        raise ValueError(op)
    return P


def _outside(order, tg):
    """maximal subtrees that are not below tg (what splicing tg out as the new seed discards)"""
    out = []
    x = tg
    while x._parent_node is not None:
        p = x._parent_node
        for c in p._child_nodes:
            if c is not x:
                out.append(c)
        x = p
    return out


def taxa_multiset(nodes):
    d = {}
    for x in nodes:
        if x.taxon is not None:
            d[x.taxon.label] = d.get(x.taxon.label, 0) + 1
    return d


def _sub(d, e):
    out = dict(d)
    for k, v in e.items():
        out[k] = out.get(k, 0) - v
        if out[k] == 0:
            del out[k]
    return out


def step(t, env, d):
    """apply one operation to the real tree and evaluate the monitor.  -> list of (monitor, detail)"""
    fails = []
    upd = bool(d.get("upd")) or d["op"] in ("encode_bipartitions", "update_bipartitions")
    order = S.pre(t._seed_node)
    if d.get("upd"):
        # make the encoding current without touching the structure (precondition of the freshness clause)
        t.encode_bipartitions(suppress_unifurcations=False, collapse_unrooted_basal_bifurcation=False)
    P = plan(t, env, d)
    leaves_before = [x for x in order if not x._child_nodes]
    gone = set()
    for r in P.removed:
        for x in S.pre(r):
            gone.add(id(x))
    exp_leaf = taxa_multiset([x for x in leaves_before if id(x) not in gone])
    exp_node = taxa_multiset([x for x in order if id(x) not in gone])
    internal_taxa_before = any(x.taxon is not None for x in order if x._child_nodes)
    for tx in P.added:
        exp_leaf[tx.label] = exp_leaf.get(tx.label, 0) + 1
        exp_node[tx.label] = exp_node.get(tx.label, 0) + 1
    grown = getattr(P, "removed_leaf_becomes_internal", None)
    if grown is not None:
        exp_leaf = _sub(exp_leaf, {grown.taxon.label: 1})
    name = lambda c: "%s.%s" % (P.prefix, c)
    raised = None
    if _HANGS.get(d["op"], 0) >= HANG_LIMIT:
        return [(name("terminates"), "not run: this operation already hung %d times in this worker" % HANG_LIMIT)], True
    try:
        with cpu_limit(HANG_SECONDS):
            with warnings.catch_warnings():
                warnings.simplefilter("ignore")
                P.call()
    except CpuTimeout:
        _HANGS[d["op"]] = _HANGS.get(d["op"], 0) + 1
        return [(name("terminates"), "no result after %s s of CPU time" % HANG_SECONDS)], True
    except Exception as ex:
        raised = ex
    if raised is not None:
        if P.refusal is not None and isinstance(raised, P.refusal):
            pass
        elif P.may_refuse is not None and isinstance(raised, P.may_refuse):
            pass
        else:
            fails.append((name("raises"), "%s: %s" % (type(raised).__name__, raised)))
    elif P.refusal is not None:
        fails.append((name("refused"), "the request was not refused with %s" % P.refusal.__name__))
    errs = S.arborescence_errors(t)
    if errs:
        fails.append((name("wellformed" if raised is None else "wellformed_after_error"), "; ".join(errs[:3])))
        return fails, True
    reach = S.bfs_nodes(t._seed_node)
    tv = traversal_errors(t, reach)
    if tv:
        fails.append((name("traversals"), tv))
        return fails, True
    try:
        second = t._debug_tree_is_valid()
    except AssertionError as ex:
        second = False
    except Exception as ex:  # the self-check itself is not under test
        second = True
    if not second:
        fails.append((name("debug_check"), "Tree._debug_tree_is_valid rejects a tree the monitor accepts"))
    if raised is not None:
        if P.refusal is not None and isinstance(raised, P.refusal) and P.permute is not None:
            # a refusal leaves the tree as it was
            if [id(x) for x in S.pre(t._seed_node)] != [id(x) for x in order]:
                fails.append((name("refused"), "the refused request changed the tree"))
        return fails, bool(fails)
    leaves_after = [x for x in reach if not x._child_nodes]
    got_leaf = taxa_multiset(leaves_after)
    got_node = taxa_multiset(reach)
    if not P.nodecheck or internal_taxa_before:
        pass
    elif got_node != exp_node:
        fails.append((name("node_taxa"), "taxa on the nodes %r, required %r" % (_ms(got_node), _ms(exp_node))))
    elif P.leafcheck and not internal_taxa_before and got_leaf != exp_leaf:
        fails.append((name("leaf_taxa"), "leaf taxa %r, required %r: %s" % (_ms(got_leaf), _ms(exp_leaf), S.tree_newick(t, lengths=False))))
    if upd:
        e = BP.encoding_errors(t, env.bitof, reach)
        if e:
            fails.append((name("bipartitions_fresh"), "; ".join(e[:3])))
        elif d["op"] in ("encode_bipartitions", "update_bipartitions") and raised is None:
            # "exactly what a fresh encoding would produce": encoding the result once more, with the same options, finds nothing left to do --
            # same nodes in the same places, an encoding list of the same length (an encoding changes the structure where it suppresses
            # unifurcations or collapses the basal bifurcation of a tree that is not rooted; whatever it had to do, it has done)
            sig = [id(x) for x in S.pre(t._seed_node)]
            n_enc = len(t.bipartition_encoding) if t.bipartition_encoding is not None else None
            try:
                with warnings.catch_warnings():
                    warnings.simplefilter("ignore")
                    P.call()
                sig2 = [id(x) for x in S.pre(t._seed_node)]
                n2 = len(t.bipartition_encoding) if t.bipartition_encoding is not None else None
                if sig2 != sig or n2 != n_enc:
                    fails.append((name("bipartitions_fresh"), "the same encoding call repeated on the result changes it: %d nodes / %r bipartitions, then %d nodes / %r "
                                  "(%s)" % (len(sig), n_enc, len(sig2), n2, S.tree_newick(t, lengths=False))))
            except Exception as ex:  # noqa
                fails.append((name("bipartitions_fresh"), "the same encoding call repeated on the result raises %s: %s" % (type(ex).__name__, ex)))
    return fails, False


_KEEP_TREES = []


def _ms(d):
    return " ".join("%s%s" % (k, "" if v == 1 else "x%d" % v) for k, v in sorted(d.items()))


def traversal_errors(t, reach):
    want = sorted(id(x) for x in reach)
    leaves = sorted(id(x) for x in reach if not x._child_nodes)
    try:
        with cpu_limit(10):
            for nm, it in (("preorder_node_iter", t.preorder_node_iter), ("postorder_node_iter", t.postorder_node_iter),
                           ("levelorder_node_iter", t.levelorder_node_iter), ("nodes", t.nodes)):
                got = sorted(id(x) for x in it())
                if got != want:
                    return "%s yields %d nodes (%d distinct), %d are reachable" % (nm, len(got), len(set(got)), len(want))
            got = sorted(id(x) for x in t.leaf_node_iter())
            if got != leaves:
                return "leaf_node_iter yields %d nodes, %d reachable leaves" % (len(got), len(leaves))
            got = sorted([id(x) for x in t.internal_nodes()] + [id(x) for x in t.leaf_nodes()])
            if got != want:
                return "internal_nodes() + leaf_nodes() is not a partition of the reachable nodes"
            got = sorted(id(e) for e in t.postorder_edge_iter())
            if got != sorted(id(x._edge) for x in reach):
                return "postorder_edge_iter does not yield exactly the edges of the reachable nodes"
            for x in reach:
                if x.parent_node is not x._parent_node or x.child_nodes() != list(x._child_nodes) or x.edge.head_node is not x \
                        or x.edge.tail_node is not x._parent_node:
                    return "public accessors disagree with the raw pointers"
    except CpuTimeout:
        return "a traversal did not terminate within 10 s"
    return None


# ----------------------------------------------------------------------------- histories
def run_history(spec, hist):
    """replay a history from its start tree; -> (tree, env, fails of the LAST operation, broken)"""
    t, env = mk(spec)
    fails, broken = [], False
    for d in hist:
        fails, broken = step(t, env, d)
        if broken:
            break
    return t, env, fails, broken


def apply_quiet(t, env, d):
    """the state change of step() without the monitors (used to replay the prefix of a history)"""
    if d.get("upd"):
        t.encode_bipartitions(suppress_unifurcations=False, collapse_unrooted_basal_bifurcation=False)
    P = plan(t, env, d)
    try:
        with warnings.catch_warnings():
            warnings.simplefilter("ignore")
            P.call()
    except Exception:
        pass


def explore(item):
    """exhaustive histories from one start tree.  item = (spec, levels, sublevels, first) with levels = menu level per
    depth.  first = None: everything; first = i: only histories whose first operation is the i-th of the depth-0 menu;
    first = (i, j): only the histories of length >= 3 that start with the i-th and then the j-th operation (their two
    first evaluations are counted and reported by the item with first = i and levels cut to two), so that the parent
    can fan out deep explorations evenly"""
    spec, levels, sublevels, first = item
    out = []
    flags = []
    big = len(S.pre(mk(spec)[0]._seed_node)) >= 4

    def rec(prefix, depth):
        t, env = mk(spec)
        for d in prefix:
            apply_quiet(t, env, d)
        ops = menu(t, levels[depth], sublevels[depth])
        if depth == 0 and isinstance(first, int):
            ops = ops[first:first + 1]
        for d in ops:
            hist = prefix + [d]
            t2, env2 = mk(spec)
            for dd in prefix:
                apply_quiet(t2, env2, dd)
            fails, broken = step(t2, env2, d)
            flags.append(len(hist) >= 2 or big)
            for nm, detail in fails:
                out.append((nm, hist, detail))
            if not broken and depth + 1 < len(levels):
                rec(hist, depth + 1)

    if isinstance(first, tuple):
        t, env = mk(spec)
        prefix = []
        for depth, i in enumerate(first):
            ops = menu(t, levels[depth], sublevels[depth])
            if i >= len(ops):
                return dict(n=0, nontrivial=[], fails=[])
            fails, broken = step(t, env, ops[i])
            prefix.append(ops[i])
            if broken:
                return dict(n=0, nontrivial=[], fails=[])
        rec(prefix, len(first))
    else:
        rec([], 0)
    return dict(n=len(flags), nontrivial=flags, fails=out)


def fan_out(specs, levels, sublevels=None):
    sublevels = sublevels or levels
    items = []
    for sp in specs:
        if len(levels) == 1:
            items.append((sp, levels, sublevels, None))
            continue
        t0, env0 = mk(sp)
        ops0 = menu(t0, levels[0], sublevels[0])
        for i, d in enumerate(ops0):
            items.append((sp, levels[:2], sublevels[:2], i))
            if len(levels) >= 3:
                t, env = mk(sp)
                apply_quiet(t, env, d)
                try:
                    k = len(menu(t, levels[1], sublevels[1])) if not S.arborescence_errors(t) else 0
                except Exception:
                    k = 0
                for j in range(k):
                    items.append((sp, levels, sublevels, (i, j)))
    return items


SHRINKING = ("prune_taxa", "prune_taxa_with_labels", "retain_taxa", "retain_taxa_with_labels", "filter_leaf_nodes", "prune_subtree",
             "prune_nodes", "remove_child", "reversible_remove_child", "clear_child_nodes", "set_seed_node", "prune_leaves_without_taxa")


def random_histories(item):
    """one seeded history: the operation family is drawn uniformly, then the instance (target, options) uniformly;
    families that take leaves away are drawn only while the tree has more than 6 leaves, so that histories get long"""
    spec, seed, length = item
    rng = random.Random(seed)
    t, env = mk(spec)
    hist = []
    out = []
    flags = []
    for k in range(length):
        ops = menu(t, 2, 1)
        nleaves = len(S.leaves(t._seed_node))
        if nleaves <= 6:
            ops = [d for d in ops if d["op"] not in SHRINKING or d.get("undo")]
        if not ops:
            break
        fam = rng.choice(sorted(set(d["op"] for d in ops)))
        d = rng.choice([x for x in ops if x["op"] == fam])
        hist = hist + [d]
        fails, broken = step(t, env, d)
        flags.append(True)
        for nm, detail in fails:
            out.append((nm, hist, detail))
        if broken:
            break
    return dict(n=len(flags), nontrivial=flags, fails=out)


# ----------------------------------------------------------------------------- driver
def _hash(s):
    import zlib
    return "%x" % (zlib.crc32(s.encode("utf8")) | (zlib.adler32(s.encode("utf8")) << 32))


def _run_scope(ctx, sc, rule, exhaustive, fn, items, reported, keyf):
    import time
    t0 = time.time()
    ctx.scope(sc, rule=rule, exhaustive=exhaustive)
    res = pmap(fn, items, chunksize=4)
    t1 = time.time()
    for it, r in zip(items, res):
        spec = it[0]
        k0 = keyf(it)
        kh = _hash(k0)
        for i, nt in enumerate(r["nontrivial"]):
            ctx.case(sc, key="%s#%d" % (kh, i), nontrivial=nt, sample=(k0 if i < 3 else ""))
        for nm, hist, detail in r["fails"]:
            if nm.endswith(".debug_check"):
                # second opinion only (DESIGN.md): recorded, never a verdict
                if reported.get(nm, 0) == 0:
                    ctx.note("second opinion: %s :: %s :: %s" % (nm, hist_key(spec, hist), detail))
                reported[nm] = reported.get(nm, 0) + 1
                continue
            cnt = reported.get(nm, 0)
            reported[nm] = cnt + 1
            if cnt < MAX_REPORT_PER_MONITOR:
                src = S.tree_newick(mk(spec)[0])
                ctx.fail(nm, dict(key=hist_key(spec, hist), spec=spec, history=hist, source=src, scope=sc),
                         detail="%s from %s :: %s" % (" ; ".join(op_key(d) for d in hist), src, detail))
    ctx.note("%s: %d items, workers %.1fs, accounting %.1fs" % (sc, len(items), t1 - t0, time.time() - t1))


def _starts(shapes, pats, rootings, extra=()):
    out = []
    for s in shapes:
        for p in pats:
            for r in rootings:
                out.append(dict(shape=s, pat=p, rooted=r))
                for e in extra:
                    x = dict(shape=s, pat=p, rooted=r)
                    x.update(e)
                    out.append(x)
    return out


def internal_label_scope(ctx):
    """trees whose INTERNAL nodes carry taxa: pruning / retaining by a label or taxon that only an internal node carries removes no leaf (the filters
    apply to leaves unless the caller says otherwise), and asking for internal nodes as well removes exactly the clade named"""
    sc = "internal-node-taxa@prune-by-label"
    ctx.scope(sc, rule="3 trees with taxa on internal nodes x {prune_taxa_with_labels, prune_taxa, retain_taxa_with_labels of the complement} x every internal label "
                       "x suppress_unifurcations x is_apply_filter_to_internal_nodes {default, True}: leaf taxa afterwards = leaf taxa before minus the leaves "
                       "named (none by default; the leaves below the named node when internal nodes are included); tree well formed", exhaustive=True)
    for nw in ("((A,B)X,(C,(D,E)Z)Y)R;", "((A,B)X,C)R;", "(A,(B,(C,D)Z)Y);"):
        probe = dendropy.Tree.get(data=nw, schema="newick", suppress_internal_node_taxa=False)
        internal = [nd.taxon.label for nd in probe.preorder_internal_node_iter() if nd.taxon is not None and nd is not probe.seed_node]
        for lab in internal:
            for api in ("prune_taxa_with_labels", "prune_taxa", "retain_taxa_with_labels"):
                for sup in (True, False):
                    for inc in (None, True):
                        t = dendropy.Tree.get(data=nw, schema="newick", suppress_internal_node_taxa=False)
                        before = sorted(l.taxon.label for l in t.leaf_node_iter())
                        below = sorted(l.taxon.label for l in t.find_node_with_taxon_label(lab).leaf_iter())
                        key = "%s|%s(%s)|sup=%r|internal=%r" % (nw, api, lab, sup, inc)
                        ctx.case(sc, key, True)
                        kw = dict(suppress_unifurcations=sup)
                        if inc:
                            kw["is_apply_filter_to_internal_nodes"] = True
                        try:
                            if api == "prune_taxa_with_labels":
                                t.prune_taxa_with_labels([lab], **kw)
                            elif api == "prune_taxa":
                                t.prune_taxa([t.taxon_namespace.get_taxon(lab)], **kw)
                            else:
                                if inc:
                                    continue
                                t.retain_taxa_with_labels([x.label for x in t.taxon_namespace if x.label != lab], suppress_unifurcations=sup)
                        except Exception as ex:  # noqa
                            ctx.fail("%s@internal_taxa.raises" % api, dict(key=key, scope=sc), detail="%s: %s: %s" % (key, type(ex).__name__, ex))
                            continue
                        errs = S.arborescence_errors(t)
                        after = sorted(l.taxon.label for l in t.leaf_node_iter() if l.taxon is not None)
                        want = [x for x in before if x not in below] if inc else before
                        if errs:
                            ctx.fail("%s@internal_taxa.wellformed" % api, dict(key=key, scope=sc), detail="%s: %s" % (key, errs[0]))
                        elif not inc and after != want:
                            ctx.fail("%s@internal_taxa.leaf_taxa" % api, dict(key=key, scope=sc),
                                     detail="%s: leaf taxa %r, required %r (the label names an internal node only, and the filter applies to leaves)" % (key, after, want))
                        elif inc and not set(below).isdisjoint(after):
                            ctx.fail("%s@internal_taxa.leaf_taxa" % api, dict(key=key, scope=sc),
                                     detail="%s: the clade of %s was asked away with internal nodes included, leaves %r remain" % (key, lab, sorted(set(below) & set(after))))


def t2(ctx):
    thorough = ctx.tier == "thorough"
    reported = {}
    R3 = (None, True, False)
    kf = lambda it: spec_key(it[0]) + ("" if it[3] is None else "|first=%s" % (it[3],))
    # ---- depth 1: every option value, every target, many start trees (polytomies, unifurcations, missing taxa/lengths)
    N1 = 6 if thorough else 5
    shapes = list(shapes_upto(N1))
    unif = []
    for sh in shapes_upto(4, 2):
        unif.extend(with_unifurcations(sh))
    if thorough:
        st2 = _starts(shapes, ["dyadic", "none", "onemissing", "zeros", "leafmissing"], R3) + _starts(unif, ["dyadic", "none"], R3)
        st1 = []
    else:
        st2 = _starts(shapes, ["dyadic", "none"], R3)
        st1 = _starts(shapes, ["onemissing", "zeros", "leafmissing"], (None,)) + _starts(unif, ["dyadic", "none"], (None, True))
    st2 += _starts(list(shapes_upto(4, 2)), ["dyadic"], R3, extra=(dict(ns="removed"), dict(notaxon=1)))
    st2 += _starts(list(shapes_upto(4, 3)), ["dyadic"], (None,), extra=(dict(ns="case"),))
    _run_scope(ctx, "depth1@full-menu", "every operation x every target node/edge/taxon subset x every option value, from every ordered shape with "
               "<=%d leaves x %s x 3 rooting states, and shapes <=4 leaves with a namespace with removed taxa / a taxon-less leaf; "
               "non-trivial = start tree with >=4 nodes" % (N1, "5 length patterns" if thorough else "{dyadic, none}"),
               True, explore, fan_out(st2, [2]), reported, kf)
    if st1:
        _run_scope(ctx, "depth1@menu1", "every operation x every target x options {defaults, all flipped} x taxon subsets of size 1 and n-1, from "
                   "every ordered shape with <=%d leaves x {onemissing, zeros, leafmissing} (rooting undefined) and from shapes with 2..4 leaves with "
                   "one unifurcation (every position, seed included) x {dyadic, none} x {undefined, rooted}" % N1,
                   True, explore, fan_out(st1, [1]), reported, kf)
    # ---- every history of 2 operations
    if thorough:
        st = _starts(list(shapes_upto(4)), ["dyadic", "none"], R3)
        _run_scope(ctx, "histories<=2", "every sequence of <=2 operations from every ordered shape with <=4 leaves x {dyadic, none} x 3 rooting "
                   "states; first operation: every target, options {defaults, all flipped}, taxon subsets of size 1 and n-1; second operation: the same "
                   "menu on the tree reached; non-trivial = length-2 histories", True, explore, fan_out(st, [1, 1]), reported, kf)
    else:
        st = _starts(list(shapes_upto(3)), ["dyadic"], (None, True)) + _starts(list(shapes_upto(3)), ["none"], (None,))
        _run_scope(ctx, "histories<=2@3", "every sequence of <=2 operations from every ordered shape with <=3 leaves x {dyadic x {undefined, rooted}, no lengths x undefined}; "
                   "both operations: every target, options {defaults, all flipped}, taxon subsets of size 1 and n-1", True, explore,
                   fan_out(st, [1, 1]), reported, kf)
        st = _starts(list(shapes_exact(4)), ["dyadic"], (None,)) + _starts(list(shapes_exact(4)), ["none"], (True,))
        _run_scope(ctx, "histories<=2@4", "every sequence of <=2 operations with default options (every target, single-taxon subsets) from every ordered "
                   "shape with 4 leaves x {dyadic undefined rooting, no lengths rooted}", True, explore, fan_out(st, [0, 0]), reported, kf)
    # ---- every history of 3 (thorough: also 4) operations
    if thorough:
        st = _starts(list(shapes_upto(3, 2)), ["dyadic"], (None,))
        _run_scope(ctx, "histories<=3", "every sequence of <=3 operations with default options (every target, single-taxon subsets) from every ordered "
                   "shape with 2..3 leaves (dyadic lengths, rooting undefined)", True, explore, fan_out(st, [0, 0, 0]), reported, kf)
        st = _starts(list(shapes_exact(4)), ["dyadic"], (None,))
        _run_scope(ctx, "histories<=3@4mini", "every sequence of <=3 operations over the representative menu (one operation per family, default options, "
                   "every target) from every ordered shape with 4 leaves", True, explore, fan_out(st, [-1, -1, -1]), reported, kf)
        st = _starts([((), ()), ((), (), ())], ["dyadic"], (None,))
        _run_scope(ctx, "histories<=4@mini", "every sequence of <=4 operations over the representative menu from (A,B) and (A,B,C)",
                   True, explore, fan_out(st, [-1, -1, -1, -1]), reported, kf)
    else:
        st = _starts(list(shapes_upto(3, 2)), ["dyadic"], (None,)) + _starts(list(shapes_exact(3)), ["none"], (True,))
        _run_scope(ctx, "histories<=3@mini", "every sequence of <=3 operations over the representative menu (one operation per family: reseed_at, "
                   "reroot_at_edge, to_outgroup_position, reroot_at_midpoint, prune_taxa, filter_leaf_nodes, prune_subtree, remove_child, Edge.collapse, "
                   "collapse_clade, collapse_basal_bifurcation, resolve_polytomies, suppress_unifurcations, encode_bipartitions, add_child, "
                   "parent_node assignment, shuffle_taxa, ladderize; default options, every target) from every ordered shape with 2..3 leaves",
                   True, explore, fan_out(st, [-1, -1, -1]), reported, kf)
    internal_label_scope(ctx)
    # ---- random long histories
    rng = rng_for(ctx, 3)
    items = []
    for i in range(160 if not thorough else 3000):
        n = rng.randint(8, 12)
        items.append((dict(shape=random_shape(rng, n), pat=rng.choice(["dyadic", "none", "onemissing", "ones"]), rooted=rng.choice(R3),
                           ns=rng.choice(["exact", "removed"])), rng.randint(1, 10 ** 9), 30))
    _run_scope(ctx, "random-histories@8-12", "seeded random histories of up to 30 operations (operation family uniform, then target/options uniform over "
               "the full menu of the current tree; leaf-removing families only while >6 leaves remain) from random shapes with 8..12 leaves", False, random_histories, items, reported, lambda it: "%s|seed=%d" % (spec_key(it[0]), it[1]))
    for nm, cnt in sorted(reported.items()):
        if cnt > MAX_REPORT_PER_MONITOR:
            ctx.note("%s: %d failing evaluations, first %d reported" % (nm, cnt, MAX_REPORT_PER_MONITOR))


def replay(ctx, rec):
    w = rec["witness"]
    if w.get("scope") == "internal-node-taxa@prune-by-label":
        class _C(object):
            def __init__(self):
                self.hits = []

            def scope(self, *a, **k):
                pass

            def case(self, *a, **k):
                pass

            def fail(self, name, wit, detail=None):
                if wit.get("key") == w.get("key") and name == rec["obligation"]:
                    self.hits.append(detail)
        c = _C()
        internal_label_scope(c)
        for h in c.hits:
            print("  " + str(h))
        return not c.hits
    spec = w["spec"]
    spec["shape"] = _tup(spec["shape"])
    t, env, fails, broken = run_history(spec, w["history"])
    for nm, d in fails[:4]:
        print("  %s :: %s" % (nm, d))
    print("  tree now: %s" % (S.tree_newick(t) if not broken else "(not well formed)"))
    return not any(nm == rec["obligation"] for nm, d in fails)
