"""C17 (T2) -- node ages, the ultrametricity check, lineage counting and the tree
statistics, checked against independent definitions (specs/ages_stats.py).

Every evaluation is `OPS[op](tree descriptor, params)`: the tree is built through
the Node API from a JSON-able descriptor, ONE real function is called, and the
result is compared with the spec computed from raw pointers.  A witness carries
(op, tree, params), so `replay` simply re-runs that evaluation.

Clauses and how they are read
  * ages (calc_node_ages / node_ages / internal_node_ages, every value class of
    ultrametricity_precision: default, numeric, 0, None, False, negative; both
    forcing flags):  with forcing the age must equal the max / min over children
    of (child age + length) (the documented rule); otherwise every leaf has age
    0.0 and every internal age equals (age + length) of one of its children --
    hence it lies between the smallest and largest distance to its tips, equals
    "the" distance to the tips on an exactly ultrametric tree (dyadic lengths,
    compared with ==) and is within the precision of every tip distance on an
    accepted tree.  Which child is used when the check is switched off is not
    fixed by the statement and is not demanded here.
  * accept / reject: spread of root-to-tip path lengths <= precision => no
    error; `specs.ages_stats.must_reject` (a child-order independent sufficient
    condition for "paths differ by more than the precision") => an
    UltrametricityError.  Trees in between (paths that differ by more than the
    precision without any child being separated from all its siblings, e.g.
    (A:1, B:1+p, C:1-p)) get no verdict: the implementation compares against
    the first child only and accepts some of them; see the final report.
    Boundary cases use dyadic precisions so that |difference| == precision is
    exact (must be accepted).
  * set_edge_lengths_from_node_ages restores the lengths (== on exact trees,
    within the spread otherwise), documented minimum_edge_length /
    error_on_negative_edge_lengths behaviour.
  * depths / root distances / resolve_node_ages / treemeasure.node_ages ...
  * num_lineages_at(d) == #edges with depth(parent) < d <= depth(child); levels
    that coincide with a zero-length edge are left out (convention not fixed).
  * statistics for every normalisation offered, through the module function and
    the Tree method, on the tree and on child-reordered copies.
Left out on purpose: Colless on trees with unifurcations and normalised Colless
for n < 3 (undefined), gamma on non-binary / 2-leaf trees (undefined; DendroPy
raises AssertionError / ZeroDivisionError instead of the documented ValueError),
invalid `normalize` values, None lengths for anything but calc_node_ages in its
default mode and Tree.length.
"""
import json
import warnings

from bounded.common import *  # noqa: F401,F403
from specs import trees as S
from specs import ages_stats as A

from dendropy.calculate import treemeasure
from dendropy.utility import error as dperror

DEFAULT_PRECISION = 1e-5  # documented default (signature of calc_node_ages / pybus_harvey_gamma)


# ----------------------------------------------------------------------------- tree descriptors
def _tup(x):
    return tuple(_tup(c) for c in x)


def mk(desc):
    """descriptor -> Tree; lengths indexed by preorder position (0 = root edge)"""
    shape = _tup(desc["shape"])
    ls = desc["lengths"]
    t = build_tree(shape, lengths=(lambda i, leaf: ls[i]) if ls is not None else None, rooted=desc.get("rooted"))
    if ls is not None and ls[0] is not None:
        t._seed_node._edge.length = ls[0]
    for k in range(desc.get("extra_taxa") or 0):
        t.taxon_namespace.new_taxon("unused%d" % k)   # the namespace may hold taxa that are not on the tree
    return t


def reorder(tree, how):
    if how == "id":
        return
    for n in A.pre(tree._seed_node):
        ch = n._child_nodes
        if how == "rev":
            ch.reverse()
        elif how == "rot" and len(ch) > 1:
            ch.append(ch.pop(0))


def ultra(shape, pattern):
    """lengths (preorder list) of an exactly ultrametric tree: node age = max(child ages) + inc"""
    incs = {
        "unit": lambda i: 1.0,
        "dyadic": lambda i: [0.5, 1.25, 2.0, 0.75, 3.5, 1.0, 0.25][i % 7],
        "zeros": lambda i: 0.0 if i % 3 == 1 else 1.0,
    }[pattern]
    ages, order, counter = {}, [], [0]

    def rec(s, parent):
        idx = counter[0]
        counter[0] += 1
        order.append((idx, parent))
        ca = [rec(c, idx) for c in s]
        ages[idx] = 0.0 if s == () else max(ca) + incs(idx)
        return ages[idx]

    rec(shape, None)
    ls = [None] * counter[0]
    for idx, parent in order:
        if parent is not None:
            ls[idx] = ages[parent] - ages[idx]
    return ls


def plain(shape, pattern):
    f = length_patterns()[pattern]
    n = n_nodes(shape)
    leaf = []

    def rec(s):
        leaf.append(s == ())
        for c in s:
            rec(c)

    rec(shape)
    if f is None:
        return None
    return [None] + [(f(i, leaf[i]) if callable(f) else f) for i in range(1, n)]


def desc_of(shape, lengths, rooted=None):
    return {"shape": shape, "lengths": lengths, "rooted": rooted}


# ----------------------------------------------------------------------------- helpers
class _Raised(object):
    def __init__(self, e):
        self.e = e


def call(f, *a, **k):
    with warnings.catch_warnings(record=True):
        warnings.simplefilter("ignore")
        try:
            return f(*a, **k)
        except Exception as e:  # reported by the caller
            return _Raised(e)


def _exc(r):
    return "%s: %s" % (type(r.e).__name__, str(r.e).split("\n")[0][:160])


def _prec_kw(p):
    """JSON-able precision -> keyword dict; 'default' = not passed"""
    if p == "default":
        return {}, DEFAULT_PRECISION
    if p == "None":
        return {"ultrametricity_precision": None}, None
    if p == "False":
        return {"ultrametricity_precision": False}, None
    return {"ultrametricity_precision": p}, (None if p < 0 else p)


# ----------------------------------------------------------------------------- op: ages
def op_ages(desc, pr):
    """pr: via, p, force (None|'max'|'min'), internal (bool), none_as0 (bool)"""
    t = mk(desc)
    root = t._seed_node
    via = pr["via"]
    force = pr.get("force")
    kw, p_eff = _prec_kw(pr.get("p", "default"))
    none_as = 0.0 if pr.get("none_as0") else None
    if via == "pybus_harvey_gamma":
        kw = {} if pr.get("p", "default") == "default" else {"prec": kw["ultrametricity_precision"]}
    elif via == "Tree.pybus_harvey_gamma":
        kw = {}
    elif via.startswith("coalescent.") and pr.get("p", "default") == "default":
        kw = {}
    if force == "max":
        kw["is_force_max_age"] = True
    if force == "min":
        kw["is_force_min_age"] = True
    checking = force is None and p_eff is not None
    # ---- expectations from the spec, before the call (the call may rewrite None lengths)
    all_nodes = A.pre(root)
    tipd = dict((id(n), [d for _, d in A.tip_dists(n, none_as)]) for n in all_nodes)
    spread = max(tipd[id(root)]) - min(tipd[id(root)])
    acc = checking and spread <= p_eff
    rej = checking and none_as is None and A.must_reject(root, p_eff)
    forced = None
    if force:
        forced = dict((id(n), A.max_min_age(n, force)) for n in all_nodes)
    lens = dict((id(n), A.elen(n, none_as)) for n in all_nodes)
    # ---- the call
    internal = bool(pr.get("internal"))
    if via == "calc_node_ages":
        if internal:
            kw["is_return_internal_node_ages_only"] = True
        r = call(t.calc_node_ages, **kw)
    elif via == "node_ages":
        if internal:
            kw["internal_only"] = True
        r = call(t.node_ages, **kw)
    elif via == "internal_node_ages":
        internal = True
        r = call(t.internal_node_ages, **kw)
    elif via == "pybus_harvey_gamma":
        r = call(treemeasure.pybus_harvey_gamma, t, **kw)
    elif via == "Tree.pybus_harvey_gamma":
        if pr.get("p", "default") == "default":
            r = call(t.pybus_harvey_gamma)
        else:
            r = call(t.pybus_harvey_gamma, _prec_kw(pr["p"])[0]["ultrametricity_precision"])
    elif via.startswith("coalescent."):
        from dendropy.model import coalescent
        f = getattr(coalescent, via.split(".")[1])
        r = call(f, t, 10, **kw) if via.endswith("log_probability_of_coalescent_tree") else call(f, t, **kw)
    else:
        raise KeyError(via)
    fails = []
    if isinstance(r, _Raised):
        if isinstance(r.e, dperror.UltrametricityError):
            if not checking:
                fails.append((via + ".check_disabled", "ultrametricity error although the check is disabled / a forcing option is set: " + _exc(r)))
            elif acc:
                fails.append((via + ".accepts", "root-to-tip paths agree within %r (spread %r) but: %s" % (p_eff, spread, _exc(r))))
            return fails
        fails.append((via + ".raises", _exc(r)))
        return fails
    if rej:
        fails.append((via + ".rejects", "paths differ by more than %r (spread %r) but no ultrametricity error was raised" % (p_eff, spread)))
        return fails
    # ---- ages stored on the nodes
    bad = None
    for n in A.post(root):
        a = getattr(n, "age", None)
        if not n._child_nodes:
            ok = a == 0.0 and a is not None
            want = 0.0
        elif forced is not None:
            want = forced[id(n)]
            ok = a == want
        else:
            opts = []
            for c in n._child_nodes:
                ca = getattr(c, "age", None)
                if ca is not None:
                    opts.append(ca + lens[id(c)])
            want = opts
            ok = a is not None and a in opts and min(tipd[id(n)]) <= a <= max(tipd[id(n)])
        if not ok:
            bad = "node over {%s}: age %r, required %r (tip distances %r)" % (
                ",".join(sorted(S.clade_labels(n))), a, want, sorted(set(tipd[id(n)])))
            break
    if bad:
        clause = ".forced_%s" % force if force else ".age"
        fails.append((via.replace("Tree.", "").replace("pybus_harvey_gamma", "calc_node_ages") + clause, bad))
        return fails
    # ---- returned collection
    if via in ("calc_node_ages", "node_ages", "internal_node_ages"):
        want = sorted(n.age for n in all_nodes if (n._child_nodes or not internal))
        got = None
        try:
            got = sorted(r)
        except Exception:
            pass
        if got != want:
            fails.append((via + ".returns", "returned %r, ages of the %s nodes are %r" % (r, "internal" if internal else "all", want)))
    return fails


# ----------------------------------------------------------------------------- op: restore
def op_restore(desc, pr):
    """calc_node_ages then set_edge_lengths_from_node_ages; pr: p, min_len ('default'|'None'|number)"""
    t = mk(desc)
    root = t._seed_node
    kw, p_eff = _prec_kw(pr.get("p", "default"))
    nodes = A.pre(root)
    orig = dict((id(n), A.elen(n)) for n in nodes)
    spread = A.root_tip_spread(root)
    # exact comparison on dyadic lengths; 'to rounding' otherwise
    dyadic = all(l is None or float(l * 2.0 ** 32).is_integer() for l in orig.values())
    slack = 0.0 if dyadic else 1e-9 * max(1.0, max(d for _, d in A.tip_dists(root)))
    r = call(t.calc_node_ages, **kw)
    if isinstance(r, _Raised):
        return []  # accept/reject is judged by op_ages
    skw = {}
    m = pr.get("min_len", "default")
    floor = 0.0
    if m == "None":
        skw["minimum_edge_length"] = None
        floor = None
    elif m != "default":
        skw["minimum_edge_length"] = m
        floor = m
    r = call(t.set_edge_lengths_from_node_ages, **skw)
    if isinstance(r, _Raised):
        return [("set_edge_lengths_from_node_ages.raises", _exc(r))]
    for n in nodes:
        new = A.elen(n)
        if n._parent_node is None:
            if new != orig[id(n)]:
                return [("set_edge_lengths_from_node_ages.root_edge", "root edge length changed from %r to %r" % (orig[id(n)], new))]
            continue
        want = orig[id(n)]
        if floor is not None and want < floor and spread == 0:
            want = floor
        if new is None or abs(new - want) > spread + slack:
            return [("set_edge_lengths_from_node_ages.restores",
                     "edge above {%s}: original %r, after calc_node_ages + set_edge_lengths_from_node_ages(%s) %r (allowed deviation %r)"
                     % (",".join(sorted(S.clade_labels(n))), orig[id(n)], json.dumps(skw), new, spread))]
    return []


def op_negative(desc, pr):
    """documented options of set_edge_lengths_from_node_ages on hand-set ages (child older than parent)"""
    t = mk(desc)
    root = t._seed_node
    nodes = A.pre(root)
    for i, n in enumerate(nodes):
        n.age = float((i * 5) % 7)  # arbitrary ages, some children older than their parent
    want = {}
    for n in nodes:
        if n._parent_node is not None:
            want[id(n)] = n._parent_node.age - n.age
    anyneg = any(v < 0 for v in want.values())
    mode = pr["mode"]
    if mode == "error":
        r = call(t.set_edge_lengths_from_node_ages, minimum_edge_length=None, error_on_negative_edge_lengths=True)
        if anyneg:
            if not (isinstance(r, _Raised) and isinstance(r.e, ValueError)):
                return [("set_edge_lengths_from_node_ages.error_on_negative", "negative inferred length but no ValueError (%r)" % (_exc(r) if isinstance(r, _Raised) else r,))]
            return []
    elif mode == "raw":
        r = call(t.set_edge_lengths_from_node_ages, minimum_edge_length=None)
    elif mode == "clamp0":
        r = call(t.set_edge_lengths_from_node_ages, error_on_negative_edge_lengths=True)
        want = dict((k, max(v, 0.0)) for k, v in want.items())
    else:
        r = call(t.set_edge_lengths_from_node_ages, minimum_edge_length=1.5)
        want = dict((k, max(v, 1.5)) for k, v in want.items())
    if isinstance(r, _Raised):
        return [("set_edge_lengths_from_node_ages.raises", _exc(r))]
    for n in nodes:
        if n._parent_node is not None and A.elen(n) != want[id(n)]:
            return [("set_edge_lengths_from_node_ages.age_difference", "mode %s: edge above {%s} is %r, required %r"
                     % (mode, ",".join(sorted(S.clade_labels(n))), A.elen(n), want[id(n)]))]
    return []


# ----------------------------------------------------------------------------- op: depths
def op_depths(desc, pr):
    t = mk(desc)
    root = t._seed_node
    nodes = A.pre(root)
    v = pr["variant"]
    dm = A.depth_map(root)
    maxd = max(dm.values())
    internal = [n for n in nodes if n._child_nodes]
    lvs = [n for n in nodes if not n._child_nodes]

    def cmp_cache(r, want, name, attr):
        if isinstance(r, _Raised):
            return [(name + ".raises", _exc(r))]
        try:
            got = dict((id(k), x) for k, x in r.items())
        except Exception:
            return [(name + ".returns", "not a node->value mapping: %r" % (r,))]
        if got != want:
            return [(name + ".returns", "returned mapping differs from the definition: got %r want %r" % (sorted(got.values()), sorted(want.values())))]
        if attr:
            for n in nodes:
                if getattr(n, attr, None) != want[id(n)]:
                    return [(name + ".attribute", "node.%s is %r, required %r" % (attr, getattr(n, attr, None), want[id(n)]))]
        return []

    if v == "resolve_depths":
        return cmp_cache(call(t.resolve_node_depths), dm, "resolve_node_depths", "depth")
    if v == "resolve_depths_attr":
        return cmp_cache(call(t.resolve_node_depths, attr_name="zz"), dm, "resolve_node_depths", "zz")
    if v == "resolve_depths_noattr":
        f = cmp_cache(call(t.resolve_node_depths, attr_name=None), dm, "resolve_node_depths", None)
        if not f and any("depth" in vars(n) for n in nodes):
            f = [("resolve_node_depths.attribute", "attr_name=None but a 'depth' attribute was written")]
        return f
    if v == "resolve_depths_fn":
        want = A.depth_map(root, length_fn=lambda n: 2.0)
        return cmp_cache(call(t.resolve_node_depths, node_edge_length_fn=lambda nd: 2.0), want, "resolve_node_depths", "depth")
    if v == "resolve_depths_cb":
        seen = []
        f = cmp_cache(call(t.resolve_node_depths, node_callback_fn=lambda nd: seen.append(id(nd))), dm, "resolve_node_depths", "depth")
        if not f and sorted(seen) != sorted(id(n) for n in nodes):
            f = [("resolve_node_depths.callback", "callback not called exactly once per node")]
        return f
    if v in ("resolve_ages", "resolve_ages_attr", "resolve_ages_fn"):
        if v == "resolve_ages_fn":
            dm2 = A.depth_map(root, length_fn=lambda n: 2.0)
            want = dict((k, max(dm2.values()) - x) for k, x in dm2.items())
            return cmp_cache(call(t.resolve_node_ages, node_edge_length_fn=lambda nd: 2.0), want, "resolve_node_ages", "age")
        want = dict((k, maxd - x) for k, x in dm.items())
        attr = "age" if v == "resolve_ages" else "yy"
        r = call(t.resolve_node_ages) if v == "resolve_ages" else call(t.resolve_node_ages, attr_name="yy")
        f = cmp_cache(r, want, "resolve_node_ages", attr)
        if not f and A.root_tip_spread(root) == 0:
            for n in nodes:
                ds = set(d for _, d in A.tip_dists(n))
                if ds != {getattr(n, attr)}:
                    return [("resolve_node_ages.tip_distance", "age %r but distances to the tips are %r" % (getattr(n, attr), sorted(ds)))]
        return f
    if v in ("root_dists_leaf", "root_dists_all", "root_dists_default"):
        if v == "root_dists_default":
            r = call(t.calc_node_root_distances)
        else:
            r = call(t.calc_node_root_distances, return_leaf_distances_only=(v == "root_dists_leaf"))
        if isinstance(r, _Raised):
            return [("calc_node_root_distances.raises", _exc(r))]
        for n in nodes:
            if getattr(n, "root_distance", None) != dm[id(n)]:
                return [("calc_node_root_distances.attribute", "root_distance %r, required %r" % (getattr(n, "root_distance", None), dm[id(n)]))]
        want = sorted(dm[id(n)] for n in (nodes if v == "root_dists_all" else lvs))
        if sorted(r) != want:
            return [("calc_node_root_distances.returns", "returned %r, required (any order) %r" % (r, want))]
        return []
    if v == "max_dist":
        r = call(t.max_distance_from_root)
        want = max(dm[id(n)] for n in lvs)
        name = "max_distance_from_root"
    elif v == "minmax":
        r = call(t.minmax_leaf_distance_from_root)
        want = (min(dm[id(n)] for n in lvs), max(dm[id(n)] for n in lvs))
        name = "minmax_leaf_distance_from_root"
    elif v in ("tm_node_ages", "tm_node_ages_internal", "tm_coalescence_ages"):
        io = v != "tm_node_ages"
        if v == "tm_coalescence_ages":
            r = call(treemeasure.coalescence_ages, t)
        elif io:
            r = call(treemeasure.node_ages, t, is_internal_only=True)
        else:
            r = call(treemeasure.node_ages, t)
        want = sorted(maxd - dm[id(n)] for n in (internal if io else nodes))
        name = "treemeasure." + ("coalescence_ages" if v == "tm_coalescence_ages" else "node_ages")
    elif v in ("tm_node_depths", "tm_node_depths_internal"):
        io = v != "tm_node_depths"
        r = call(treemeasure.node_depths, t, is_internal_only=True) if io else call(treemeasure.node_depths, t)
        want = sorted(dm[id(n)] for n in (internal if io else nodes))
        name = "treemeasure.node_depths"
    elif v == "tm_divergence_times":
        r = call(treemeasure.divergence_times, t)
        want = sorted(dm[id(n)] for n in internal)
        name = "treemeasure.divergence_times"
    else:
        raise KeyError(v)
    if isinstance(r, _Raised):
        return [(name + ".raises", _exc(r))]
    if isinstance(want, list):
        r = list(r)
    if r != want:
        return [(name + ".value", "returned %r, required %r" % (r, want))]
    return []


# ----------------------------------------------------------------------------- op: lineages
def op_lineages(desc, pr):
    t = mk(desc)
    d = pr["d"]
    want = A.lineages_at(t._seed_node, d)
    r = call(t.num_lineages_at, d)
    if isinstance(r, _Raised):
        return [("num_lineages_at.raises", _exc(r))]
    if r != want:
        return [("num_lineages_at.crossing_edges", "num_lineages_at(%r) = %r, edges crossing that level: %r" % (d, r, want))]
    return []


def levels(desc):
    t = mk(desc)
    root = t._seed_node
    ds = sorted(set(A.depth_map(root).values()))
    out = [-0.5, 0.0, ds[-1] + 1.0]
    out.extend(ds)
    out.extend((a + b) / 2.0 for a, b in zip(ds, ds[1:]))
    return [d for d in sorted(set(out)) if not A.level_is_ambiguous(root, d)]


# ----------------------------------------------------------------------------- op: stat
STAT_NORMS = {
    "N_bar": [None],
    "B1": [None],
    "sackin": [True, False, None, "yule", "pda", "default"],
    "colless": ["max", True, False, None, "yule", "pda", "default"],
    "treeness": [None],
    "length": [None],
    "gamma": [None],
}


def _lib_stat(t, stat, norm, via):
    if stat == "length":
        return call(t.length)
    if via == "fn":
        f = {"N_bar": treemeasure.N_bar, "B1": treemeasure.B1, "sackin": treemeasure.sackin_index,
             "colless": treemeasure.colless_tree_imbalance, "treeness": treemeasure.treeness,
             "gamma": treemeasure.pybus_harvey_gamma}[stat]
        if stat in ("sackin", "colless") and norm != "default":
            return call(f, t, normalize=norm)
        return call(f, t)
    f = {"N_bar": t.N_bar, "B1": t.B1, "sackin": t.sackin_index, "colless": t.colless_tree_imbalance,
         "treeness": t.treeness, "gamma": t.pybus_harvey_gamma}[stat]
    if stat in ("sackin", "colless") and norm != "default":
        return call(f, norm)
    return call(f)


def _spec_stat(root, stat, norm):
    if stat == "N_bar":
        return A.n_bar(root)
    if stat == "B1":
        return A.b1(root)
    if stat == "sackin":
        return A.sackin(root, True if norm == "default" else norm)
    if stat == "colless":
        return A.colless(root, "max" if norm == "default" else norm)
    if stat == "treeness":
        return A.treeness(root)
    if stat == "length":
        return A.total_length(root)
    if stat == "gamma":
        return A.gamma(root)
    raise KeyError(stat)


def op_stat(desc, pr):
    """pr: stat, norm, via ('fn'|'method'), order ('id'|'rev'|'rot').  The required value is the
    definition evaluated on the tree in its ORIGINAL child order (child-order independence)."""
    stat, norm, via, order = pr["stat"], pr.get("norm"), pr.get("via", "fn"), pr.get("order", "id")
    t0 = mk(desc)
    name = {"sackin": "sackin_index", "colless": "colless_tree_imbalance", "gamma": "pybus_harvey_gamma", "length": "Tree.length"}.get(stat, stat)
    if stat == "colless" and not A.is_strictly_bifurcating(t0._seed_node):
        t = mk(desc)
        reorder(t, order)
        r = _lib_stat(t, stat, norm, via)
        if not (isinstance(r, _Raised) and isinstance(r.e, TypeError)):
            return [(name + ".polytomy_error", "tree with a polytomy: documented TypeError required, got %r" % (_exc(r) if isinstance(r, _Raised) else r,))]
        return []
    want = _spec_stat(t0._seed_node, stat, norm)
    if pr.get("first") is not None:
        # the statistic is a function of the tree it is given: the same statistic taken on ANOTHER tree just before must not matter
        _lib_stat(mk(pr["first"]), stat, norm, via)
    t = mk(desc)
    reorder(t, order)
    r = _lib_stat(t, stat, norm, via)
    if isinstance(r, _Raised):
        return [(name + ".raises", _exc(r))]
    exact = stat in ("length",) or (stat in ("sackin", "colless") and norm in (False, None))
    ok = (r == want) if exact else A.close(r, want, rel=1e-9 if stat == "gamma" else 1e-12)
    if not ok:
        clause = ".child_order" if order != "id" else (".definition_after_another_tree" if pr.get("first") is not None else ".definition")
        return [(name + clause, "%s(normalize=%r, via %s, children %s) = %r, definition gives %r" % (name, norm, via, order, r, want))]
    return []


# ----------------------------------------------------------------------------- op: recompute after edit
def op_recompute(desc, pr):
    """call fn, overwrite the edge lengths in place with desc['lengths2'], call fn again:
    the second result must describe the tree as it is now."""
    fn = pr["fn"]
    t = mk(desc)
    root = t._seed_node

    def once():
        if fn == "calc_node_ages":
            r = call(t.calc_node_ages)
            if isinstance(r, _Raised):
                return r, None
            return sorted(n.age for n in A.pre(root)), sorted(d for n in A.pre(root) for d in set(x for _, x in A.tip_dists(n)))
        if fn == "resolve_node_ages":
            r = call(t.resolve_node_ages)
            if isinstance(r, _Raised):
                return r, None
            return sorted(r.values()), sorted(d for n in A.pre(root) for d in set(x for _, x in A.tip_dists(n)))
        if fn == "resolve_node_depths":
            r = call(t.resolve_node_depths)
            if isinstance(r, _Raised):
                return r, None
            return sorted(r.values()), sorted(A.depth_map(root).values())
        if fn == "calc_node_root_distances":
            r = call(t.calc_node_root_distances, return_leaf_distances_only=False)
            return (r if isinstance(r, _Raised) else sorted(r)), sorted(A.depth_map(root).values())
        if fn == "num_lineages_at":
            ds = sorted(set(A.depth_map(root).values()))
            mids = [(a + b) / 2.0 for a, b in zip(ds, ds[1:])]
            out = []
            for d in mids:
                r = call(t.num_lineages_at, d)
                if isinstance(r, _Raised):
                    return r, None
                out.append(r)
            return out, [A.lineages_at(root, d) for d in mids]
        if fn == "length":
            return call(t.length), A.total_length(root)
        if fn == "treeness":
            return call(treemeasure.treeness, t), A.treeness(root)
        if fn == "internal_node_ages":
            r = call(t.internal_node_ages)
            return r, sorted(d for n in A.pre(root) if n._child_nodes for d in set(x for _, x in A.tip_dists(n)))
        if fn == "pybus_harvey_gamma":
            return call(treemeasure.pybus_harvey_gamma, t), A.gamma(root)
        raise KeyError(fn)

    got1, want1 = once()
    for n, l in zip(A.pre(root), desc["lengths2"]):
        n._edge.length = l
    got2, want2 = once()
    if isinstance(got2, _Raised):
        return [(fn + ".raises", _exc(got2))]
    ok = A.close(got2, want2, rel=1e-9) if fn in ("treeness", "pybus_harvey_gamma") else got2 == want2
    if not ok:
        return [(fn + ".recomputed_after_edit", "after changing the edge lengths in place %s gives %r (first call gave %r); the tree as it stands requires %r" % (fn, got2, got1, want2))]
    return []


# ----------------------------------------------------------------------------- op: tip-dated ages
def op_tipdated(desc, pr):
    """set_node_age_fn supplies the tip ages (documented use); internal ages = child age + length"""
    t = mk(desc)
    root = t._seed_node
    heights = pr["heights"]  # by leaf order
    lf = A.leaves(root)
    hmap = dict((id(n), h) for n, h in zip(lf, heights))
    fn = lambda nd: hmap.get(id(nd))  # noqa: E731
    want = {}
    for n in A.post(root):
        if not n._child_nodes:
            want[id(n)] = hmap[id(n)]
        else:
            c = n._child_nodes[0]
            want[id(n)] = want[id(c)] + A.elen(c)
    via = pr.get("via", "calc_node_ages")
    r = call(getattr(t, via), set_node_age_fn=fn)
    if isinstance(r, _Raised):
        return [(via + ".raises", _exc(r))]
    for n in A.pre(root):
        if getattr(n, "age", None) != want[id(n)]:
            return [(via + ".set_node_age_fn", "node over {%s}: age %r, required %r" % (",".join(sorted(S.clade_labels(n))), getattr(n, "age", None), want[id(n)]))]
    return []


OPS = {"ages": op_ages, "restore": op_restore, "negative": op_negative, "depths": op_depths, "lineages": op_lineages,
       "stat": op_stat, "recompute": op_recompute, "tipdated": op_tipdated}


def _pstr(pr):
    return ",".join("%s=%s" % (k, json.dumps(pr[k])) for k in sorted(pr))


def run_one(item):
    """item = (scope, op, desc, params) -> (scope, key, nontrivial, [(monitor, detail)])"""
    scope, op, desc, pr = item
    t = mk(desc)
    key = "%s|%s|%s" % (op, _pstr(pr), S.tree_newick(t))
    if op == "recompute":
        key += "|then=%s" % json.dumps(desc["lengths2"])
    fails = OPS[op](desc, pr)
    return (scope, key, n_leaves(_tup(desc["shape"])) >= 3, fails, op, desc, pr)


def run_chunk(items):
    return [run_one(it) for it in items]


# ----------------------------------------------------------------------------- scopes
def _rooted(i):
    return (None, True, False)[i % 3]


def _shapes(n, unif_upto):
    out = []
    for s in shapes_upto(n):
        out.append(s)
        if n_leaves(s) <= unif_upto:
            out.extend(with_unifurcations(s))
    return out


PREC_CASES = [
    # (precision, perturbations): dyadic precision -> exact boundary |e| == p included
    (0.25, [-0.375, -0.25, -0.125, 0.125, 0.25, 0.375]),
    ("default", [-2e-5, -0.5e-5, 0.5e-5, 2e-5]),
    (0, [-2.0 ** -20, 2.0 ** -20]),
    (2.0 ** -10, [-(2.0 ** -10 + 2.0 ** -30), -(2.0 ** -10), 2.0 ** -10, 2.0 ** -10 + 2.0 ** -30]),
]


def gen_items(ctx):
    quick = ctx.tier != "thorough"
    N = 5 if quick else 7
    U = 5 if quick else 6
    NP = 5 if quick else 6  # perturbation scope
    UP = 4 if quick else 5
    items = []
    shapes = _shapes(N, U)
    # ---- ages on exactly ultrametric trees, every mode and route
    sc = "ages@ultrametric"
    ctx.scope(sc, "every ordered shape <=%d leaves (+ one unifurcation anywhere, <=%d leaves) x exactly ultrametric dyadic lengths {unit,dyadic,zeros} "
                  "(root edge None / 0.5 and rooting flag alternating) x calc_node_ages with precision {default,0.25,0,None,False,-1}, force {max,min} and "
                  "force combined with a precision; the routes {calc_node_ages internal-only, node_ages, node_ages internal_only, internal_node_ages} "
                  "for {default, force max, force min}; restore with minimum_edge_length {default,None,0.75}; hand-set ages (4 option modes, unit pattern); "
                  "non-trivial = >=3 leaves" % (N, U), exhaustive=True)
    modes = [dict(p="default"), dict(p=0.25), dict(p=0), dict(p="None"), dict(p="False"), dict(p=-1), dict(force="max"), dict(force="min"),
             dict(force="max", p=0), dict(force="min", p="None")]
    routes = [dict(via="calc_node_ages"), dict(via="calc_node_ages", internal=True), dict(via="node_ages"),
              dict(via="node_ages", internal=True), dict(via="internal_node_ages")]
    for si, s in enumerate(shapes):
        for pi, pat in enumerate(("unit", "dyadic", "zeros")):
            ls = ultra(s, pat)
            if (si + pi) % 2:
                ls[0] = 0.5
            d = desc_of(s, ls, _rooted(si + pi))
            for m in modes:
                for rt in routes:
                    if rt != routes[0] and m not in (modes[0], modes[6], modes[7]):
                        continue
                    pr = dict(m)
                    pr.update(rt)
                    items.append((sc, "ages", d, pr))
            for ml in ("default", "None", 0.75):
                items.append((sc, "restore", d, dict(min_len=ml)))
            if pat == "unit":
                for mode in ("error", "raw", "clamp0", "floor"):
                    items.append((sc, "negative", d, dict(mode=mode)))
    # ---- missing lengths (None counted as 0) in the default mode
    sc = "ages@missing-lengths"
    ctx.scope(sc, "every shape as above x {no lengths at all; ultrametric 'zeros' pattern with each zero replaced by None}: default-mode "
                  "calc_node_ages / node_ages with None counted as 0 (the Tree.length convention); non-trivial = >=3 leaves", exhaustive=True)
    for si, s in enumerate(shapes):
        d0 = desc_of(s, None, _rooted(si))
        z = [None if (l == 0.0) else l for l in ultra(s, "zeros")]
        d1 = desc_of(s, z, _rooted(si + 1))
        for d in (d0, d1):
            items.append((sc, "ages", d, dict(via="calc_node_ages", none_as0=True)))
            items.append((sc, "ages", d, dict(via="node_ages", none_as0=True, p="None")))
    # ---- tip-dated
    sc = "ages@tip-dated"
    ctx.scope(sc, "every shape as above x tip ages from set_node_age_fn (dyadic, lengths chosen so that all paths agree) through "
                  "calc_node_ages / node_ages / internal_node_ages; non-trivial = >=3 leaves", exhaustive=True)
    for si, s in enumerate(shapes):
        nl = n_leaves(s)
        hs = [[0.0, 0.5, 1.25, 0.25, 2.0][(i * 3 + si) % 5] for i in range(nl)]
        ls = tipdated_lengths(s, hs)
        d = desc_of(s, ls, _rooted(si))
        for via in ("calc_node_ages", "node_ages", "internal_node_ages"):
            items.append((sc, "tipdated", d, dict(heights=hs, via=via)))
    # ---- depths & co on every length pattern without None
    sc = "depths@lengths"
    ctx.scope(sc, "every shape as above x lengths {ultrametric unit/dyadic/zeros, ones, ints 0..3, dyadic} x every depth/root-distance/"
                  "resolve_node_ages/treemeasure.node_ages|node_depths|coalescence_ages variant and option; non-trivial = >=3 leaves", exhaustive=True)
    variants = ["resolve_depths", "resolve_depths_attr", "resolve_depths_noattr", "resolve_depths_fn", "resolve_depths_cb",
                "resolve_ages", "resolve_ages_attr", "resolve_ages_fn", "root_dists_leaf", "root_dists_all", "root_dists_default",
                "max_dist", "minmax", "tm_node_ages", "tm_node_ages_internal", "tm_coalescence_ages", "tm_node_depths", "tm_node_depths_internal"]
    lsc = "lineages@levels"
    ctx.scope(lsc, "same trees x every level d in {-0.5, 0, every node depth, every midpoint between consecutive depths, max+1} "
                   "except levels lying on a zero-length edge; non-trivial = >=3 leaves", exhaustive=True)
    for si, s in enumerate(shapes):
        pats = [("u", ultra(s, "unit")), ("u", ultra(s, "dyadic")), ("u", ultra(s, "zeros")),
                ("p", plain(s, "ones")), ("p", plain(s, "ints")), ("p", plain(s, "dyadic"))]
        for pi, (_, ls) in enumerate(pats):
            if n_nodes(s) == 1 and pi > 0:
                continue
            if (si + pi) % 4 == 0:
                ls = list(ls)
                ls[0] = 0.5
            d = desc_of(s, ls, _rooted(si + pi))
            for v in variants:
                items.append((sc, "depths", d, dict(variant=v)))
            for lv in levels(d):
                items.append((lsc, "lineages", d, dict(d=lv)))
    sc = "divergence_times@fixed"
    ctx.scope(sc, "treemeasure.divergence_times on one fixed 3-leaf tree (internal node depths, sorted); non-trivial", exhaustive=True)
    items.append((sc, "depths", desc_of(((), ((), ())), [None, 2.0, 1.0, 1.0, 1.0], True), dict(variant="tm_divergence_times")))
    # ---- perturbations around the precision
    sc = "ultrametricity@perturbed"
    ctx.scope(sc, "every shape <=%d leaves (+ unifurcation, <=%d leaves) x ultrametric {unit,dyadic} x every single non-root edge stretched by e (kept >= 0) x "
                  "(precision, e) in {0.25: +-0.125,+-0.25,+-0.375; default 1e-5: +-0.5e-5,+-2e-5; 0: +-2^-20; 2^-10: +-2^-10, +-(2^-10+2^-30)}; for each: "
                  "calc_node_ages(precision), one of node_ages/internal_node_ages/calc internal-only (rotating), restore, gamma (binary shapes; function / "
                  "method alternating), the three coalescent.* functions taking a precision (binary shapes, rotating; verdict and stored ages only); for precision 0.25 and the +-2e-5 cases also: check disabled by None/False/-1 (rotating over the three routes) "
                  "and force max / min; verdicts: spread<=p must be accepted, specs.ages_stats.must_reject must raise UltrametricityError; "
                  "non-trivial = >=3 leaves" % (NP, UP), exhaustive=True)
    pshapes = _shapes(NP, UP)
    for si, s in enumerate(pshapes):
        if n_nodes(s) == 1:
            continue
        for pi, pat in enumerate(("unit", "dyadic")):
            base = ultra(s, pat)
            binary = A.is_strictly_bifurcating(mk(desc_of(s, base))._seed_node) and n_leaves(s) >= 3
            for v in range(1, len(base)):
                for ci, (p, es) in enumerate(PREC_CASES):
                    for ei, e in enumerate(es):
                        if base[v] + e < 0:
                            continue
                        ls = list(base)
                        ls[v] = base[v] + e
                        d = desc_of(s, ls, _rooted(si + v))
                        rot = (si + v + ci + ei) % 3
                        items.append((sc, "ages", d, dict(via="calc_node_ages", p=p)))
                        items.append((sc, "ages", d, dict(via=("node_ages", "internal_node_ages", "calc_node_ages")[rot], p=p, internal=(rot == 2))))
                        items.append((sc, "restore", d, dict(p=p)))
                        if ci == 0 or (ci == 1 and ei in (0, 3)):
                            items.append((sc, "ages", d, dict(via="calc_node_ages", p=("None", "False", -1)[rot])))
                            items.append((sc, "ages", d, dict(via=("calc_node_ages", "node_ages", "internal_node_ages")[rot], force="max")))
                            items.append((sc, "ages", d, dict(via=("node_ages", "internal_node_ages", "calc_node_ages")[rot], force="min")))
                            items.append((sc, "ages", d, dict(via="node_ages", p=("None", "False", -1)[(rot + 1) % 3])))
                            items.append((sc, "ages", d, dict(via="internal_node_ages", p=("None", "False", -1)[(rot + 2) % 3])))
                        if binary:
                            items.append((sc, "ages", d, dict(via=("pybus_harvey_gamma", "Tree.pybus_harvey_gamma")[(v + ei) % 2], p=p)))
                            items.append((sc, "ages", d, dict(via="coalescent." + ("log_probability_of_coalescent_tree", "extract_coalescent_frames",
                                                                                   "node_waiting_time_pairs")[(v + ei + ci) % 3], p=p)))
    # ---- random multi-edge perturbations
    sc = "ultrametricity@random"
    rng = rng_for(ctx, 17)
    nrand = 1500 if quick else 20000
    ctx.scope(sc, "%d seeded cases: random shape with 3..%d leaves x ultrametric dyadic x every leaf edge moved by a random multiple of p/4 in "
                  "[-p/2, p/2] (p = 0.25; always within precision) or in [-2p, 2p] (verdict from the spec, may be 'none'); non-trivial = all" % (nrand, N + 1), exhaustive=False)
    allsh = [s for s in shapes_upto(N + 1) if n_leaves(s) >= 3]
    for k in range(nrand):
        s = allsh[rng.randrange(len(allsh))]
        base = ultra(s, "dyadic")
        wide = k % 2 == 1
        ls = list(base)
        leaf = []

        def rec(x):
            leaf.append(x == ())
            for c in x:
                rec(c)

        rec(s)
        for i in range(1, len(ls)):
            if leaf[i]:
                e = 0.0625 * rng.randrange(-8 if wide else -2, 9 if wide else 3)
                if ls[i] + e >= 0:
                    ls[i] = ls[i] + e
        d = desc_of(s, ls, _rooted(k))
        items.append((sc, "ages", d, dict(via="calc_node_ages", p=0.25)))
        items.append((sc, "restore", d, dict(p=0.25)))
        items.append((sc, "ages", d, dict(via="node_ages", force=("max", "min")[k % 2], p=0.25)))
    # ---- statistics
    sc = "stats@shapes"
    ctx.scope(sc, "every shape <=%d leaves (+ unifurcation variants for N_bar/Sackin/B1) x {N_bar, B1, sackin_index x {True,False,None,yule,pda,default}, "
                  "colless_tree_imbalance x {max,True,False,None,yule,pda,default} (TypeError demanded on polytomies; max needs n>=3)} x "
                  "{module function, Tree method} x child order {as built, reversed, rotated}; each statistic x normalisation also right after the same call on a "
                  "larger tree (caterpillar, %d leaves) and on a smaller one (3 leaves); non-trivial = >=3 leaves" % (N, N + 3), exhaustive=True)
    cat = ()
    for _ in range(N + 2):
        cat = (cat, ()) if cat != () else ((), ())
    BIGGER = desc_of(cat, None, True)            # a caterpillar with more leaves than any tree of the scope
    SMALLER = desc_of(((), ((), ())), None, True)  # three leaves
    for si, s in enumerate(shapes):
        unif = any(len(n._child_nodes) == 1 for n in A.pre(mk(desc_of(s, None))._seed_node))
        d = desc_of(s, None, _rooted(si))
        nl = n_leaves(s)
        for stat in ("N_bar", "B1", "sackin", "colless"):
            if stat == "colless" and (unif or nl < 2):
                continue
            for norm in STAT_NORMS[stat]:
                if stat == "colless" and norm in ("max", True, "default") and nl < 3:
                    continue
                if nl >= 2:
                    # the statistic is one of the TREE: taxa of the namespace that are not on it do not count
                    items.append((sc, "stat", dict(d, extra_taxa=2), dict(stat=stat, norm=norm, via="fn", order="id")))
                for via in ("fn", "method"):
                    for order in ("id", "rev", "rot"):
                        if via == "method" and order == "rot":
                            continue
                        items.append((sc, "stat", d, dict(stat=stat, norm=norm, via=via, order=order)))
                if nl >= 2 and not unif:
                    # ... and right after the same statistic on a larger and on a smaller tree (a value kept from an earlier call must not leak)
                    items.append((sc, "stat", d, dict(stat=stat, norm=norm, via="fn", order="id", first=BIGGER)))
                    if nl >= 4:
                        items.append((sc, "stat", d, dict(stat=stat, norm=norm, via="method", order="id", first=SMALLER)))
    sc = "stats@lengths"
    ctx.scope(sc, "every shape <=%d leaves (+ unifurcations) x Tree.length on {none, ones, ints, dyadic, onemissing, root edge set}; treeness on "
                  "{ones, dyadic, ints when total>0}; Pybus-Harvey gamma on every binary shape with >=3 leaves x ultrametric {unit,dyadic,zeros} "
                  "(relative 1e-9); function and method, three child orders; non-trivial = >=3 leaves" % N, exhaustive=True)
    for si, s in enumerate(shapes):
        for pi, pat in enumerate(("none", "ones", "ints", "dyadic", "onemissing")):
            ls = plain(s, pat)
            if ls is not None and (si + pi) % 2:
                ls[0] = 0.75
            d = desc_of(s, ls, _rooted(si))
            for order in ("id", "rev"):
                items.append((sc, "stat", d, dict(stat="length", order=order)))
            if pat in ("ones", "dyadic", "ints") and n_nodes(s) > 1:
                ls2 = plain(s, pat)
                if sum(x for x in ls2[1:]) > 0:
                    d2 = desc_of(s, ls2, _rooted(si))
                    for via in ("fn", "method"):
                        for order in ("id", "rev", "rot"):
                            items.append((sc, "stat", d2, dict(stat="treeness", via=via, order=order)))
                    # ... and with a length on the seed node's own edge, which is no branch of the tree
                    ls3 = list(ls2)
                    ls3[0] = 0.75
                    d3 = desc_of(s, ls3, _rooted(si))
                    for via in ("fn", "method"):
                        items.append((sc, "stat", d3, dict(stat="treeness", via=via, order="id")))
    for n in range(3, N + 1):
        for si, s in enumerate(binary_shapes(n)):
            for pat in ("unit", "dyadic", "zeros"):
                ls = ultra(s, pat)
                if sum(ls[1:]) == 0:
                    continue
                d = desc_of(s, ls, _rooted(si))
                for via in ("fn", "method"):
                    for order in ("id", "rev", "rot"):
                        items.append((sc, "stat", d, dict(stat="gamma", via=via, order=order)))
    # ---- recompute after an in-place edit
    sc = "recompute@edit"
    ctx.scope(sc, "every shape <=%d leaves with >=2 leaves: call f, overwrite all edge lengths in place (ultrametric unit -> ultrametric dyadic), call f again; "
                  "f in {calc_node_ages, internal_node_ages, resolve_node_ages, resolve_node_depths, calc_node_root_distances, num_lineages_at, length, treeness}; "
                  "pybus_harvey_gamma on the binary 4-leaf shapes only; non-trivial = >=3 leaves" % N, exhaustive=True)
    for si, s in enumerate(shapes_upto(N, 2)):
        d = desc_of(s, ultra(s, "unit"), _rooted(si))
        d["lengths2"] = ultra(s, "dyadic")
        for fn in ("calc_node_ages", "internal_node_ages", "resolve_node_ages", "resolve_node_depths", "calc_node_root_distances", "num_lineages_at", "length", "treeness"):
            items.append((sc, "recompute", d, dict(fn=fn)))
    for s in binary_shapes(4):
        d = desc_of(s, ultra(s, "unit"), True)
        d["lengths2"] = ultra(s, "dyadic")
        items.append((sc, "recompute", d, dict(fn="pybus_harvey_gamma")))
    return items


def tipdated_lengths(shape, heights):
    """lengths such that root distance + tip height is the same for all tips"""
    it = iter(heights)
    ages, order, counter = {}, [], [0]

    def rec(s, parent):
        idx = counter[0]
        counter[0] += 1
        order.append((idx, parent))
        if s == ():
            ages[idx] = next(it)
        else:
            ca = [rec(c, idx) for c in s]
            ages[idx] = max(ca) + [0.5, 1.0, 0.25][idx % 3]
        return ages[idx]

    rec(shape, None)
    ls = [None] * counter[0]
    for idx, parent in order:
        if parent is not None:
            ls[idx] = ages[parent] - ages[idx]
    return ls


def t2(ctx):
    items = gen_items(ctx)
    chunks = [items[i:i + 400] for i in range(0, len(items), 400)]
    for res in pmap(run_chunk, chunks, chunksize=1):
        for scope, key, nontrivial, fails, op, desc, pr in res:
            ctx.case(scope, key, nontrivial=nontrivial, sample=key)
            for mon, detail in fails:
                ctx.fail(mon, {"key": key, "op": op, "tree": desc, "params": pr, "scope": scope}, detail=detail)
    ctx.note("ultrametricity verdicts: trees whose paths differ by more than the precision but where no child is separated from all "
             "its siblings (e.g. (A:1,B:1.25,C:0.75) at precision 0.25, spread 0.5) are not judged; calc_node_ages accepts them "
             "because it compares with the first child only")


def replay(ctx, rec):
    w = rec["witness"]
    fails = OPS[w["op"]](w["tree"], w["params"])
    for mon, detail in fails:
        print("  %s :: %s" % (mon, detail))
    return not any(mon == rec["obligation"] for mon, _ in fails)
