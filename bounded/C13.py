"""C13 (T2, bounded): every route for reading one source delivers the same data.

Reference = `TreeList.get(data=text, schema, **opts)` (all TREES blocks coerced into one
list).  Every other route is run on the same text with the same options and its result
is compared, through the raw-pointer dump `specs.treeio.observe_full` (ordered topology,
taxon and node labels, lengths, rooting, weight, comments, annotations of tree, nodes and
edges), with the corresponding slice of the reference:

    routes.tree_get            Tree.get(collection_offset=c, tree_offset=t) for every (c,t), and without offsets
    routes.treelist_offsets    TreeList.get(collection_offset=c[, tree_offset=t]) = block c [suffix from t]
    routes.treelist_read       TreeList().read(...) (incremental, twice into the same list)
    routes.yield_from_files    Tree.yield_from_files([stream]) and [stream, stream]
    routes.treearray           TreeArray.read / read_from_files vs a TreeArray filled by add_tree from the reference trees
    routes.dataset             DataSet.get(...).tree_lists / DataSet().read(...)
    routes.source              data= vs file= vs path=
    routes.shared_namespace    all routes called with one TaxonNamespace: taxa on nodes are members of it, no label is added twice
    routes.matrix              CharacterMatrix.get vs the matrix inside DataSet.get, and data/file/path
    routes.*.raises            a route raises where the reference returns (or raises a different exception type)

The number of trees per block is known from the way the document was assembled (not from
a reader), so offset arithmetic is checked against the generator's block sizes.

Corpus (assembled textually here, never by a library writer, except NeXML which is obtained
by writing the DataSet read from the corresponding NEXUS document -- any valid NeXML text
serves, the oracle is relational): Newick documents of 1..3 statements and NEXUS documents
of 1..2 TREES blocks x 1..3 TREE statements x {TRANSLATE with a permuted numbering, no
TRANSLATE} x {TAXA block, none} x {interposed CHARACTERS block} over a pool of statements
with comments, metadata comments on trees/nodes/edges, [&W ...] weights, mixed [&R]/[&U]
tokens, quoted/underscore labels, internal labels, scientific-notation lengths.

Reader options: {}, each `rooting` directive, store_tree_weights, extract_comment_metadata
=False, preserve_underscores, suppress_internal_node_taxa=False, suppress_leaf_node_taxa,
suppress_edge_lengths (NeXML: {} only -- its reader accepts none of these).

Left out: `tree.label` (Tree.get documents that it overwrites the label with its `label`
argument); url sources; TreeArray is compared through its four parallel lists, i.e. only as
far as a TreeArray retains data (splits, lengths, weights)."""
import io
import itertools
import os
import tempfile

from bounded.common import rng_for, pmap
from specs import treeio as T
from specs import matrixio as M
from specs import trees as S

import dendropy
from dendropy import Tree, TreeList, TreeArray, DataSet, TaxonNamespace

# ----------------------------------------------------------------------------- corpus
LAB = {"A": "A", "B": "B_b", "C": "'C c'", "D": "D"}
BODIES = [
    "(({A}:1,{B}:2)x:0.5,({C}:1,{D}:1)y:0.25)r:0.0",
    "({A},({B},({C},{D})))",
    "(({A}:1e-2,{B}:2.5E+1)90:3,{C}:0,{D}:1.5)",
    "(({A}[&col=red,h={{1,2}}]:1[edge note],{B}[plain]:2)[&support=0.9]:0.5,{C}:1,{D}:2)",
    "({A}:1,{B}:2,({C}:3)u:4,{D}:5)",
]
PREFIX = ["", "[&R] ", "[&U] ", "[&W 0.25] [&R] ", "[&U] [&W 1/4] ", "[a tree comment] ", "[&lnP=-12.5,name=\"x y\"] [&R] ", "[&W 0] [&R] "]
# statement pool: (prefix index, body index) pairs covering every feature at least twice
POOL = [(0, 0), (1, 1), (2, 2), (3, 0), (4, 3), (5, 4), (6, 2), (1, 3), (7, 1)]


def stmt(k, labmap):
    p, b = POOL[k]
    return PREFIX[p] + BODIES[b].format(**labmap)


def newick_doc(seq, labmap=None):
    return "\n".join(stmt(k, labmap or LAB) + ";" for k in seq) + "\n"


# integer tip labels that do not appear in the order 1, 2, 3, ... (simulator-style output): a label must never be read as a taxon NUMBER in plain Newick
NUMLAB = [{"A": "2", "B": "5", "C": "1", "D": "7"}, {"A": "3", "B": "1", "C": "4", "D": "2"}]


TRANSLATE = [
    {"A": "2", "B": "3", "C": "1", "D": "4"},   # a permutation of the TAXLABELS numbering
    {"A": "t1", "B": "T2", "C": "4", "D": "x"},
]
CHARBLOCK = ("BEGIN CHARACTERS;\n  DIMENSIONS NCHAR=4;\n  FORMAT DATATYPE=DNA GAP=- MISSING=?;\n  MATRIX\n"
             "    A ACGT\n    B_b A-G?\n    'C c' {AC}CGT\n    D ACGN\n  ;\nEND;\n")


SETSBLOCK = "BEGIN SETS;\n  CHARSET first = 1-2;\n  CHARSET second = 3 4;\n  CHARSET everything = ALL;\nEND;\n"


def nexus_doc(blocks, taxa, chars, between=0, sets=False):
    """blocks: list of (seq of pool indices, translate index or None)
    between: what stands between consecutive TREE statements -- 0 nothing, 1 a plain and a metadata
    comment, 2 a statement the reader does not interpret (UTREE) followed by such comments"""
    out = ["#NEXUS\n"]
    if taxa:
        out.append("BEGIN TAXA;\n  DIMENSIONS NTAX=5;\n  TAXLABELS A B_b 'C c' D E;\nEND;\n")
    for bi, (seq, tr) in enumerate(blocks):
        if chars and bi == 1:
            out.append(CHARBLOCK)
            if sets:
                out.append(SETSBLOCK)
        out.append("BEGIN TREES;\n")
        if bi == 1:
            out.append("  [block comment]\n")
        labmap = LAB
        if tr is not None:
            labmap = TRANSLATE[tr]
            out.append("  TRANSLATE\n" + ",\n".join("    %s %s" % (labmap[k], LAB[k]) for k in "ABCD") + ";\n")
        for i, k in enumerate(seq):
            if between and i > 0:
                if between == 2:
                    out.append("  UTREE u%d = (%s,%s,(%s,%s));\n" % (i, labmap["A"], labmap["D"], labmap["B"], labmap["C"]))
                out.append("  [before tree %d] [&burnin=%d]\n" % (i, 100 + i))
            out.append("  TREE %st%d_%d = %s;\n" % ("* " if i == 1 else "", bi, i, stmt(k, labmap)))
        out.append("END;\n")
    if chars and len(blocks) == 1:
        out.append(CHARBLOCK)
        if sets:
            out.append(SETSBLOCK)
    return "".join(out)


def seqs(maxlen, full):
    out = []
    for n in range(1, maxlen + 1):
        for s in itertools.product(range(8), repeat=n):  # (statement 8, the zero-weight tree, only in the documents made for it)
            if n == 3 and not full and (s[0] + 2 * s[1] + 3 * s[2]) % 8 != 0:
                continue
            out.append(s)
    return out


NEWICK_OPTS = [
    {}, {"rooting": "default-rooted"}, {"rooting": "default-unrooted"}, {"rooting": "force-rooted"}, {"rooting": "force-unrooted"},
    {"store_tree_weights": True}, {"extract_comment_metadata": False}, {"preserve_underscores": True},
    {"suppress_internal_node_taxa": False}, {"suppress_leaf_node_taxa": True}, {"suppress_edge_lengths": True},
    {"store_tree_weights": True, "rooting": "default-rooted", "preserve_underscores": True},
]


def corpus(tier, rng):
    """yields dict(schema, name, text, sizes=[trees per block], opts_list)"""
    full = tier == "thorough"
    docs = []
    for s in seqs(3, full):
        docs.append(dict(schema="newick", name="newick:" + "".join(map(str, s)), text=newick_doc(s), sizes=[len(s)]))
    for j, s in enumerate(seqs(2, True)):
        if 4 in s or 7 in s:   # pool statements 4 / 7 carry annotations inside the tree body; not needed here
            continue
        for m, lm in enumerate(NUMLAB):
            if not full and (j + m) % 3:
                continue
            docs.append(dict(schema="newick", name="newick:%s/numeric-labels%d" % ("".join(map(str, s)), m), text=newick_doc(s, lm), sizes=[len(s)]))
    one = seqs(3, full)
    two = seqs(2, True)
    k = 0
    for s in one:
        for tr in (None, 0, 1):
            for taxa in (True, False):
                k += 1
                if not full and len(s) == 3 and k % 3:
                    continue
                docs.append(dict(schema="nexus", name="nexus:%s/tr%s/taxa%d" % ("".join(map(str, s)), tr, taxa),
                                 text=nexus_doc([(s, tr)], taxa, chars=(taxa and k % 4 < 2)), sizes=[len(s)]))
    # statements and comments standing between the TREE statements of a block
    for j, s in enumerate(x for x in one if len(x) >= 2):
        if not full and j % 5:
            continue
        for between in (1, 2):
            for tr in (None, 0):
                docs.append(dict(schema="nexus", name="nexus:%s/tr%s/between%d" % ("".join(map(str, s)), tr, between),
                                 text=nexus_doc([(s, tr)], True, chars=False, between=between), sizes=[len(s)]))
                docs.append(dict(schema="nexus", name="nexus:%s+%s/tr%s/between%d" % ("".join(map(str, s)), "".join(map(str, s[::-1])), tr, between),
                                 text=nexus_doc([(s, tr), (s[::-1], None)], j % 2 == 0, chars=False, between=between), sizes=[len(s), len(s)]))
    # a SETS block (character sets, one of them `ALL`) between the characters and a later TREES block whose statements use hyphens (1e-2)
    for j, s in enumerate(two):
        if not full and j % 4:
            continue
        for tr in (None, 0):
            docs.append(dict(schema="nexus", name="nexus:%s+%s/tr%s/sets" % ("".join(map(str, s)), "".join(map(str, s[::-1])), tr),
                             text=nexus_doc([(s, tr), ((2,) + tuple(s[::-1]), None)], True, chars=True, sets=True), sizes=[len(s), len(s) + 1]))
    pairs = [(a, b) for a in two for b in two]
    if not full:
        pairs = [p for i, p in enumerate(pairs) if i % 29 == 0]
    else:
        pairs = [p for i, p in enumerate(pairs) if i % 9 == 0]
    for i, (a, b) in enumerate(pairs):
        for (ta, tb) in ((None, None), (0, None), (None, 1), (0, 1)):
            taxa = (i % 2 == 0)
            docs.append(dict(schema="nexus", name="nexus:%s+%s/tr%s,%s/taxa%d" % ("".join(map(str, a)), "".join(map(str, b)), ta, tb, taxa),
                             text=nexus_doc([(a, ta), (b, tb)], taxa, chars=(taxa and i % 3 == 0)), sizes=[len(a), len(b)]))
    # NeXML with two <otus> blocks that have labels in common (a tree block on each)
    from bounded.C11 import NEXML_TWO
    docs.append(dict(schema="nexml", name="nexml<-handwritten:two-otus", text=NEXML_TWO, sizes=[1, 1], attached=True))
    # comments and a quoted label that run over a line break (every route delivers the same characters inside them)
    ML_NEWICK = "[a comment over\n   two lines] (A:1,('B\n b':2,C:3)[node note\nsecond line]:4);\n[&R] [second\ntree] ((A,'B\n b'),C);\n"
    docs.append(dict(schema="newick", name="newick:multiline-comments", text=ML_NEWICK, sizes=[2]))
    ML_NEXUS = ("#NEXUS\nBEGIN TREES;\n [block comment over\n  two lines]\n TREE t1 = [&R] [inferred with\n     default settings] (A:1,(B:2,C:3)[note\nmore]:4);\n"
                " TREE t2 = (A,(B,C));\nEND;\n")
    docs.append(dict(schema="nexus", name="nexus:multiline-comments", text=ML_NEXUS, sizes=[2]))
    for d in docs[-2:]:
        docs.append(dict(d, name=d["name"] + ":crlf", text=d["text"].replace("\n", "\r\n")))
    # the same documents with CR+LF line ends (a subset): a string or a path is read with universal newlines, a stream
    # handed over by the caller delivers the carriage returns to the tokenizer
    for i, d in enumerate(list(docs)):
        if i % (3 if full else 7) == 0 and "\n" in d["text"]:
            docs.append(dict(d, name=d["name"] + ":crlf", text=d["text"].replace("\n", "\r\n")))
    for i, d in enumerate(docs):
        if full:
            d["opts_list"] = NEWICK_OPTS
        else:
            # quick: the default plus three of the eleven other option sets, rotating over the corpus
            rest = NEWICK_OPTS[1:]
            d["opts_list"] = [NEWICK_OPTS[0]] + [rest[(3 * i + j) % len(rest)] for j in range(3)]
    # a block the reader does not interpret before a TREES block whose statements run over line breaks, with and without keeping the
    # text of the uninterpreted block (reader option store_ignored_blocks)
    IGN = ("#NEXUS\nBEGIN PAUP;\n set criterion=likelihood\n   storebrlens=yes;\nEND;\nBEGIN TREES;\n TREE t1 = [&R] ((A:1,\n B:2):1,\n C:3);\n"
           " TREE t2 = (A,\n (B,C));\nEND;\n")
    docs.append(dict(schema="nexus", name="nexus:ignored-block+multiline-trees", text=IGN, sizes=[2],
                     opts_list=[{}, {"store_ignored_blocks": True}, {"store_ignored_blocks": True, "rooting": "force-unrooted"}]))
    # a tree of weight ZERO among weighted ones, weights kept and not kept
    for sq in ((3, 8, 1), (8, 4)):
        docs.append(dict(schema="newick", name="newick:%s/zero-weight" % "".join(map(str, sq)), text=newick_doc(sq), sizes=[len(sq)],
                         opts_list=[{"store_tree_weights": True}, {}]))
        docs.append(dict(schema="nexus", name="nexus:%s/zero-weight" % "".join(map(str, sq)), text=nexus_doc([(sq, None)], True, chars=False), sizes=[len(sq)],
                         opts_list=[{"store_tree_weights": True}, {}]))
    # two titled TAXA blocks with labels in common, a TREES block linked to each
    from bounded.C11 import NEXUS_TWO
    docs.append(dict(schema="nexus", name="nexus:two-taxa-blocks", text=NEXUS_TWO, sizes=[1, 1], opts_list=[{}]))
    # NeXML: written from the NEXUS documents (subset)
    nx = [d for d in docs if d["schema"] == "nexus"]
    step = 4 if full else 9
    for d in nx[::step]:
        try:
            ds = DataSet.get(data=d["text"], schema="nexus")
            text = ds.as_string(schema="nexml")
        except Exception:
            continue
        # (a source with several taxa blocks gives a NeXML document with several otus elements: like the hand-written one above it is
        # compared under the attached-namespace clause only)
        docs.append(dict(schema="nexml", name="nexml<-" + d["name"], text=text, sizes=list(d["sizes"]),
                         opts_list=[{}, {"suppress_internal_node_taxa": False}], attached=len(ds.taxon_namespaces) > 1))
    return docs


# ----------------------------------------------------------------------------- evaluation
def _call(fn):
    try:
        return ("ok", fn())
    except Exception as e:
        return ("exc", type(e).__name__, str(e)[:160])


def _dumps(trees):
    return [T.observe_full(t) for t in trees]


def _cmp(name, ref, got, out, what=""):
    """ref/got: ('ok', list of dumps) | ('exc', type, msg)"""
    if ref[0] == "exc" or got[0] == "exc":
        if ref[0] != got[0] or ref[1] != got[1]:
            out.append([name + ".raises", "%s: reference %s, route %s" % (what, ref[:2] if ref[0] == "exc" else "returns", got[1:] if got[0] == "exc" else "returns")])
        return
    d = T.first_difference(ref[1], got[1])
    if d:
        out.append([name, "%s: %s" % (what, d)])


def _slice(ref, lo, hi=None):
    if ref[0] == "exc":
        return ref
    return ("ok", ref[1][lo:hi])


def evaluate(case):
    """one (document, options) pair through every route -> list of [monitor, detail]"""
    text, schema, sizes = case["text"], case["schema"], case["sizes"]
    # a stream handed over by the caller delivers its characters as they are; where line breaks are part of the DATA (comments and
    # quoted labels running over a line) the comparison is between text-mode streams, as open() and the string route give them
    SIO = (lambda: io.StringIO(text, newline=None)) if "multiline" in case.get("name", "") else (lambda: io.StringIO(text))
    kw = dict(case["opts"])
    out = []
    n_routes = [0]

    def run(f):
        n_routes[0] += 1
        return _call(f)

    ref = _call(lambda: _dumps(TreeList.get(data=text, schema=schema, **kw)._trees))
    total = sum(sizes)
    if ref[0] == "ok" and len(ref[1]) != total:
        out.append(["routes.reference.count", "the document has %d tree statements, TreeList.get returned %d" % (total, len(ref[1]))])
        return out, n_routes[0]
    starts = [sum(sizes[:c]) for c in range(len(sizes))]
    # Tree.get
    _cmp("routes.tree_get", _slice(ref, 0, 1), run(lambda: _dumps([Tree.get(data=text, schema=schema, **kw)])), out, "no offsets")
    for c, n in enumerate(sizes):
        for t in range(n):
            _cmp("routes.tree_get", _slice(ref, starts[c] + t, starts[c] + t + 1),
                 run(lambda: _dumps([Tree.get(data=text, schema=schema, collection_offset=c, tree_offset=t, **kw)])), out,
                 "collection_offset=%d tree_offset=%d" % (c, t))
        _cmp("routes.treelist_offsets", _slice(ref, starts[c], starts[c] + n),
             run(lambda: _dumps(TreeList.get(data=text, schema=schema, collection_offset=c, **kw)._trees)), out, "collection_offset=%d" % c)
        for t in range(n):
            _cmp("routes.treelist_offsets", _slice(ref, starts[c] + t, starts[c] + n),
                 run(lambda: _dumps(TreeList.get(data=text, schema=schema, collection_offset=c, tree_offset=t, **kw)._trees)), out,
                 "collection_offset=%d tree_offset=%d" % (c, t))
    _cmp("routes.treelist_offsets", _slice(ref, 0, None) if len(sizes) == 1 else _slice(ref, 0, sizes[0]),
         run(lambda: _dumps(TreeList.get(data=text, schema=schema, tree_offset=0, **kw)._trees)), out, "tree_offset=0 alone")

    # incremental read, twice
    def inc():
        tl = TreeList()
        n1 = tl.read(data=text, schema=schema, **kw)
        n2 = tl.read(file=SIO(), schema=schema, **kw)
        if n1 != total or n2 != total:
            raise AssertionError("read() returned %r then %r for a document with %d trees" % (n1, n2, total))
        return _dumps(tl._trees)

    dbl = ref if ref[0] == "exc" else ("ok", ref[1] + ref[1])
    _cmp("routes.treelist_read", dbl, run(inc), out, "read twice into one list")

    # a further read of ONE collection of the document into a list that already holds trees: the list grows by exactly that collection
    def inc_collection(c):
        tl = TreeList()
        tl.read(data=text, schema=schema, **kw)
        n2 = tl.read(data=text, schema=schema, collection_offset=c, **kw)
        if n2 != sizes[c]:
            raise AssertionError("read(collection_offset=%d) into a list holding %d trees returned %r; the collection has %d trees" % (c, total, n2, sizes[c]))
        return _dumps(tl._trees)

    if ref[0] == "ok":
        for c in range(len(sizes)):
            _cmp("routes.treelist_read", ("ok", ref[1] + ref[1][starts[c]:starts[c] + sizes[c]]), run(lambda: inc_collection(c)), out,
                 "read(collection_offset=%d) into a list that holds the whole document" % c)

    # yielder
    def yl(k):
        ns = TaxonNamespace()
        return _dumps(list(Tree.yield_from_files([SIO() for _ in range(k)], schema, taxon_namespace=ns, **kw)))

    _cmp("routes.yield_from_files", ref, run(lambda: yl(1)), out, "one stream")
    _cmp("routes.yield_from_files", dbl, run(lambda: yl(2)), out, "two streams")

    # tree array
    def ta_dump(ta):
        return [list(map(list, ta._tree_split_bitmasks)), list(map(list, ta._tree_edge_lengths)), list(ta._tree_weights),
                list(ta._tree_leafset_bitmasks), ta._is_rooted_trees]

    def ta_ref():
        ns = TaxonNamespace()
        tl = TreeList.get(data=text, schema=schema, taxon_namespace=ns, **kw)
        ta = TreeArray(taxon_namespace=ns)
        for t in tl._trees:
            ta.add_tree(t)
        return ta_dump(ta)

    def ta_read(how):
        ns = TaxonNamespace()
        ta = TreeArray(taxon_namespace=ns)
        if how == "read":
            ta.read(data=text, schema=schema, **kw)
        else:
            ta.read_from_files([SIO()], schema, **kw)
        return ta_dump(ta)

    tref = _call(ta_ref)
    if tref[0] == "ok" and ref[0] == "ok":
        # the weights the array keeps are the weights the other routes deliver (a tree without one counts 1.0)
        def ta_weights():
            tl = TreeList.get(data=text, schema=schema, **kw)
            return [1.0 if t.weight is None else t.weight for t in tl._trees]
        wref = _call(ta_weights)
        if wref[0] == "ok" and list(tref[1][2]) != list(wref[1]):
            out.append(["routes.treearray.weights", "TreeArray keeps the weights %r, the trees read by TreeList.get carry %r" % (list(tref[1][2]), wref[1])])
    for how, what in (("read", "TreeArray.read(data=)"), ("files", "TreeArray.read_from_files")):
        got = run(lambda: ta_read(how))
        if ref[0] == "exc":
            # the document does not parse under these options: an incremental route may meet a different
            # problem first (e.g. mixed rooting before the parse error); only "raises too" is demanded
            if got[0] != "exc":
                out.append(["routes.treearray.raises", "%s: reference raises %s, route returns" % (what, ref[1])])
        else:
            _cmp("routes.treearray", tref, got, out, what)

    # the array filled from TWO sources with a tree offset: the offset applies to each source (single-collection documents)
    # (not for NeXML: two NeXML sources read into one namespace never share taxa -- the recorded finding C13-nexml-shared-namespace)
    if ref[0] == "ok" and len(sizes) == 1 and total >= 2 and schema != "nexml":
        def ta_two_ref():
            ns = TaxonNamespace()
            ta = TreeArray(taxon_namespace=ns)
            for _ in range(2):
                for t in TreeList.get(data=text, schema=schema, taxon_namespace=ns, tree_offset=1, **kw)._trees:
                    ta.add_tree(t)
            return ta_dump(ta)

        def ta_two():
            ns = TaxonNamespace()
            ta = TreeArray(taxon_namespace=ns)
            ta.read_from_files([SIO(), SIO()], schema, tree_offset=1, **kw)
            return ta_dump(ta)

        _cmp("routes.treearray", _call(ta_two_ref), run(ta_two), out, "TreeArray.read_from_files([source, source], tree_offset=1)")

    # data set
    def ds_get():
        ds = DataSet.get(data=text, schema=schema, **kw)
        got = [len(tl._trees) for tl in ds.tree_lists]
        if got != sizes:
            raise AssertionError("DataSet tree list sizes %r, document blocks %r" % (got, sizes))
        return _dumps([t for tl in ds.tree_lists for t in tl._trees])

    def ds_read():
        ds = DataSet()
        ds.read(file=SIO(), schema=schema, **kw)
        return _dumps([t for tl in ds.tree_lists for t in tl._trees])

    _cmp("routes.dataset", ref, run(ds_get), out, "DataSet.get")
    _cmp("routes.dataset", ref, run(ds_read), out, "DataSet().read")

    # sources
    _cmp("routes.source", ref, run(lambda: _dumps(TreeList.get(file=SIO(), schema=schema, **kw)._trees)), out, "file=")

    def by_path():
        fd, p = tempfile.mkstemp(prefix="c13_", suffix="." + schema)
        try:
            with os.fdopen(fd, "w") as f:
                f.write(text)
            a = _dumps(TreeList.get(path=p, schema=schema, **kw)._trees)
            b = _dumps([Tree.get(path=p, schema=schema, **kw)])
            c = _dumps(list(Tree.yield_from_files([p], schema, **kw)))
            return a + b + c
        finally:
            os.unlink(p)

    want = ref if ref[0] == "exc" else ("ok", ref[1] + ref[1][:1] + ref[1])
    _cmp("routes.source", want, run(by_path), out, "path= (TreeList.get, Tree.get, yield_from_files)")

    # shared namespace
    def shared():
        ns = TaxonNamespace()
        a = TreeList.get(data=text, schema=schema, taxon_namespace=ns, **kw)
        labels0 = T.ns_labels(ns)
        trees = list(a._trees)
        trees.append(Tree.get(data=text, schema=schema, taxon_namespace=ns, collection_offset=len(sizes) - 1, tree_offset=sizes[-1] - 1, **kw))
        trees.extend(Tree.yield_from_files([SIO()], schema, taxon_namespace=ns, **kw))
        b = TreeList(taxon_namespace=ns)
        b.read(data=text, schema=schema, **kw)
        trees.extend(b._trees)
        ds = DataSet.get(data=text, schema=schema, taxon_namespace=ns, **kw)
        for tl in ds.tree_lists:
            trees.extend(tl._trees)
        errs = []
        if T.ns_labels(ns) != labels0:
            errs.append("namespace labels after the first read %r, after all routes %r" % (labels0, T.ns_labels(ns)))
        if len(set(x.lower() for x in labels0)) != len(labels0):
            errs.append("duplicate labels in the shared namespace: %r" % (labels0,))
        for t in trees:
            errs.extend(T.taxon_identity_errors(t, ns))
        return errs[:1]

    r = run(shared)
    if ref[0] == "ok":
        if r[0] == "exc":
            out.append(["routes.shared_namespace.raises", "%s: %s" % (r[1], r[2])])
        elif r[1]:
            out.append(["routes.shared_namespace", r[1][0]])

    # the routes that hand the caller's namespace to the READER (it is attached while the document is read): two reads of the document
    # into one fresh namespace leave one taxon per label, and both reads sit on those taxa
    def attached():
        ns = TaxonNamespace()
        trees = list(Tree.yield_from_files([SIO()], schema, taxon_namespace=ns, **kw))
        labels0 = T.ns_labels(ns)
        ds = DataSet.get(data=text, schema=schema, taxon_namespace=ns, **kw)
        for tl in ds.tree_lists:
            trees.extend(tl._trees)
        ds2 = DataSet()
        ds2.attach_taxon_namespace(ns)
        ds2.read(data=text, schema=schema, **kw)
        for tl in ds2.tree_lists:
            trees.extend(tl._trees)
        errs = []
        if len(set(labels0)) != len(labels0):
            errs.append("one read leaves duplicate labels in the namespace: %r" % (labels0,))
        if T.ns_labels(ns) != labels0:
            errs.append("namespace labels after the first read %r, after three reads %r" % (labels0, T.ns_labels(ns)))
        for t in trees:
            errs.extend(T.taxon_identity_errors(t, ns))
        return errs[:1]

    if case.get("attached"):
        # (a document with several taxa blocks is read into ONE namespace by some routes and into one per block by others: only this
        # clause is compared for it -- the other comparisons above are dropped)
        out = []
        r = run(attached)
        if ref[0] == "ok":
            if r[0] == "exc":
                out.append(["routes.attached_namespace.raises", "%s: %s" % (r[1], r[2])])
            elif r[1]:
                out.append(["routes.attached_namespace", r[1][0]])
    return out, n_routes[0]


# ----------------------------------------------------------------------------- matrices
MATRIX_DOCS = [
    ("nexus", "dna-data", "dna", "#NEXUS\nBEGIN DATA;\n DIMENSIONS NTAX=3 NCHAR=5;\n FORMAT DATATYPE=DNA GAP=- MISSING=?;\n MATRIX\n  A ACGT-\n  B_b A?GTT\n  'C c' {AC}CGTA\n ;\nEND;\n", {}),
    ("nexus", "dna-chars+taxa", "dna", "#NEXUS\nBEGIN TAXA;\n DIMENSIONS NTAX=3;\n TAXLABELS A B C;\nEND;\nBEGIN CHARACTERS;\n DIMENSIONS NCHAR=4;\n FORMAT DATATYPE=DNA;\n MATRIX\n A ACGT\n B ACGA\n C (AG)CGT\n ;\nEND;\nBEGIN SETS;\n CHARSET first = 1-2;\n CHARSET odd = 1-4\\2;\nEND;\n", {}),
    ("nexus", "dna-interleaved", "dna", "#NEXUS\nBEGIN DATA;\n DIMENSIONS NTAX=2 NCHAR=6;\n FORMAT DATATYPE=DNA INTERLEAVE;\n MATRIX\n A ACG\n B AAG\n\n A TTT\n B TTA\n ;\nEND;\n", {}),
    ("nexus", "two-blocks", "dna", "#NEXUS\nBEGIN TAXA;\n DIMENSIONS NTAX=2;\n TAXLABELS A B;\nEND;\nBEGIN CHARACTERS;\n TITLE one;\n DIMENSIONS NCHAR=3;\n FORMAT DATATYPE=DNA;\n MATRIX\n A ACG\n B ACC\n ;\nEND;\nBEGIN CHARACTERS;\n TITLE two;\n DIMENSIONS NCHAR=2;\n FORMAT DATATYPE=DNA;\n MATRIX\n A TT\n B TA\n ;\nEND;\n", {}),
    ("nexus", "standard", "standard", "#NEXUS\nBEGIN DATA;\n DIMENSIONS NTAX=3 NCHAR=4;\n FORMAT DATATYPE=STANDARD SYMBOLS=\"01\" MISSING=? GAP=-;\n MATRIX\n A 0101\n B 1?0-\n C 00{01}1\n ;\nEND;\n", {}),
    ("nexus", "protein", "protein", "#NEXUS\nBEGIN DATA;\n DIMENSIONS NTAX=2 NCHAR=4;\n FORMAT DATATYPE=PROTEIN;\n MATRIX\n A ARND\n B A-NX\n ;\nEND;\n", {}),
    ("nexus", "continuous", "continuous", "#NEXUS\nBEGIN DATA;\n DIMENSIONS NTAX=2 NCHAR=3;\n FORMAT DATATYPE=CONTINUOUS;\n MATRIX\n A 0.5 1e-3 -2\n B 1 2 3.25\n ;\nEND;\n", {}),
    ("nexus", "chars+trees", "dna", "#NEXUS\nBEGIN TAXA;\n DIMENSIONS NTAX=3;\n TAXLABELS A B C;\nEND;\nBEGIN CHARACTERS;\n DIMENSIONS NCHAR=2;\n FORMAT DATATYPE=DNA;\n MATRIX\n A AC\n B AG\n C AT\n ;\nEND;\nBEGIN TREES;\n TREE t = (A,(B,C));\nEND;\n", {}),
    ("phylip", "relaxed", "dna", "3 4\nAlpha ACGT\nBeta_b A-GT\nGamma ACGA\n", {}),
    ("phylip", "strict", "dna", "2 4\nAlpha     ACGT\nBeta b    ACGA\n", {"strict": True}),
    ("phylip", "interleaved", "dna", "2 6\nAlpha ACG\nBeta ACC\n\nTTT\nTTA\n", {"interleaved": True}),
    ("phylip", "multiline", "dna", "2 6\nAlpha ACG\nTTT\nBeta ACC\nTTA\n", {}),
    ("phylip", "protein", "protein", "2 3\nAlpha ARN\nBeta A-D\n", {}),
    ("fasta", "dna", "dna", ">Alpha\nACGT\nAC\n>Beta b\nAC-TAA\n", {}),
    ("fasta", "protein", "protein", ">Alpha\nARND\n>Beta\nA-ND\n", {}),
]
MATRIX_CLASS = {"dna": dendropy.DnaCharacterMatrix, "standard": dendropy.StandardCharacterMatrix, "protein": dendropy.ProteinCharacterMatrix,
                "continuous": dendropy.ContinuousCharacterMatrix}


def evaluate_matrix(case):
    schema, text, dt, kw = case["schema"], case["text"], case["data_type"], dict(case["opts"])
    cls = MATRIX_CLASS[dt]
    out = []
    n = [0]

    def run(f):
        n[0] += 1
        return _call(f)

    dskw = dict(kw)
    if schema in ("phylip", "fasta"):
        dskw["data_type"] = dt
    nm = case.get("n_matrices", 1)
    for off in range(nm):
        if case.get("types"):
            # blocks of several data types in one source: matrix_offset counts the blocks of the SOURCE, whatever their type
            cls = MATRIX_CLASS[case["types"][off]]
        ref = run(lambda: M.observe_matrix(DataSet.get(data=text, schema=schema, **dskw).char_matrices[off]))
        alone = run(lambda: M.observe_matrix(cls.get(data=text, schema=schema, matrix_offset=off, **kw)))
        _cmp("routes.matrix", ref, alone, out, "%s.get(matrix_offset=%d) vs DataSet.get" % (cls.__name__, off))
        # (a stream is handed over as it is; only for bare-CR documents it is a universal-newlines stream, as open() gives:
        # which characters end a line of a stream is the stream's business, and the FASTA/PHYLIP readers read by line)
        mkstream = (lambda: io.StringIO(text, newline=None)) if case["name"].endswith(":cr") else (lambda: io.StringIO(text))
        _cmp("routes.matrix", ref, run(lambda: M.observe_matrix(cls.get(file=mkstream(), schema=schema, matrix_offset=off, **kw))), out, "file=")

        def by_path():
            fd, p = tempfile.mkstemp(prefix="c13m_", suffix="." + schema)
            try:
                with os.fdopen(fd, "w") as f:
                    f.write(text)
                return M.observe_matrix(cls.get(path=p, schema=schema, matrix_offset=off, **kw))
            finally:
                os.unlink(p)

        _cmp("routes.matrix", ref, run(by_path), out, "path=")

        def ds_read():
            ds = DataSet()
            ds.read(data=text, schema=schema, **dskw)
            return M.observe_matrix(ds.char_matrices[off])

        _cmp("routes.matrix", ref, run(ds_read), out, "DataSet().read")
        if off == 0:
            def shared():
                ns = TaxonNamespace()
                a = cls.get(data=text, schema=schema, taxon_namespace=ns, **kw)
                l0 = [t.label for t in ns._taxa]
                b = DataSet.get(data=text, schema=schema, taxon_namespace=ns, **dskw).char_matrices[0]
                l1 = [t.label for t in ns._taxa]
                if l0 != l1:
                    return "namespace labels %r after the matrix read, %r after the data set read" % (l0, l1)
                if set(map(id, a._taxon_sequence_map)) != set(map(id, b._taxon_sequence_map)):
                    return "the two matrices are keyed by different Taxon objects of the shared namespace"
                return None

            r = run(shared)
            if r[0] == "exc":
                if ref[0] == "ok":
                    out.append(["routes.matrix.raises", "shared namespace: %s: %s" % (r[1], r[2])])
            elif r[1]:
                out.append(["routes.matrix", "shared namespace: " + r[1]])
    return out, n[0]


MIXED = ("#NEXUS\nBEGIN TAXA;\n DIMENSIONS NTAX=2;\n TAXLABELS A B;\nEND;\nBEGIN CHARACTERS;\n TITLE one;\n DIMENSIONS NCHAR=3;\n FORMAT DATATYPE=DNA;\n MATRIX\n A ACG\n B ACC\n ;\nEND;\n"
         "BEGIN CHARACTERS;\n TITLE two;\n DIMENSIONS NCHAR=2;\n FORMAT DATATYPE=STANDARD SYMBOLS=\"01\";\n MATRIX\n A 01\n B 11\n ;\nEND;\n"
         "BEGIN CHARACTERS;\n TITLE three;\n DIMENSIONS NCHAR=2;\n FORMAT DATATYPE=DNA;\n MATRIX\n A TT\n B TA\n ;\nEND;\n"
         "BEGIN CHARACTERS;\n TITLE four;\n DIMENSIONS NCHAR=4;\n FORMAT DATATYPE=DNA;\n MATRIX\n A GGGG\n B GGGA\n ;\nEND;\n")


def matrix_cases():
    cases = [dict(kind="matrix", schema="nexus", name="nexus:mixed-types", data_type="dna", text=MIXED, opts={}, n_matrices=4,
                  types=["dna", "standard", "dna", "dna"])]
    try:
        cases.append(dict(kind="matrix", schema="nexml", name="nexml<-nexus:mixed-types", data_type="dna",
                          text=DataSet.get(data=MIXED, schema="nexus").as_string(schema="nexml"), opts={}, n_matrices=4, types=["dna", "standard", "dna", "dna"]))
    except Exception:
        pass
    for schema, name, dt, text, kw in MATRIX_DOCS:
        cases.append(dict(kind="matrix", schema=schema, name="%s:%s" % (schema, name), data_type=dt, text=text, opts=kw,
                          n_matrices=(2 if name == "two-blocks" else 1)))
        # the same document with CR+LF and with CR line ends: a string or an untranslated stream hands the carriage returns
        # to the tokenizer, a path opened in text mode does not
        for eol_name, eol in (("crlf", "\r\n"), ("cr", "\r")):
            cases.append(dict(kind="matrix", schema=schema, name="%s:%s:%s" % (schema, name, eol_name), data_type=dt, text=text.replace("\n", eol), opts=kw,
                              n_matrices=(2 if name == "two-blocks" else 1)))
        if schema == "nexus":
            try:
                ds = DataSet.get(data=text, schema="nexus")
                x = ds.as_string(schema="nexml")
                cases.append(dict(kind="matrix", schema="nexml", name="nexml<-nexus:%s" % name, data_type=dt, text=x, opts={},
                                  n_matrices=(2 if name == "two-blocks" else 1)))
            except Exception:
                pass
    return cases


NEXML_ANNOTATED = """<?xml version="1.0" encoding="ISO-8859-1"?>
<nex:nexml version="0.9" xmlns:m="%(m)s" xmlns:dt="%(dt)s" xmlns="http://www.nexml.org/2009"
    xmlns:xsi="http://www.w3.org/2001/XMLSchema-instance" xmlns:xml="http://www.w3.org/XML/1998/namespace" xmlns:nex="http://www.nexml.org/2009">
    <otus id="o0"><otu id="o1" label="a" /><otu id="o2" label="b" /><otu id="o3" label="c" /></otus>
    <trees id="ts" otus="o0">
        <tree id="t0" label="%(label)s" xsi:type="nex:FloatTree">
            <meta xsi:type="nex:LiteralMeta" property="m:score" content="%(score)s" datatype="dt:double" id="m0" />
            <node id="n0" root="true" /><node id="n1" /><node id="n2" otu="o1" /><node id="n3" otu="o2" />
            <node id="n4" otu="o3"><meta xsi:type="nex:LiteralMeta" property="m:support" content="7" datatype="dt:integer" id="m1" /></node>
            <rootedge id="e0" target="n0" />
            <edge id="e1" source="n0" target="n1" length="%(len)s" /><edge id="e2" source="n1" target="n2" length="1.0" />
            <edge id="e3" source="n1" target="n3" length="1.0" /><edge id="e4" source="n0" target="n4" length="2.0" />
        </tree>
    </trees>
</nex:nexml>
"""


def nexml_pair_case():
    """two NeXML documents that bind the same prefixes to DIFFERENT namespaces (metadata vocabulary, datatype vocabulary): the tree iterator over
    both delivers what reading each on its own delivers"""
    d1 = NEXML_ANNOTATED % dict(m="http://example.org/one#", dt="http://example.org/other-types#", label="t1", score="1.5", len="1.0")
    d2 = NEXML_ANNOTATED % dict(m="http://example.org/two#", dt="http://www.w3.org/2001/XMLSchema#", label="t2", score="2.5", len="3.0")
    return dict(kind="nexml-pair", schema="nexml", name="nexml:two-documents-other-prefix-bindings", docs=[d1, d2], sizes=[1, 1], opts={})


def _annots_ns(t):
    out = []
    for item in [t] + list(t.preorder_node_iter()):
        for a in item.annotations:
            out.append([str(a.name_prefix), str(a.namespace), str(a.name), repr(a.value)])
    return sorted(out)


def evaluate_nexml_pair(case):
    out = []
    docs = case["docs"]

    def one(text):
        tl = TreeList.get(data=text, schema="nexml")
        return [[T.observe_full(t), _annots_ns(t)] for t in tl._trees]

    for order in ((0, 1), (1, 0)):
        ref = _call(lambda: one(docs[order[0]]) + one(docs[order[1]]))
        got = _call(lambda: [[T.observe_full(t), _annots_ns(t)] for t in
                             Tree.yield_from_files([io.StringIO(docs[order[0]]), io.StringIO(docs[order[1]])], "nexml", taxon_namespace=TaxonNamespace())])
        _cmp("routes.yield_from_files", ref, got, out, "two documents (order %s) through one iterator vs each document on its own" % (order,))
    return out, 4


def _eval_any(case):
    if case.get("kind") == "nexml-pair":
        return evaluate_nexml_pair(case)
    if case.get("kind") == "matrix":
        return evaluate_matrix(case)
    return evaluate(case)


def _optname(o):
    return ",".join("%s=%s" % kv for kv in sorted(o.items())) or "default"


CAP = 8
CAP_OPT = 2


def t2(ctx):
    rng = rng_for(ctx, 13)
    docs = corpus(ctx.tier, rng)
    cases = []
    for d in docs:
        for o in d["opts_list"]:
            cases.append(dict(kind="trees", schema=d["schema"], name=d["name"], text=d["text"], sizes=d["sizes"], opts=o, attached=bool(d.get("attached"))))
    cases.append(nexml_pair_case())
    mcases = matrix_cases()
    sc = "routes-agree@corpus"
    ctx.scope(sc, rule="%d documents (Newick: every sequence of <=3 statements over an 8-statement pool%s; NEXUS: 1 TREES block x "
                       "{TRANSLATE none/permuted/named} x {TAXA, none} and 2 TREES blocks (subset of pairs of <=2-statement blocks) x 4 "
                       "TRANSLATE combinations, optional CHARACTERS block; NeXML: written from every %s NEXUS document) x reader option "
                       "sets (Newick/NEXUS: 12 in thorough, default + 3 rotating in quick; NeXML: 2) x every route; one evaluation = one route call compared with the reference; "
                       "non-trivial = document with >= 2 trees"
                       % (len(docs), "" if ctx.tier == "thorough" else " (length 3 thinned 1/8)", "4th" if ctx.tier == "thorough" else "9th"),
              exhaustive=False)
    scm = "routes-agree@matrices"
    ctx.scope(scm, rule="%d character documents (NEXUS DATA/CHARACTERS incl. interleaved, two blocks, SETS, standard, protein, continuous; "
                        "PHYLIP relaxed/strict/interleaved/multi-line; FASTA; NeXML written from each NEXUS one): CharacterMatrix.get vs "
                        "DataSet.get/read, data/file/path, shared namespace; non-trivial = all" % len(mcases), exhaustive=False)
    allc = cases + mcases
    results = pmap(_eval_any, allc, chunksize=8)
    reported = {}
    capped = {}
    for c, (res, nroutes) in zip(allc, results):
        scope = scm if c.get("kind") == "matrix" else sc
        key = "%s|%s" % (c["name"], _optname(c["opts"]))
        nontriv = True if c.get("kind") == "matrix" else sum(c["sizes"]) >= 2
        for _ in range(max(1, nroutes)):
            ctx.case(scope, key, nontrivial=nontriv, sample=key)
        seen = set()
        for mon, detail in res:
            if mon in seen:
                continue
            seen.add(mon)
            g = (mon, _optname(c["opts"]))
            if reported.get(g, 0) >= CAP_OPT or reported.get(mon, 0) >= CAP:
                capped[mon] = capped.get(mon, 0) + 1
                continue
            w = dict(key=key, case=c)
            if ctx.fail(mon, w, detail="%s [%s]: %s" % (c["name"], _optname(c["opts"]), detail)):
                reported[g] = reported.get(g, 0) + 1
                reported[mon] = reported.get(mon, 0) + 1
    for g, n in sorted(capped.items()):
        ctx.note("%d further violations of %s not listed (cap: %d per monitor, %d per monitor and option set)" % (n, g, CAP, CAP_OPT))


def replay(ctx, rec):
    c = rec["witness"]["case"]
    res, _ = _eval_any(c)
    for mon, d in res:
        print("  %s: %s" % (mon, d))
    return not any(mon == rec["obligation"] for mon, _ in res)
