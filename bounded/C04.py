"""C04 (T2) -- tree-to-tree distances equal their split-set definitions and are metrics.

Oracle (specs/splits.py): the split set of a tree is the set of clades (rooted) or of LSB-0
normalised bipartitions of its leaf set (unrooted) induced by its edges, read off the raw
pointers with a label->bit table fixed by this driver; the length of a split is the length of
*the* edge of the (un)rooted tree inducing it -- edges of the drawing that induce the same
split (a unifurcation chain; the two edges below a bifurcating seed of an unrooted tree) are one
edge of the tree and their lengths add up.  RF = |S1 sym-diff S2|, (fp, fn) = (|S2-S1|, |S1-S2|),
missing = S1-S2, wRF / Euclid = L1 / L2 norm of the length differences, absent split = 0.

Scopes
  pairs      every function x (drawings x topological representatives) over one namespace, leaf
             set and rooting state x length-pattern pairs; each real call gets freshly built
             trees; also is_bipartitions_updated=True after an explicit encoding, the
             Tree.symmetric_difference alias, and both argument orders of the weighted ones.
             Lengths are attached to splits, so two drawings of one tree carry the same lengths:
             identity-of-indiscernibles, child-order and seed-position invariance are all
             instances of "value == oracle".
  random     seeded random pairs of 8-10 leaf trees (independent, or one leaf exchange apart).
  redraw-unifurcations  the same for drawings with a unifurcation inserted (incl. above the seed).
  triangle   all triples over representatives x 2 length functions, from a matrix of real calls.
  namespaces distinct TaxonNamespace objects -> TaxonNamespaceIdentityError from every function,
             with and without is_bipartitions_updated.
  histories  prime (explicit encoding or a first call) ; one edit of tree 1 (or both) ; call with
             default arguments == oracle on the current raw structure.

Missing lengths: the statement fixes only *definedness symmetry* ("refused for both argument
orders or for neither") and value symmetry; so when some non-seed edge has length None the only
demands are (a) the sole refusal accepted is the ValueError about a None edge length, (b) it is
raised for both orders or neither, (c) if defined both ways the values agree.  When no non-seed
length is missing a refusal is a violation.  A seed edge without length counts 0.
Monitor names: <function>.<clause>; value failures on two-leaf unrooted trees carry the suffix
@2-leaf-unrooted and everything found in the unifurcation scope the suffix @unifurcation, so that
these two input classes can be triaged apart from the general case.
Left out: trees with different leaf sets (normalisation is relative to each tree's own leaves),
mixed rooting states, edge_weight_attr / value_type other than the defaults.
"""
import itertools
import math
import random
import warnings

from bounded.common import *  # noqa
from bounded.labelled import *  # noqa
from specs import trees as S
from specs import splits as SP

from dendropy.calculate import treecompare as tc
from dendropy.utility import error as dperror

warnings.filterwarnings("ignore")
from dendropy.utility import deprecate as _deprecate
_deprecate.configure_deprecation_warning_behavior("ignore")   # the deprecated alias is exercised on purpose

F1 = [0.5, 1.25, 2.0, 0.75, 3.5, 1.0, 0.25]
F2 = [1.0, 0.0, 2.0, 3.0]


def _f1(s):
    return F1[(s * 5 + 1) % 7]


def _f2(s):
    return F2[(s * 3 + 1) % 4]


def _exc(e):
    return "%s: %s" % (type(e).__name__, str(e)[:160])


# ----------------------------------------------------------------------------- lengths by split
def lens_by_split(shape, leaves, rooted, pat):
    """explicit per-node length list (preorder) such that the length of every split is a
    function of the split alone: pat in none|ones|f1|f2|missing1|rootlen"""
    shape = tup(shape)
    masks = []
    it = iter(leaves)

    def rec(s):
        idx = len(masks)
        masks.append(0)
        if s == ():
            m = 1 << BIT_OF[next(it)]
        else:
            m = 0
            for c in s:
                m |= rec(c)
        masks[idx] = m
        return m

    fill = rec(shape)
    if pat == "none":
        return None
    splits = [SP.expected_split(m, fill, rooted) for m in masks]
    groups = {}
    for i, s in enumerate(splits):
        if i == 0:
            continue
        groups.setdefault(s, []).append(i)
    # huge1 / huge2: lengths around 2^30 that differ by the same small amounts as f1 / f2 do (a relative tolerance would call them equal)
    fn = {"ones": lambda s: 1.0, "f1": _f1, "f2": _f2, "missing1": _f1, "missing_int": _f1, "rootlen": _f1, "half0": _f1, "half1": _f1,
          "huge1": lambda s: 2.0 ** 30 + _f1(s), "huge2": lambda s: 2.0 ** 30 + _f2(s)}[pat]
    out = [None] * len(masks)
    for s, idxs in groups.items():
        l = fn(s)
        if len(idxs) == 1:
            out[idxs[0]] = l
        elif len(idxs) == 2 and pat in ("half0", "half1"):
            # the whole length of the tree's edge sits on one of the two edges that draw it, the other has none
            k = 0 if pat == "half0" else 1
            out[idxs[k]] = l
            out[idxs[1 - k]] = None
        elif len(idxs) == 2:
            out[idxs[0]] = l / 2
            out[idxs[1]] = l / 2
        else:
            out[idxs[0]] = l
            for i in idxs[1:]:
                out[i] = 0.0
    if pat == "missing1" and groups:
        # the edge(s) inducing the numerically smallest split lose their length
        s = min(groups)
        for i in groups[s]:
            out[i] = None
    if pat == "missing_int" and groups:
        # an INTERNAL edge loses its length (its split is typically absent from the other tree of a pair):
        # the split with the most taxa on its smaller side; falls back to the smallest split on stars
        def weight(sp):
            k = bin(sp).count("1")
            return min(k, bin(fill).count("1") - k)
        cands = [sp for sp in groups if weight(sp) >= 2]
        s = max(cands, key=lambda sp: (weight(sp), sp)) if cands else min(groups)
        for i in groups[s]:
            out[i] = None
    if pat == "rootlen":
        out[0] = 2.5
    return out


def mkspec(shape, leaves, rooted, pat, nsd):
    return {"shape": lst(shape), "leaves": list(leaves), "rooted": rooted,
            "lens": lens_by_split(shape, leaves, rooted, pat), "ns": nsd, "pat": pat}


# ----------------------------------------------------------------------------- oracle
def oracle(t1, t2, rooted):
    l1, m1 = SP.split_lengths(t1, BIT_OF, rooted)
    l2, m2 = SP.split_lengths(t2, BIT_OF, rooted)
    s1, s2 = set(l1), set(l2)
    diffs = [(l1.get(s, 0), l2.get(s, 0)) for s in sorted(s1 | s2)]
    return {
        "sd": len(s1 ^ s2),
        "fpfn": (len(s2 - s1), len(s1 - s2)),
        "missing": sorted(s1 - s2),
        "wrf": math.fsum(abs(a - b) for a, b in diffs),
        "euc": math.sqrt(math.fsum((a - b) ** 2 for a, b in diffs)),
        "any_missing": any(m1.values()) or any(m2.values()),
    }


def _close(a, b):
    return abs(a - b) <= 1e-9 * (1.0 + abs(b))


FUNCS = {
    "sd": lambda a, b, **kw: tc.symmetric_difference(a, b, **kw),
    "urf": lambda a, b, **kw: tc.unweighted_robinson_foulds_distance(a, b, **kw),
    "alias_sd": lambda a, b, **kw: a.symmetric_difference(b),
    "fpfn": lambda a, b, **kw: tuple(tc.false_positives_and_negatives(a, b, **kw)),
    "missing": lambda a, b, **kw: sorted(set(x.split_bitmask for x in tc.find_missing_bipartitions(a, b, **kw))),
    "wrf": lambda a, b, **kw: tc.weighted_robinson_foulds_distance(a, b, **kw),
    "euc": lambda a, b, **kw: tc.euclidean_distance(a, b, **kw),
}
ORACLE_KEY = {"sd": "sd", "urf": "sd", "alias_sd": "sd", "fpfn": "fpfn", "missing": "missing", "wrf": "wrf", "euc": "euc"}
WEIGHTED = ("wrf", "euc")


def call(fname, ta, tb, **kw):
    """-> ("ok", value) | ("refused", msg) | ("exc", text)"""
    try:
        with limit(20):
            return ("ok", FUNCS[fname](ta, tb, **kw))
    except Timeout:
        return ("exc", ".hangs: no result after 20 s")
    except ValueError as e:
        if "Edge length attribute is 'None'" in str(e):
            return ("refused", str(e)[:80])
        return ("exc", _exc(e))
    except Exception as e:
        return ("exc", _exc(e))


def fresh(a, b, swap=False):
    ns = make_namespace(a["ns"])
    ta, tb = build(a, ns), build(b, ns)
    return (tb, ta) if swap else (ta, tb)


def _agree(fname, got, want):
    if fname in WEIGHTED:
        return isinstance(got, (int, float)) and _close(got, want)
    if fname == "fpfn":
        return tuple(got) == tuple(want)
    return got == want


def eval_pair(item):
    """all clauses for one ordered pair of specs; returns (fails, n_calls)"""
    a, b = item["a"], item["b"]
    rooted = bool(a["rooted"])
    ta, tb = fresh(a, b)
    o_ab = oracle(ta, tb, rooted)
    o_ba = oracle(tb, ta, rooted)
    fails = []
    n = 0
    # unweighted functions: always defined
    for fname in ("sd", "urf", "alias_sd", "fpfn", "missing"):
        for swap, o in ((False, o_ab), (True, o_ba)):
            if swap and fname in ("urf", "alias_sd"):
                continue
            x, y = fresh(a, b, swap)
            n += 1
            st, got = call(fname, x, y)
            want = o[ORACLE_KEY[fname]]
            if st != "ok":
                fails.append((fname + ".raises", "%s%s: %s" % (fname, "(b,a)" if swap else "(a,b)", got)))
            elif not _agree(fname, got, want):
                fails.append((fname + ".value", "%s%s = %r, split-set definition gives %r" % (fname, "(b,a)" if swap else "(a,b)", got, want)))
    # is_bipartitions_updated=True on current encodings
    for fname in ("sd", "fpfn", "wrf"):
        if fname in WEIGHTED and o_ab["any_missing"]:
            continue
        x, y = fresh(a, b)
        x.encode_bipartitions()
        y.encode_bipartitions()
        n += 1
        st, got = call(fname, x, y, is_bipartitions_updated=True)
        want = o_ab[ORACLE_KEY[fname]]
        if st != "ok":
            fails.append((fname + ".updated.raises", "%s(a,b,is_bipartitions_updated=True) after encoding both: %s" % (fname, got)))
        elif not _agree(fname, got, want):
            fails.append((fname + ".updated.value", "%s(a,b,is_bipartitions_updated=True) after encoding both = %r, definition gives %r" % (fname, got, want)))
    # weighted functions, both orders
    for fname in WEIGHTED:
        x, y = fresh(a, b)
        r_ab = call(fname, x, y)
        x, y = fresh(a, b, True)
        r_ba = call(fname, x, y)
        n += 2
        for tag, r in (("(a,b)", r_ab), ("(b,a)", r_ba)):
            if r[0] == "exc":
                fails.append((fname + ".raises", "%s%s: %s" % (fname, tag, r[1])))
        if r_ab[0] == "exc" or r_ba[0] == "exc":
            continue
        if not o_ab["any_missing"]:
            for tag, r, o in (("(a,b)", r_ab, o_ab), ("(b,a)", r_ba, o_ba)):
                if r[0] == "refused":
                    fails.append((fname + ".refused-without-missing-length", "%s%s refused (%s) although every edge of the tree has a length on some edge of its drawing" % (fname, tag, r[1])))
                elif not _agree(fname, r[1], o[fname]):
                    fails.append((fname + ".value", "%s%s = %r, norm of the per-split length differences is %r" % (fname, tag, r[1], o[fname])))
        else:
            if (r_ab[0] == "refused") != (r_ba[0] == "refused"):
                fails.append((fname + ".definedness-symmetric",
                              "%s(a,b) %s but %s(b,a) %s" % (fname, "is refused" if r_ab[0] == "refused" else "= %r" % (r_ab[1],),
                                                             fname, "is refused" if r_ba[0] == "refused" else "= %r" % (r_ba[1],))))
            elif r_ab[0] == "ok" and not _close(r_ab[1], r_ba[1]):
                fails.append((fname + ".value-symmetric", "%s(a,b) = %r, %s(b,a) = %r" % (fname, r_ab[1], fname, r_ba[1])))
    return fails, n


def pair_key(a, b):
    return "%s | %s" % (spec_key(a), spec_newick(b))


def _w_pair(item):
    return retry_hangs(_w_pair0, item)


def _w_pair0(item):
    fails, n = eval_pair(item)
    if len(item["a"]["leaves"]) == 2 and not item["a"]["rooted"]:
        # a two-leaf unrooted tree is a single edge drawn as two: triaged under its own name
        fails = [(m + "@2-leaf-unrooted" if (".value" in m or ".refused-without-missing-length" in m or m.endswith(".updated.raises")) else m, d)
                 for m, d in fails]
    return (pair_key(item["a"], item["b"]), len(item["a"]["leaves"]), fails, n)


# ----------------------------------------------------------------------------- tree sets
def _canon_of(shape, leaves, rooted):
    sp = {"shape": lst(shape), "leaves": list(leaves), "rooted": rooted, "lens": None, "ns": default_ns(len(leaves))}
    return repr(SP.canon(build(sp), rooted))


_DRAW_CACHE = {}


def drawings(n, rooted, per_topology=3, unif=False):
    """-> dict canon -> list of (shape, leaves) drawings, distinct shapes first"""
    k = (n, rooted, per_topology, unif)
    if k in _DRAW_CACHE:
        return _DRAW_CACHE[k]
    by = {}
    for shape in shapes_exact(n):
        vs = unifurcation_variants(shape) if unif else [shape]
        for v in vs:
            for perm in itertools.permutations(LABELS[:n]):
                by.setdefault(_canon_of(v, perm, rooted), {}).setdefault(v, []).append(perm)
    out = {}
    for c, byshape in sorted(by.items()):
        lst_ = []
        shapes = sorted(byshape, key=repr)
        i = 0
        while len(lst_) < per_topology and i < max(len(v) for v in byshape.values()):
            for sh in shapes:
                perms = byshape[sh]
                if i < len(perms) and len(lst_) < per_topology:
                    lst_.append((sh, perms[-1 - i] if i % 2 else perms[i]))
            i += 1
        out[c] = lst_
    _DRAW_CACHE[k] = out
    return out


# (both argument orders are evaluated for every item, so mirrored pattern pairs would add little)
PATTERN_PAIRS = [("none", "none"), ("ones", "ones"), ("f1", "f1"), ("f1", "f2"), ("rootlen", "f1"),
                 ("none", "f1"), ("missing1", "f1"), ("missing1", "missing1"), ("f2", "missing1"),
                 ("missing_int", "f1"), ("f2", "missing_int"), ("half0", "f1"), ("half1", "half0"), ("huge1", "huge2")]


def _pair_items(tier, seed):
    rng = random.Random(seed * 31 + 4)
    items = []
    nfull = 4
    for n in range(1, nfull + 1):
        nsd = default_ns(n)
        for rooted in (True, False):
            dr = drawings(n, rooted, 3)
            reps = [v[0] for v in dr.values()]
            for c, ds in dr.items():
                for (sa, la) in ds:
                    for (sb, lb) in reps:
                        for pa, pb in PATTERN_PAIRS:
                            if pa == "rootlen" and not rooted:
                                continue
                            items.append({"a": mkspec(sa, la, rooted, pa, nsd), "b": mkspec(sb, lb, rooted, pb, nsd)})
    # 5 (and 6) leaves: representatives only, seeded sample of pairs; namespaces with removed/extra taxa
    for n, count in ((5, 1500 if tier == "quick" else 20000), (6, 0 if tier == "quick" else 6000)):
        if not count:
            continue
        for rooted in (True, False):
            dr = drawings(n, rooted, 2) if n == 5 else None
            if dr is None:
                # 6 leaves: sample drawings directly
                shapes = shapes_exact(6)
                pool = [(rng.choice(shapes), tuple(rng.sample(LABELS[:6], 6))) for _ in range(400)]
            else:
                pool = [d for v in dr.values() for d in v]
            for _ in range(count // 2):
                (sa, la), (sb, lb) = rng.choice(pool), rng.choice(pool)
                pa, pb = rng.choice(PATTERN_PAIRS)
                if pa == "rootlen" and not rooted:
                    pa = "f1"
                items.append({"a": mkspec(sa, la, rooted, pa, default_ns(n)), "b": mkspec(sb, lb, rooted, pb, default_ns(n))})
    # namespaces larger than the leaf set / with removed taxa (n = 3, 4)
    for n in (3, 4):
        for nsd, usable in [namespace_variants(n)[i] for i in (3, 4, 5, 7)]:
            ren = dict(zip(LABELS[:n], usable))
            for rooted in (True, False):
                dr = drawings(n, rooted, 2)
                reps = [v[0] for v in dr.values()]
                for c, ds in dr.items():
                    for (sa, la) in ds:
                        for (sb, lb) in reps:
                            for pa, pb in (("f1", "f2"), ("missing1", "f1"), ("f2", "missing_int"), ("half0", "f1"), ("half1", "half0")):
                                items.append({"a": mkspec(sa, [ren[x] for x in la], rooted, pa, nsd),
                                              "b": mkspec(sb, [ren[x] for x in lb], rooted, pb, nsd)})
    return items


def _unif_items(tier):
    items = []
    for n in range(1, 4 if tier == "quick" else 5):
        nsd = default_ns(n)
        for rooted in (True, False):
            du = drawings(n, rooted, 6 if n <= 3 else 4, unif=True)
            dr = drawings(n, rooted, 1)
            for c, ds in du.items():
                for (sa, la) in ds:
                    for c2, reps in dr.items():
                        sb, lb = reps[0]
                        # (half0 / half1: where a node with one child and that child draw one edge of the tree between them, the whole length sits on one
                        # of the two and the other has none -- the tree's edge HAS a length, so the distances are defined)
                        for pa, pb in (("f1", "f1"), ("f1", "f2"), ("ones", "ones"), ("half0", "f1"), ("half1", "half0"), ("missing1", "f1")):
                            items.append({"a": mkspec(sa, la, rooted, pa, nsd), "b": mkspec(sb, lb, rooted, pb, nsd)})
    return items


# ----------------------------------------------------------------------------- triangle
def _w_dist(item):
    return retry_hangs(_w_dist0, item)


def _w_dist0(item):
    a, b = item
    out = {}
    for fname in ("sd", "wrf", "euc"):
        x, y = fresh(a, b)
        st, got = call(fname, x, y)
        out[fname] = got if st == "ok" else None
        if st != "ok":
            out[fname + "_err"] = got
    return out


def eval_triangle(a, b, c):
    fails = []
    dab, dbc, dac = _w_dist((a, b)), _w_dist((b, c)), _w_dist((a, c))
    for fname in ("sd", "wrf", "euc"):
        if None in (dab[fname], dbc[fname], dac[fname]):
            fails.append((fname + ".raises", "a distance of the triple is undefined: %r" % ([d.get(fname + "_err") for d in (dab, dbc, dac)],)))
        elif dac[fname] > dab[fname] + dbc[fname] + 1e-9:
            fails.append((fname + ".triangle", "d(a,c) = %r > d(a,b) + d(b,c) = %r + %r" % (dac[fname], dab[fname], dbc[fname])))
    return fails


# ----------------------------------------------------------------------------- namespaces
def eval_namespace(item):
    a, b, fname, updated = item["a"], item["b"], item["fn"], item["updated"]
    ta = build(a)
    tb = build(b)          # its own namespace object
    if updated:
        ta.encode_bipartitions()
        tb.encode_bipartitions()
    kw = {"is_bipartitions_updated": True} if updated and fname != "alias_sd" else {}
    try:
        with limit(20):
            got = FUNCS[fname](ta, tb, **kw)
    except dperror.TaxonNamespaceIdentityError:
        return []
    except Exception as e:
        return [(fname + ".namespace-refusal", "trees over different TaxonNamespace objects: raised %s instead of TaxonNamespaceIdentityError" % _exc(e))]
    return [(fname + ".namespace-refusal", "trees over different TaxonNamespace objects: returned %r instead of raising TaxonNamespaceIdentityError" % (got,))]


def _w_ns(item):
    return retry_hangs(_w_ns0, item)


def _w_ns0(item):
    return (pair_key(item["a"], item["b"]) + " other-%s fn=%s updated=%d" % (ns_key(item["b"]["ns"]), item["fn"], item["updated"]),
            eval_namespace(item))


# ----------------------------------------------------------------------------- histories
EDITS = ("move", "setlen", "reroot_node", "reroot_edge", "collapse", "swap_taxa", "flip_rooting", "shuffle_taxa",
         "resolve", "ladderize", "scale", "reseed", "suppress_unif_after_move")


def edit_targets(spec, edit):
    """JSON-able target descriptors for one edit kind on the primed tree of `spec`"""
    t = build(spec)
    t.encode_bipartitions()
    nodes = S.pre(t._seed_node)
    out = []
    if edit in ("move", "suppress_unif_after_move"):
        for i, x in enumerate(nodes):
            if x._child_nodes or x._parent_node is None or len(x._parent_node._child_nodes) < 2:
                continue
            for j, y in enumerate(nodes):
                if y._child_nodes and y is not x._parent_node:
                    out.append([i, j])
    elif edit in ("setlen",):
        out = [[i] for i, x in enumerate(nodes) if x._parent_node is not None]
    elif edit in ("reroot_node", "reseed"):
        out = [[i] for i, x in enumerate(nodes) if x._parent_node is not None and x._child_nodes]
    elif edit in ("reroot_edge",):
        out = [[i] for i, x in enumerate(nodes) if x._parent_node is not None]
    elif edit == "collapse":
        out = [[i] for i, x in enumerate(nodes) if x._parent_node is not None and x._child_nodes]
    elif edit == "swap_taxa":
        lv = [i for i, x in enumerate(nodes) if not x._child_nodes]
        out = [[i, j] for i in lv for j in lv if i < j]
    else:
        out = [[]]
    return out


def apply_edit(t1, t2, edit, target):
    nodes = S.pre(t1._seed_node)
    if edit in ("move", "suppress_unif_after_move"):
        x, y = nodes[target[0]], nodes[target[1]]
        x._parent_node.remove_child(x)
        y.add_child(x)
        if edit == "suppress_unif_after_move":
            t1.suppress_unifurcations()
    elif edit == "setlen":
        nodes[target[0]].edge.length = 7.5
    elif edit == "reroot_node":
        t1.reroot_at_node(nodes[target[0]])
    elif edit == "reseed":
        t1.reseed_at(nodes[target[0]])
    elif edit == "reroot_edge":
        e = nodes[target[0]].edge
        l = e.length
        t1.reroot_at_edge(e, length1=(l / 4 if l is not None else None), length2=(3 * l / 4 if l is not None else None))
    elif edit == "collapse":
        nodes[target[0]].edge.collapse()
    elif edit == "swap_taxa":
        x, y = nodes[target[0]], nodes[target[1]]
        x.taxon, y.taxon = y.taxon, x.taxon
    elif edit == "flip_rooting":
        t1.is_rooted = not t1.is_rooted
        t2.is_rooted = not t2.is_rooted
    elif edit == "shuffle_taxa":
        t1.shuffle_taxa(rng=random.Random(5))
    elif edit == "resolve":
        t1.resolve_polytomies(rng=random.Random(5))
    elif edit == "ladderize":
        t1.ladderize(ascending=False)
    elif edit == "scale":
        t1.scale_edges(2.0)
    else:
        raise ValueError(edit)


def eval_history(item):
    """-> (fails, evaluated?)"""
    a, b, fname, prime, edit, target = item["a"], item["b"], item["fn"], item["prime"], item["edit"], item["target"]
    ta, tb = fresh(a, b)
    if prime == "encode":
        ta.encode_bipartitions()
        tb.encode_bipartitions()
    elif prime == "call":
        st, _ = call(fname, ta, tb)
        if st != "ok":
            return [], False
    elif prime == "maps":
        ta.encode_bipartitions()
        tb.encode_bipartitions()
        ta.bipartition_edge_map
        tb.bipartition_edge_map
    try:
        apply_edit(ta, tb, edit, target)
    except Exception:
        return [], False        # the edit itself failing is C03/C07's business
    if S.arborescence_errors(ta):
        return [], False
    if bool(ta.is_rooted) != bool(tb.is_rooted):
        # re-rooting operations mark tree 1 as rooted; the comparison is between trees of one
        # rooting state, so the user sets tree 2 alike (part of the edit)
        tb.is_rooted = ta.is_rooted
    rooted = bool(ta.is_rooted)
    o = oracle(ta, tb, rooted)
    if o["any_missing"] and fname in WEIGHTED:
        return [], False
    if SP.node_mask(ta._seed_node, BIT_OF) != SP.node_mask(tb._seed_node, BIT_OF):
        return [], False
    st, got = call(fname, ta, tb)
    want = o[ORACLE_KEY[fname]]
    if st != "ok":
        return [(fname + ".after-edit.raises", "after %s%r: %s" % (edit, target, got))], True
    if not _agree(fname, got, want):
        return [(fname + ".after-edit.stale", "primed by %s, then %s%r on tree 1: %s = %r, the current structure gives %r"
                 % (prime, edit, target, fname, got, want))], True
    return [], True


def _history_items(tier, seed):
    rng = random.Random(seed * 31 + 9)
    items = []
    nmax = 4 if tier == "quick" else 5
    for n in range(3, nmax + 1):
        nsd = default_ns(n)
        for rooted in (True, False):
            dr = drawings(n, rooted, 2)
            reps = [v[0] for v in dr.values()]
            firsts = [d for v in dr.values() for d in v]
            if n == 5:
                firsts = rng.sample(firsts, 40)
            for (sa, la) in firsts:
                a = mkspec(sa, la, rooted, "f1", nsd)
                others = reps if len(reps) <= 4 else rng.sample(reps, 4)
                for (sb, lb) in others:
                    b = mkspec(sb, lb, rooted, "f2", nsd)
                    for edit in EDITS:
                        tg = edit_targets(a, edit)
                        if len(tg) > 4:
                            tg = rng.sample(tg, 4) if tier == "quick" else tg
                        for target in tg:
                            for prime in ("encode", "call", "maps"):
                                for fname in ("sd", "fpfn", "missing", "wrf", "euc"):
                                    if tier == "quick" and prime == "maps" and fname in ("sd", "fpfn", "missing"):
                                        continue
                                    items.append({"a": a, "b": b, "fn": fname, "prime": prime, "edit": edit, "target": target})
    return items


def hist_key(item):
    return "%s ; prime=%s ; %s%s ; %s" % (pair_key(item["a"], item["b"]), item["prime"], item["edit"],
                                         ",".join(map(str, item["target"])), item["fn"])


def _w_hist(item):
    return retry_hangs(_w_hist0, item)


def _w_hist0(item):
    fails, ev = eval_history(item)
    return (hist_key(item), len(item["a"]["leaves"]), fails, ev)


# ----------------------------------------------------------------------------- driver
def t2(ctx):
    quick = ctx.tier == "quick"
    rep = Reporter(ctx)

    sc = "pairs@drawings x representatives"
    ctx.scope(sc, rule="n <= 4 leaves: (up to 3 drawings of every topology, different seed positions / child orders first) x (one "
                       "representative of every topology) x {rooted, unrooted} x 9 length-pattern pairs (none, ones, two dyadic "
                       "functions of the split, one missing, seed length); 5%s leaves: seeded sample of pairs; n = 3, 4 again over 3 "
                       "namespaces with extra / removed / reordered taxa.  One evaluation = one real call (fresh trees) compared with "
                       "the split-set oracle; non-trivial = >= 3 leaves" % ("" if quick else ", 6"), exhaustive=False)
    items = _pair_items(ctx.tier, ctx.seed)
    for item, (key, n, fails, ncalls) in zip(items, pmap(_w_pair, items, chunksize=32)):
        for i in range(ncalls):
            ctx.case(sc, (key, i), nontrivial=n >= 3, sample=key)
        for mon, detail in fails:
            rep.fail(mon, {"key": key, "kind": "pair", "item": item}, detail=detail)

    sc = "random@8-10 leaves"
    ctx.scope(sc, rule="%d seeded random pairs of trees (8-10 leaves, polytomies p=0.3) on one leaf set over a 12-taxon namespace, the "
                       "second tree either independent or the first with two leaves exchanged, random rooting and length patterns; same "
                       "clauses as pairs; all non-trivial" % (100 if quick else 1500), exhaustive=False)
    rng = rng_for(ctx, 404)
    items = []
    for _ in range(100 if quick else 1500):
        n = rng.randint(8, 10)
        labels = sorted(rng.sample(LABELS[:12], n))
        nsd = {"total": 12, "removed": [], "order": "asis"}
        la = list(labels)
        rng.shuffle(la)
        sa = random_shape(n, rng, 0.3)
        rooted = rng.random() < 0.5
        if rng.random() < 0.5:
            sb, lb = random_shape(n, rng, 0.3), list(labels)
            rng.shuffle(lb)
        else:
            sb, lb = sa, list(la)
            i, j = rng.sample(range(n), 2)
            lb[i], lb[j] = lb[j], lb[i]
        pa, pb = rng.choice([("f1", "f2"), ("f1", "f1"), ("ones", "f2"), ("missing1", "f1"), ("none", "f1"), ("missing_int", "f2")])
        items.append({"a": mkspec(sa, la, rooted, pa, nsd), "b": mkspec(sb, lb, rooted, pb, nsd)})
    for item, (key, n, fails, ncalls) in zip(items, pmap(_w_pair, items, chunksize=4)):
        for i in range(ncalls):
            ctx.case(sc, (key, i), sample=key)
        for mon, detail in fails:
            rep.fail(mon, {"key": key, "kind": "pair", "item": item}, detail=detail)

    sc = "redraw@unifurcations"
    ctx.scope(sc, rule="n <= %d leaves: drawings with one unifurcation inserted (every position incl. above the seed; up to 4-6 per "
                       "topology) x one representative of every topology x {rooted, unrooted} x 3 length-pattern pairs; same "
                       "clauses as pairs; non-trivial = >= 3 leaves" % (3 if quick else 4), exhaustive=False)
    items = _unif_items(ctx.tier)
    for item, (key, n, fails, ncalls) in zip(items, pmap(_w_pair, items, chunksize=32)):
        for i in range(ncalls):
            ctx.case(sc, (key, i), nontrivial=n >= 3, sample=key)
        for mon, detail in fails:
            rep.fail(mon + "@unifurcation", {"key": key, "kind": "pair", "item": item}, detail=detail)

    sc = "triangle@triples"
    ctx.scope(sc, rule="n <= 4 leaves, {rooted, unrooted}: one representative of every topology x 2 length functions; the matrix of "
                       "sd / wrf / euc is computed by real calls, every ordered triple is checked; one evaluation per triple; "
                       "non-trivial = >= 3 leaves", exhaustive=True)
    for n in range(1, 5):
        for rooted in (True, False):
            reps = [v[0] for v in drawings(n, rooted, 1).values()]
            trees = [mkspec(s, l, rooted, p, default_ns(n)) for (s, l) in reps for p in ("f1", "f2")]
            pairs = [(a, b) for a in trees for b in trees]
            res = pmap(_w_dist, pairs, chunksize=64)
            D = {}
            k = 0
            for i in range(len(trees)):
                for j in range(len(trees)):
                    D[i, j] = res[k]
                    k += 1
            for i in range(len(trees)):
                for j in range(len(trees)):
                    for fname in ("sd", "wrf", "euc"):
                        if D[i, j][fname] is None:
                            continue
                        if D[i, j][fname] != D[j, i][fname] and D[j, i][fname] is not None:
                            rep.fail(fname + ".symmetric", {"key": pair_key(trees[i], trees[j]), "kind": "triple",
                                                            "a": trees[i], "b": trees[j], "c": trees[i]},
                                     detail="d(a,b) = %r, d(b,a) = %r" % (D[i, j][fname], D[j, i][fname]))
                    for l in range(len(trees)):
                        ctx.case(sc, (n, rooted, i, j, l), nontrivial=n >= 3,
                                 sample=pair_key(trees[i], trees[j]) + " | " + spec_newick(trees[l]))
                        for fname in ("sd", "wrf", "euc"):
                            x, y, z = D[i, j][fname], D[j, l][fname], D[i, l][fname]
                            if None in (x, y, z):
                                continue
                            if z > x + y + 1e-9:
                                rep.fail(fname + ".triangle",
                                         {"key": pair_key(trees[i], trees[j]) + " | " + spec_newick(trees[l]), "kind": "triple",
                                          "a": trees[i], "b": trees[j], "c": trees[l]},
                                         detail="d(a,c) = %r > d(a,b) + d(b,c) = %r + %r" % (z, x, y))

    sc = "namespaces@refusal"
    ctx.scope(sc, rule="3-leaf representatives x {rooted, unrooted} x every public function (and the Tree.symmetric_difference alias) "
                       "x is_bipartitions_updated in {default, True after encoding}; the two trees are built over two distinct "
                       "TaxonNamespace objects (equal labels, or one with an extra taxon); all non-trivial", exhaustive=True)
    items = []
    for rooted in (True, False):
        reps = [v[0] for v in drawings(3, rooted, 1).values()]
        for (sa, la) in reps:
            for (sb, lb) in reps:
                for nsb in (default_ns(3), {"total": 4, "removed": [], "order": "asis"}):
                    for fname in sorted(FUNCS):
                        for upd in (False, True):
                            items.append({"a": mkspec(sa, la, rooted, "f1", default_ns(3)), "b": mkspec(sb, lb, rooted, "f1", nsb),
                                          "fn": fname, "updated": upd})
    for item, (key, fails) in zip(items, pmap(_w_ns, items, chunksize=16)):
        ctx.case(sc, key)
        for mon, detail in fails:
            rep.fail(mon, {"key": key, "kind": "ns", "item": item}, detail=detail)

    sc = "histories@prime;edit;distance"
    ctx.scope(sc, rule="n = 3..%d leaves, {rooted, unrooted}: (2 drawings per topology) x (<= 4 representatives) x primer in {explicit "
                       "encoding, a first call, encoding + edge maps} x one edit of tree 1 from {%s} at %s target x function in "
                       "{sd, fpfn, missing, wrf, euc} called with default arguments; oracle on the raw structure after the edit; "
                       "histories whose edit raises or changes the leaf set are skipped and not counted; non-trivial = >= 4 leaves"
                       % (4 if quick else 5, ", ".join(EDITS), "<= 4 seeded targets" if quick else "every"), exhaustive=False)
    items = _history_items(ctx.tier, ctx.seed)
    skipped = 0
    for item, (key, n, fails, ev) in zip(items, pmap(_w_hist, items, chunksize=64)):
        if not ev:
            skipped += 1
            continue
        ctx.case(sc, key, nontrivial=n >= 4)
        for mon, detail in fails:
            rep.fail(mon, {"key": key, "kind": "hist", "item": item}, detail=detail)
    ctx.note("histories skipped (edit raised / undefined lengths after the edit): %d of %d" % (skipped, len(items)))
    rep.close()


def replay(ctx, rec):
    w = rec["witness"]
    kind = w["kind"]
    name = rec["obligation"].split("@")[0]
    if "@2-leaf-unrooted" in rec["obligation"] or "@unifurcation" in rec["obligation"]:
        pass
    if kind == "pair":
        fails, _ = eval_pair(w["item"])
    elif kind == "triple":
        fails = eval_triangle(w["a"], w["b"], w["c"])
        if name.endswith(".symmetric"):
            d1, d2 = _w_dist((w["a"], w["b"])), _w_dist((w["b"], w["a"]))
            f = name.split(".")[0]
            fails = [] if d1[f] == d2[f] else [(name, "d(a,b) = %r, d(b,a) = %r" % (d1[f], d2[f]))]
    elif kind == "ns":
        fails = eval_namespace(w["item"])
    elif kind == "hist":
        fails, _ = eval_history(w["item"])
    else:
        raise ValueError("unknown witness kind %r" % kind)
    mine = [f for f in fails if f[0] == name]
    for f in (mine or fails):
        print("  ", f)
    return not mine
