"""C07 (T2): re-rooting and re-orienting never change the underlying unrooted tree.

Operations driven (real functions, fresh tree per evaluation): Tree.reseed_at, reroot_at_node,
reroot_at_edge, reroot_at_midpoint, to_outgroup_position, randomly_reorient, randomly_rotate,
ladderize, reorder -- every target node/edge, every value of update_bipartitions,
suppress_unifurcations and collapse_unrooted_basal_bifurcation the operation accepts.

Monitors (<operation>.<clause>, oracles in specs/reroot.py + specs/trees.py + specs/bipart.py):
  .raises          the call raised (nothing in the statement allows an error for these inputs)
  .wellformed      result is a single arborescence (needed to measure anything else)
  .leafset         multiset of leaf labels unchanged
  .splits          set of unrooted splits unchanged
  .total_length    sum of edge lengths unchanged (None counts 0)
  .path_lengths    every leaf-to-leaf path sum unchanged
      for reroot_at_edge with length1+length2 different from the old length of the edge the expected
      values are the old ones corrected by exactly that difference on the paths crossing the edge
  .rooting_flag    soft operations (reseed_at, to_outgroup_position, randomly_reorient, randomly_rotate,
                   ladderize, reorder) leave Tree.is_rooted as it was; hard ones (reroot_at_node,
                   reroot_at_edge, reroot_at_midpoint) set it to True
  reroot_at_midpoint.equidistant   some most distant pair of leaves is at D/2 from the root each (tol 1e-9)
  reroot_at_edge.distances         every leaf below the old head is at length2 + its old distance to the
                                   head, every other leaf at length1 + its old distance to the old tail
  to_outgroup_position.first_child the outgroup node is the first child of the seed node
  reseed_at.seed / reroot_at_node.seed   the requested node is the seed node afterwards
  .bipartitions_fresh   update_bipartitions=True leaves a current encoding (C03 clause, cheap to check here)

Input classes that carry a defect of the unchanged tree get the same strict check under a suffixed
monitor name, so that a pinned known finding cannot hide anything else:
  reroot_at_midpoint@on_node.*   the midpoint of the longest path coincides with an existing node
                                 (DESIGN.md section 8: break_on_node branch re-seeds one node too low)
  to_outgroup_position@not_rooted.raises   (DESIGN.md section 8: the re-seed collapses the basal bifurcation and with
                                 it the outgroup -> ValueError), rooted trees keep the plain name
  randomly_reorient@single_node.*   one-node tree: AssertionError in to_outgroup_position
  *.rooting_flag@undefined_rooting  is_rooted None before a soft operation (the basal collapse sets it to False)
  *@mixed_missing_lengths        tree not rooted, collapse of the basal bifurcation possible, some but not
                                 all edge lengths missing (collapse_basal_bifurcation drops the removed edge's
                                 length when the kept edge has none)

Left out on purpose:
  * reseed_at / reroot_at_node at a LEAF: the docstrings require an internal node (the leaf becomes the seed
    node and stops being a leaf).  Leaves are reached through to_outgroup_position / randomly_reorient.
  * reroot_at_midpoint on trees with a missing (None) edge length (TypeError in the comparison; a midpoint is
    not defined there) and on a single-leaf tree.
  * sources whose SEED node has one child (the seed is then a degree-1 vertex, i.e. an unlabelled leaf of the
    unrooted tree, and re-rooting elsewhere turns it into a taxon-less leaf): C03 drives those for well-formedness.
    Unifurcations elsewhere are driven.  to_outgroup_position(suppress_unifurcations=True) with an outgroup node
    that itself has exactly one child is skipped (the request asks to delete the outgroup).
  * reroot_at_edge on the seed edge (docstring: an internal edge).
  * the rooted clades / child order after ladderize, reorder, rotate (statement only speaks of the unrooted tree).
"""
import random

from bounded.common import *  # noqa: F401,F403
from bounded.common import build_tree, shapes_upto, length_patterns, pmap, rng_for, n_leaves, LABELS, with_unifurcations, time_limit, Timeout
from specs import trees as S
from bounded.guard import cpu_limit, CpuTimeout
from specs import reroot as RR
from specs import bipart as BP

from bounded.C08 import make_ns, _tup, shape_str, random_shape  # construction helpers only (no oracle code)

TOL = 1e-9
HANG_SECONDS = 3
HANG_LIMIT = 3      # per worker process and operation: afterwards the operation is reported without being run
_HANGS = {}
MAX_REPORT_PER_MONITOR = 12

PATS = length_patterns()
PATS["zeros"] = lambda i, leaf: 0.0
PATS["leafzero"] = lambda i, leaf: (0.0 if leaf else 1.0)
PATS["twos"] = lambda i, leaf: (2.0 if i % 2 else 1.0)
PATS["thirds"] = lambda i, leaf: [1.0 / 3, 0.1, 0.7, 2.0 / 3, 0.3][i % 5]
PATS["leafmissing"] = lambda i, leaf: (None if leaf else [0.5, 2.0, 1.25][i % 3])
PATS["sym"] = lambda i, leaf: (2.0 / 3 if leaf else 0.7)  # symmetric, non-dyadic: the midpoint is on a node only up to rounding
PATS["ultra"] = None  # replaced in mk(): ultrametric, unit height per level
ALL_PATS = ["none", "ones", "ints", "dyadic", "onemissing", "zeros", "leafzero", "twos", "thirds", "sym", "leafmissing", "ultra"]

SOFT = ("reseed_at", "to_outgroup_position", "randomly_reorient", "randomly_rotate", "ladderize", "reorder")
HARD = ("reroot_at_node", "reroot_at_edge", "reroot_at_midpoint")


# ----------------------------------------------------------------------------- construction
def mk(spec):
    shape = _tup(spec["shape"])
    ns, taxa, bitof = make_ns(n_leaves(shape), spec.get("ns", "exact"))
    pat = spec["pat"]
    t = build_tree(shape, ns=ns, leaf_taxa=taxa, lengths=(None if pat == "ultra" else PATS[pat]), rooted=spec.get("rooted"))
    if pat == "ultra":
        def height(n):
            return 0 if not n._child_nodes else 1 + max(height(c) for c in n._child_nodes)
        for n in S.pre(t._seed_node):
            if n._parent_node is not None:
                n._edge.length = float(height(n._parent_node) - height(n))
    if spec.get("rootlen") is not None:
        t._seed_node._edge.length = spec["rootlen"]
    return t, bitof


def spec_key(spec):
    k = "%s|%s|r=%s" % (shape_str(_tup(spec["shape"])), spec["pat"], {None: "N", True: "R", False: "U"}[spec.get("rooted")])
    if spec.get("ns", "exact") != "exact":
        k += "|ns=" + spec["ns"]
    if spec.get("rootlen") is not None:
        k += "|rootlen=%s" % spec["rootlen"]
    return k


def op_key(o):
    parts = [o["op"]]
    for k in ("t", "l", "seed", "asc", "upd", "sup", "col"):
        if k in o:
            v = o[k]
            parts.append("%s=%s" % (k, int(v) if isinstance(v, bool) else v))
    return ",".join(parts)


# ----------------------------------------------------------------------------- enumeration of operations
B2 = (False, True)


def enumerate_ops(tree, quick_targets=None, seeds=(1, 2, 3)):
    order = S.pre(tree._seed_node)
    internal = [i for i, n in enumerate(order) if n._child_nodes]
    nonroot = [i for i in range(1, len(order))]
    if quick_targets is not None:
        internal = [i for i in internal if i in quick_targets or i == 0]
        nonroot = [i for i in nonroot if i in quick_targets]
    ops = []
    for i in internal:
        for upd in B2:
            for sup in B2:
                for col in B2:
                    ops.append(dict(op="reseed_at", t=i, upd=upd, sup=sup, col=col))
                    ops.append(dict(op="reroot_at_node", t=i, upd=upd, sup=sup, col=col))
    for i in nonroot:
        for lc in ("none", "half", "tail0", "head0", "free"):
            for upd in B2:
                for sup in B2:
                    ops.append(dict(op="reroot_at_edge", t=i, l=lc, upd=upd, sup=sup))
        for upd in B2:
            for sup in B2:
                if sup and len(order[i]._child_nodes) == 1:
                    continue  # the outgroup itself is a unifurcation the caller asks to suppress: contradictory request
                ops.append(dict(op="to_outgroup_position", t=i, upd=upd, sup=sup))
    leaves_n = sum(1 for n in order if not n._child_nodes)
    all_len = all(n._edge.length is not None for n in order if n._parent_node is not None)
    if leaves_n >= 2 and all_len:
        for upd in B2:
            for sup in B2:
                for col in B2:
                    ops.append(dict(op="reroot_at_midpoint", upd=upd, sup=sup, col=col))
    for sd in seeds:
        for upd in B2:
            ops.append(dict(op="randomly_reorient", seed=sd, upd=upd))
        ops.append(dict(op="randomly_rotate", seed=sd))
    for asc in B2:
        ops.append(dict(op="ladderize", asc=asc))
        ops.append(dict(op="reorder", asc=asc))
    return ops


def edge_lengths_for(code, old):
    if code == "none":
        return None, None
    if code == "free":
        return 0.25, 0.5
    o = old or 0
    if code == "half":
        return o / 2.0, o / 2.0
    if code == "tail0":
        return 0.0, o
    if code == "head0":
        return o, 0.0
    raise ValueError(code)


# ----------------------------------------------------------------------------- one evaluation
def close(a, b):
    return abs(a - b) <= TOL


def eval_op(spec, o, before=None):
    """-> list of (monitor, detail).  `before` = measurements of the pristine source (cached by caller)."""
    fails = []
    t, bitof = mk(spec)
    order = S.pre(t._seed_node)
    if before is None:
        before = RR.measure(t)
        before["flag"] = t._is_rooted
        before["on_node"] = RR.center_on_node(t) if all(n._edge.length is not None for n in order if n._parent_node is not None) else None
        before["mixed"] = _mixed(order)
    op = o["op"]
    prefix = op
    if op == "reroot_at_midpoint" and before["on_node"]:
        prefix = "reroot_at_midpoint@on_node"
    if op == "randomly_reorient" and len(order) == 1:
        prefix = "randomly_reorient@single_node"
    if op == "to_outgroup_position" and not spec.get("rooted"):
        raises_prefix = "to_outgroup_position@not_rooted"
    else:
        raises_prefix = prefix
    suffix = ""
    if before["mixed"] and not spec.get("rooted") and (o.get("col", True) or o.get("upd")):
        suffix = "@mixed_missing_lengths"
    name = lambda c: "%s.%s%s" % (prefix, c, suffix if c in ("total_length", "path_lengths", "distances", "equidistant") else "")

    if o.get("upd"):
        t.encode_bipartitions(suppress_unifurcations=False, collapse_unrooted_basal_bifurcation=False)
    target = order[o["t"]] if "t" in o else None
    exp_total = before["total"]
    exp_paths = before["paths"]
    edge_info = None
    if _HANGS.get(op, 0) >= HANG_LIMIT:
        return [(prefix + ".terminates", "not run: this operation already hung %d times in this worker" % HANG_LIMIT)]
    try:
        with cpu_limit(HANG_SECONDS):
            if op == "reseed_at":
                t.reseed_at(target, update_bipartitions=o["upd"], suppress_unifurcations=o["sup"], collapse_unrooted_basal_bifurcation=o["col"])
            elif op == "reroot_at_node":
                t.reroot_at_node(target, update_bipartitions=o["upd"], suppress_unifurcations=o["sup"], collapse_unrooted_basal_bifurcation=o["col"])
            elif op == "reroot_at_edge":
                e = target._edge
                old = e.length
                l1, l2 = edge_lengths_for(o["l"], old)
                below = frozenset(l.taxon.label for l in S.leaves(target))
                d_head = _dist_from(t, target)
                d_tail = _dist_from(t, target._parent_node)
                delta = (l1 or 0) + (l2 or 0) - (old or 0)
                exp_total = before["total"] + delta
                exp_paths = {k: (v + delta if len(k & below) == 1 else v) for k, v in before["paths"].items()}
                edge_info = (l1, l2, below, d_head, d_tail)
                t.reroot_at_edge(e, length1=l1, length2=l2, update_bipartitions=o["upd"], suppress_unifurcations=o["sup"])
            elif op == "reroot_at_midpoint":
                t.reroot_at_midpoint(update_bipartitions=o["upd"], suppress_unifurcations=o["sup"], collapse_unrooted_basal_bifurcation=o["col"])
            elif op == "to_outgroup_position":
                t.to_outgroup_position(target, update_bipartitions=o["upd"], suppress_unifurcations=o["sup"])
            elif op == "randomly_reorient":
                t.randomly_reorient(rng=random.Random(o["seed"]), update_bipartitions=o["upd"])
            elif op == "randomly_rotate":
                t.randomly_rotate(rng=random.Random(o["seed"]))
            elif op == "ladderize":
                t.ladderize(ascending=o["asc"])
            elif op == "reorder":
                t.reorder(ascending=o["asc"])
            else:
                raise ValueError(op)
    except CpuTimeout:
        _HANGS[op] = _HANGS.get(op, 0) + 1
        return [(prefix + ".terminates", "no result after %s s of CPU time" % HANG_SECONDS)]
    except Exception as ex:
        return [(raises_prefix + ".raises", "%s: %s" % (type(ex).__name__, ex))]

    errs = S.arborescence_errors(t)
    if errs:
        return [(prefix + ".wellformed", "result is not an arborescence: %s" % "; ".join(errs[:3]))]
    after = RR.measure(t)
    if after["leaves"] != before["leaves"]:
        fails.append((name("leafset"), "leaves %r, before %r" % (after["leaves"], before["leaves"])))
        return fails
    if after["splits"] != before["splits"]:
        a = sorted("|".join(sorted("".join(sorted(map(str, x))) for x in s)) for s in after["splits"] - before["splits"])
        b = sorted("|".join(sorted("".join(sorted(map(str, x))) for x in s)) for s in before["splits"] - after["splits"])
        fails.append((name("splits"), "unrooted splits gained %s lost %s: %s" % (a[:3], b[:3], S.tree_newick(t))))
    if not close(after["total"], exp_total):
        fails.append((name("total_length"), "total length %r, required %r: %s" % (after["total"], exp_total, S.tree_newick(t))))
    bad = sorted("%s: %r (required %r)" % ("-".join(sorted(k)), after["paths"].get(k), v) for k, v in exp_paths.items()
                 if k not in after["paths"] or not close(after["paths"][k], v))
    if bad:
        fails.append((name("path_lengths"), "leaf-to-leaf path lengths changed: %s: %s" % ("; ".join(bad[:3]), S.tree_newick(t))))
    # rooting flag
    if op in SOFT:
        if t._is_rooted is not before["flag"]:
            fails.append((name("rooting_flag") + ("@undefined_rooting" if before["flag"] is None else ""), "soft operation changed is_rooted from %r to %r" % (before["flag"], t._is_rooted)))
    else:
        if t._is_rooted is not True:
            fails.append((name("rooting_flag"), "hard operation left is_rooted = %r" % (t._is_rooted,)))
    # operation-specific
    if op in ("reseed_at", "reroot_at_node"):
        if t._seed_node is not target:
            fails.append((name("seed"), "the seed node is not the requested node: %s" % S.tree_newick(t)))
    if op == "to_outgroup_position":
        ch = t._seed_node._child_nodes
        if not ch or ch[0] is not target:
            fails.append((name("first_child"), "the outgroup is not the first child of the seed node: %s" % S.tree_newick(t)))
    if op == "reroot_at_edge":
        l1, l2, below, d_head, d_tail = edge_info
        rd = RR.root_distances(t)
        bad = []
        for lab, d in sorted(rd.items()):
            want = (l2 or 0) + d_head[lab] if lab in below else (l1 or 0) + d_tail[lab]
            if not close(d, want):
                bad.append("%s at %r (required %r)" % (lab, d, want))
        if bad:
            fails.append((name("distances"), "root is not at length1=%r / length2=%r along the edge: %s: %s" % (l1, l2, "; ".join(bad[:3]), S.tree_newick(t))))
    if op == "reroot_at_midpoint":
        ok, txt = RR.midpoint_ok(t, before["paths"], TOL)
        if not ok:
            fails.append((name("equidistant"), "%s: %s" % (txt, S.tree_newick(t))))
    if o.get("upd"):
        e = BP.encoding_errors(t, bitof, S.pre(t._seed_node))
        if e:
            fails.append((name("bipartitions_fresh"), "after update_bipartitions=True: %s" % "; ".join(e[:3])))
    return fails


def _mixed(order):
    ls = [n._edge.length is None for n in order if n._parent_node is not None]
    return any(ls) and not all(ls)


def _dist_from(tree, node):
    """leaf label -> undirected distance from `node` (None counts 0)"""
    adj, nodes = RR.adjacency(tree)
    dist = {id(node): 0}
    stack = [node]
    while stack:
        x = stack.pop()
        for y, w in adj[id(x)]:
            if id(y) not in dist:
                dist[id(y)] = dist[id(x)] + w
                stack.append(y)
    return {n.taxon.label: dist[id(n)] for n in nodes if not n._child_nodes and n.taxon is not None}


def eval_source(item):
    spec, extra = item
    extra = extra or {}
    t, _ = mk(spec)
    order = S.pre(t._seed_node)
    before = RR.measure(t)
    before["flag"] = t._is_rooted
    before["on_node"] = RR.center_on_node(t) if all(n._edge.length is not None for n in order if n._parent_node is not None) else None
    before["mixed"] = _mixed(order)
    ops = enumerate_ops(t, quick_targets=extra.get("targets"), seeds=extra.get("seeds", (1, 2, 3)))
    nl = len(before["leaves"])
    out = []
    flags = []
    for o in ops:
        flags.append(nl >= 3)
        for nm, detail in eval_op(spec, o, before):
            out.append((nm, o, detail))
    return dict(n=len(ops), nontrivial=flags, fails=out)


# ----------------------------------------------------------------------------- driver
def _specs(shapes, pats, rootings, nss=("exact",)):
    return [dict(shape=s, pat=p, rooted=r, ns=k) for s in shapes for p in pats for r in rootings for k in nss]


def _hash(s):
    import zlib
    return "%x" % (zlib.crc32(s.encode("utf8")) | (zlib.adler32(s.encode("utf8")) << 32))


def _run_scope(ctx, sc, rule, exhaustive, items, reported):
    import time
    t0 = time.time()
    ctx.scope(sc, rule=rule, exhaustive=exhaustive)
    res = pmap(eval_source, items, chunksize=2)
    t1 = time.time()
    for (spec, extra), r in zip(items, res):
        k0 = spec_key(spec)
        kh = _hash(k0)
        for i, nt in enumerate(r["nontrivial"]):
            ctx.case(sc, key="%s#%d" % (kh, i), nontrivial=nt, sample=(k0 if i < 3 else ""))
        for nm, o, detail in r["fails"]:
            cnt = reported.get(nm, 0)
            reported[nm] = cnt + 1
            if cnt < MAX_REPORT_PER_MONITOR:
                src = S.tree_newick(mk(spec)[0])
                ctx.fail(nm, dict(key="%s|%s" % (k0, op_key(o)), spec=spec, op=o, source=src, scope=sc), detail="%s on %s :: %s" % (op_key(o), src, detail))
    ctx.note("%s: %d sources, workers %.1fs, accounting %.1fs" % (sc, len(items), t1 - t0, time.time() - t1))


def t2(ctx):
    thorough = ctx.tier == "thorough"
    reported = {}
    R3 = (None, True, False)
    N = 6 if thorough else 5
    shapes = list(shapes_upto(N))
    items = [(s, None) for s in _specs(shapes, ALL_PATS, R3)]
    _run_scope(ctx, "reroot@shapes<=%d" % N,
               "every ordered shape with <=%d leaves x 12 length patterns (absent, ones, integers 0..3, dyadic, one missing, all zero, zero leaves, "
               "1/2 alternating, non-dyadic, symmetric non-dyadic, missing leaves, ultrametric) x 3 rooting states x every operation x every target node/edge x every "
               "boolean option (reroot_at_edge: 5 choices of length1/length2; random operations: 3 seeds); non-trivial = >=3 leaves" % N,
               True, items, reported)
    # unifurcations in the source
    shp = []
    for s in shapes_upto(5 if thorough else 4, 2):
        shp.extend(u for u in with_unifurcations(s) if len(u) != 1)
    items = [(s, None) for s in _specs(shp, ["ones", "dyadic", "onemissing", "none"], R3)]
    _run_scope(ctx, "reroot@unifurcated-sources", "shapes with 2..%d leaves with a unifurcation inserted above one non-seed node x "
               "{ones, dyadic, onemissing, none} x 3 rooting states x every operation/target/option" % (5 if thorough else 4), True, items, reported)
    # namespaces (bit positions differ from list positions) and a length on the seed edge
    sp = _specs(list(shapes_upto(5 if thorough else 4, 2)), ["dyadic", "ones"], R3, nss=("extra", "removed", "reversed"))
    for s in _specs(list(shapes_upto(4, 2)), ["dyadic", "ones"], R3):
        s = dict(s)
        s["rootlen"] = 0.125
        sp.append(s)
    _run_scope(ctx, "reroot@namespaces+rootlen", "shapes with 2..%d leaves x {dyadic, ones} x 3 rooting states x namespaces {two extra taxa, two "
               "removed taxa, reversed}, plus sources whose seed edge has a length; every operation/target/option" % (5 if thorough else 4),
               True, [(s, None) for s in sp], reported)
    # random larger trees
    rng = rng_for(ctx, 7)
    items = []
    for i in range(40 if not thorough else 400):
        n = rng.randint(8, 12)
        shape = random_shape(rng, n)
        nn = 2 * n
        items.append((dict(shape=shape, pat=rng.choice(ALL_PATS), rooted=rng.choice(R3), ns=rng.choice(["exact", "removed"])),
                      dict(targets=sorted(rng.sample(range(1, nn), 4)), seeds=(rng.randint(1, 10 ** 6),))))
    _run_scope(ctx, "reroot@random8-12", "seeded random shapes with 8..12 leaves x random pattern/rooting/namespace x 4 random target nodes (and the "
               "seed node) x every operation and option", False, items, reported)
    for nm, cnt in sorted(reported.items()):
        if cnt > MAX_REPORT_PER_MONITOR:
            ctx.note("%s: %d failing evaluations, first %d reported" % (nm, cnt, MAX_REPORT_PER_MONITOR))


def replay(ctx, rec):
    w = rec["witness"]
    spec = w["spec"]
    spec["shape"] = _tup(spec["shape"])
    fails = eval_op(spec, w["op"])
    hits = [f for f in fails if f[0] == rec["obligation"]]
    for nm, d in fails[:4]:
        print("  %s :: %s" % (nm, d))
    return not hits
