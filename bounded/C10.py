"""C10 -- taxon namespaces keep a stable one-to-one taxon/bit map and exact label lookups.

Bounded stand-in (T2).  A *history* is: an initial namespace built by
`TaxonNamespace(labels, is_case_sensitive=cs)` from a label sequence over
{"a","A","b","a"} (duplicates and case variants), followed by a sequence of
operations from the alphabet of `ops_at` (add_taxon of a new / an existing / a previously
removed taxon,
new_taxon, require_taxon, add_taxa, new_taxa, remove_taxon, `del ns[i]`,
remove_taxon_label, discard_taxon_label (every case setting x first_match_only),
sort, reverse, clear, relabel of a member, switching to copy.copy / TaxonNamespace(ns)
/ copy.deepcopy of the namespace, freezing (is_mutable = False)).  EVERY history of
length <= 2 over the full alphabet from every initial namespace and both case settings
(thorough: also every history of length 3 from the initial sequences (a,A) and (a,A,b)) is run, each in two modes: "cold" (nothing is
queried before the end, so no bitmask / lower-case cache is filled early) and "warm"
(taxon_bitmask of every member and a label lookup after every operation, as an
interactive user would).  A seeded sample of longer histories is a second scope.

After every operation the effect on the member list is compared with a list model
(the operation's documented effect; documented errors -- ImmutableTaxonNamespaceError,
LookupError of remove_taxon_label -- are allowed outcomes and leave the members
unchanged).  At the end of every history the full monitor set runs:

  ns.invariant                       representation invariant NS (maps inverse, domain = members, ...)
  taxon_bitmask.single_bit/.stable/.unique      bit of every member: one bit, equal to the bit the member
                                     had when it joined (read raw at that time), not shared
  all_taxa_bitmask.covers_members
  taxa_bitmask.union / bitmask_taxa_list.roundtrip   for every subset of members (<= 5 members; above:
                                     singletons, pairs, co-singletons, all)
  bitmask_as_newick_string.names_mask / split_as_newick_string.names_mask / bitmask_as_bitstring.names_mask
  Bipartition.leafset_as_bitstring.names_mask    (taxa_bipartition of the subset, both directions, other symbols)
                                     the "1" side names (multiset of labels) exactly the subset, the other side
                                     exactly the other members; the flat form "(a,b,c);" is accepted for the
                                     empty and the full subset ("do not do the root"); failures on namespaces whose
                                     list order differs from the accession order go to `....names_mask.reordered`
  findall.exact / get_taxon.first_match / has_taxon_label.exact / get_taxa.exact / has_taxa_labels.exact /
  taxa_bitmask.labels / contains.exact       label lookups = members matching under the effective case rule,
                                     in membership order
  require_taxon.first_or_new         (as an operation) returns the first match or creates exactly one member
  immutable.gains_member             an immutable namespace never gains a member
  copy.bits[how]                     copy.copy / TaxonNamespace(ns) / copy.deepcopy give every copied taxon the
                                     bit of its original (and a copy satisfying NS), original untouched
  <op>.effect / <op>.raises          list-model disagreement / undocumented exception

Left out: `label_taxon_map` (documented as not handling collisions), `taxa_bipartition`
(C01), the `preserve_spaces` / `quote_underscores` escaping options (C02; labels here are
plain alphanumerics so escaping is the identity), order *within* a side of the Newick
rendering, `sort` with a user key, labels that are None.

Failures are de-duplicated: per monitor the 3 shortest witnesses are reported, the
total number of failing evaluations goes to the notes."""
import copy as _copy
import itertools

from bounded.common import *  # noqa
from specs import namespace as NSPEC

import dendropy
from dendropy.datamodel.taxonmodel import TaxonNamespace, Taxon
from dendropy.utility.error import ImmutableTaxonNamespaceError

MAX_REPORT = 3
LABELS = ("a", "A", "b")
PROBE_LABELS = ("a", "A", "b", "B", "zz")
PROBE_LISTS = (("a",), ("a", "b"), ("A", "a"), ("b", "zz", "a"), ())
CS = (None, True, False)

INITS = [(), ("a",), ("a", "A"), ("b", "a"), ("a", "A", "b"), ("a", "a", "b"), ("b", "A", "a"), ("a", "A", "b", "a")]


def cs_str(c):
    return {None: "N", True: "T", False: "F"}[c]


def op_str(op):
    name = op[0]
    args = []
    for a in op[1:]:
        if a is None or a is True or a is False:
            args.append(cs_str(a))
        elif isinstance(a, (list, tuple)):
            args.append("[" + " ".join(str(x) for x in a) + "]")
        else:
            args.append(str(a))
    return "%s(%s)" % (name, ",".join(args))


def hist_key(cs, init, warm, ops):
    return "cs=%s|init=%s|%s|ops=%s" % (cs_str(cs), ",".join(init), "warm" if warm else "cold", ";".join(op_str(o) for o in ops))


def ops_at(n_members):
    """the operation alphabet at a state with n members (positions refer to list order)"""
    out = []
    for lb in LABELS:
        out.append(("add", lb))
        out.append(("new", lb))
        for c in CS:
            out.append(("require", lb, c))
    for c in CS:
        out.append(("require", "B", c))
    pos = sorted(set([0, n_members - 1])) if n_members else []
    for i in pos:
        out.append(("add_member", i))
        out.append(("delitem", i))
        for lb in LABELS:
            out.append(("relabel", i, lb))
    for i in range(n_members):
        out.append(("remove", i))
    for lb in LABELS:
        for c in CS:
            for first in (False, True):
                out.append(("remove_label", lb, c, first))
                out.append(("discard_label", lb, c, first))
    out.append(("readd",))                        # add the most recently removed taxon object again
    out.append(("add_taxa", ["b", "@0", "a"]))   # '@0' = the first current member (already in)
    out.append(("add_taxa", ["b", "=", "a", "="]))   # '=' = the object listed just before it, once more in the same batch
    out.append(("new_taxa", ["a", "A"]))
    out.append(("sort", False))
    out.append(("sort", True))
    out.append(("reverse",))
    out.append(("clear",))
    for how in ("copy", "ctor", "deepcopy"):
        out.append(("switch", how))
    out.append(("freeze",))
    return out


class Violation(Exception):
    def __init__(self, monitor, probe, detail):
        self.monitor, self.probe, self.detail = monitor, probe, detail


def make_copy(ns, how):
    if how == "copy":
        return _copy.copy(ns)
    if how == "ctor":
        return TaxonNamespace(ns)
    if how == "deepcopy":
        return _copy.deepcopy(ns)
    raise KeyError(how)


class Run(object):
    """one history executed against a real namespace and the list model"""

    def __init__(self, cs, init, warm):
        self.cs, self.init, self.warm = cs, tuple(init), warm
        self.ns = TaxonNamespace(list(init), is_case_sensitive=cs)
        self.members = list(self.ns._taxa)          # model: expected members in order
        self.bits = {}                              # id(taxon) -> bit at joining time
        self.keep = list(self.members)              # keep every taxon alive (ids stay unique)
        self.was_member = set(self.members)         # taxa that have been members of the current namespace object
        self.fails = []                             # (monitor, probe, detail)
        self.sync_bits("init")
        if len(self.members) != len(init) or [t._label for t in self.members] != list(init):
            self.fails.append(("TaxonNamespace.effect", "", "constructor from labels %r gives %r" % (list(init), [t._label for t in self.members])))
        if warm:
            self.warm_up()

    # ---- model helpers
    def labels(self):
        return [t._label for t in self.ns._taxa]

    def sync_bits(self, where):
        """record the raw bit of members that joined; forget members that left"""
        ns = self.ns
        cur = set(id(t) for t in self.members)
        for k in list(self.bits):
            if k not in cur:
                del self.bits[k]
        for t in self.members:
            if id(t) not in self.bits:
                try:
                    self.bits[id(t)] = NSPEC.raw_bit(ns, t)
                except KeyError:
                    self.bits[id(t)] = None

    def warm_up(self):
        ns = self.ns
        for t in list(ns._taxa):
            try:
                ns.taxon_bitmask(t)
            except Exception:
                pass
        try:
            ns.findall("a")
        except Exception:
            pass

    def same_members(self):
        got = self.ns._taxa
        return len(got) == len(self.members) and all(x is y for x, y in zip(got, self.members))

    def describe(self, taxa):
        return [(t._label, self.pos_name(t)) for t in taxa]

    def pos_name(self, t):
        for i, k in enumerate(self.keep):
            if k is t:
                return "t%d" % i
        return "new"

    # ---- one operation; returns False when the history cannot be continued
    def step(self, op):
        ns = self.ns
        name = op[0]
        before = list(self.members)
        mutable = bool(ns.is_mutable)
        allowed = ()
        expect = None           # expected member list after the op (None = computed below)
        try:
            if name == "add":
                t = Taxon(op[1])
                self.keep.append(t)
                allowed = () if mutable else (ImmutableTaxonNamespaceError,)
                expect = before + [t] if mutable else before
                ns.add_taxon(t)
            elif name == "add_member":
                expect = before
                ns.add_taxon(before[op[1]])
            elif name == "readd":
                gone = [t for t in self.keep if not any(t is x for x in before) and t in self.was_member]
                if not gone:
                    return True
                t = gone[-1]
                allowed = () if mutable else (ImmutableTaxonNamespaceError,)
                expect = before + [t] if mutable else before
                ns.add_taxon(t)
            elif name == "new":
                allowed = () if mutable else (ImmutableTaxonNamespaceError,)
                r = ns.new_taxon(op[1])
                if isinstance(r, Taxon):
                    self.keep.append(r)
                if not mutable:
                    expect = before      # no documented error raised: it must at least not have gained a member
                else:
                    if not isinstance(r, Taxon) or r._label != op[1] or any(r is x for x in before):
                        raise Violation("new_taxon.effect", "", "returned %r, required a new Taxon labelled %r" % (r, op[1]))
                    expect = before + [r]
            elif name == "require":
                label, c = op[1], op[2]
                m = NSPEC.matches(ns, label, c)
                if m:
                    expect = before
                    r = ns.require_taxon(label, is_case_sensitive=c)
                    if r is not m[0]:
                        raise Violation("require_taxon.first_or_new", "",
                                        "returned %s, required the first match %s" % (self.describe([r]) if isinstance(r, Taxon) else r, self.describe(m[:1])))
                else:
                    allowed = () if mutable else (ImmutableTaxonNamespaceError,)
                    r = ns.require_taxon(label, is_case_sensitive=c)
                    if isinstance(r, Taxon):
                        self.keep.append(r)
                    got = list(ns._taxa)
                    if not mutable:
                        if len(got) > len(before):
                            raise Violation("immutable.gains_member", "", "require_taxon(%r) added a member to an immutable namespace" % (label,))
                        raise Violation("require_taxon.first_or_new", "",
                                        "no member matches %r and the namespace is immutable: neither the documented error nor a new member" % (label,))
                    added = [t for t in got if not any(t is x for x in before)]
                    if not (isinstance(r, Taxon) and len(added) == 1 and added[0] is r and r._label == label
                            and len(got) == len(before) + 1):
                        raise Violation("require_taxon.first_or_new", "",
                                        "no member matches %r: required exactly one new member with that label, got return %r and new members %r"
                                        % (label, getattr(r, "_label", r), [t._label for t in added]))
                    expect = before + [r]
            elif name == "add_taxa":
                items = []
                for x in op[1]:
                    if x.startswith("@"):
                        if before:
                            items.append(before[0])
                    elif x == "=":
                        if items:
                            items.append(items[-1])
                    else:
                        t = Taxon(x)
                        self.keep.append(t)
                        items.append(t)
                fresh = []
                for t in items:   # an object listed twice in the batch becomes a member once
                    if not any(t is x for x in before) and not any(t is x for x in fresh):
                        fresh.append(t)
                allowed = () if (mutable or not fresh) else (ImmutableTaxonNamespaceError,)
                expect = before + fresh if mutable else before
                ns.add_taxa(items)
            elif name == "new_taxa":
                allowed = () if mutable else (ImmutableTaxonNamespaceError,)
                r = ns.new_taxa(list(op[1]))
                r = list(r)
                self.keep.extend(t for t in r if isinstance(t, Taxon))
                if not mutable:
                    expect = before
                else:
                    if [getattr(t, "_label", None) for t in r] != list(op[1]) or any(any(t is x for x in before) for t in r):
                        raise Violation("new_taxa.effect", "", "returned %r for labels %r" % ([getattr(t, "_label", t) for t in r], list(op[1])))
                    expect = before + r
            elif name == "remove":
                t = before[op[1]]
                expect = [x for x in before if x is not t]
                ns.remove_taxon(t)
            elif name == "delitem":
                t = before[op[1]]
                expect = [x for x in before if x is not t]
                del ns[op[1]]
            elif name in ("remove_label", "discard_label"):
                label, c, first = op[1], op[2], op[3]
                m = NSPEC.matches(ns, label, c)
                gone = m[:1] if first else m
                expect = [x for x in before if not any(x is g for g in gone)]
                if name == "remove_label":
                    if not m:
                        allowed = (LookupError,)
                    ns.remove_taxon_label(label, is_case_sensitive=c, first_match_only=first)
                    if not m:
                        raise Violation("remove_taxon_label.effect", "", "no member matches %r but no LookupError was raised" % (label,))
                else:
                    ns.discard_taxon_label(label, is_case_sensitive=c, first_match_only=first)
            elif name == "sort":
                ns.sort(reverse=op[1])
                got = list(ns._taxa)
                if not (len(got) == len(before) and sorted(map(id, got)) == sorted(map(id, before))):
                    raise Violation("sort.effect", "", "members changed: %r -> %r" % (self.describe(before), self.describe(got)))
                labs = [t._label for t in got]
                if labs != sorted(labs, reverse=op[1]):
                    raise Violation("sort.effect", "", "labels after sort(reverse=%r): %r" % (op[1], labs))
                expect = got
            elif name == "reverse":
                expect = before[::-1]
                ns.reverse()
            elif name == "clear":
                expect = []
                ns.clear()
            elif name == "relabel":
                expect = before
                before[op[1]].label = op[2]
                if before[op[1]]._label != op[2]:
                    raise Violation("relabel.effect", "", "label not set")
            elif name == "freeze":
                expect = before
                ns.is_mutable = False
            elif name == "switch":
                return self.switch(op[1])
            else:
                raise KeyError(name)
        except Violation as v:
            self.fails.append((v.monitor, v.probe, v.detail))
            return False
        except allowed:
            # documented error: the namespace must be as before
            if not self.same_members():
                mon = "immutable.gains_member" if len(ns._taxa) > len(before) else "%s.effect" % self.api(name)
                self.fails.append((mon, "", "raised its documented error but members changed: %r -> %r" % (self.describe(before), self.describe(ns._taxa))))
                return False
            return True
        except Exception as e:
            suffix = ".first_match_only" if name in ("remove_label", "discard_label") and op[3] else ""
            self.fails.append(("%s.raises%s" % (self.api(name), suffix), "", "%s: %s" % (type(e).__name__, e)))
            return False
        if not mutable and len(ns._taxa) > len(before):
            self.fails.append(("immutable.gains_member", "", "members %r -> %r" % (self.describe(before), self.describe(ns._taxa))))
            return False
        if expect is not None:
            self.members = list(expect)
            if not self.same_members():
                self.fails.append(("%s.effect" % self.api(name), "", "members %r, required %r" % (self.describe(ns._taxa), self.describe(expect))))
                return False
        else:
            self.members = list(ns._taxa)
        self.was_member.update(self.members)
        self.sync_bits(name)
        if self.warm:
            self.warm_up()
        return True

    @staticmethod
    def api(name):
        return {"add": "add_taxon", "add_member": "add_taxon", "readd": "add_taxon", "new": "new_taxon", "require": "require_taxon",
                "remove": "remove_taxon", "delitem": "__delitem__", "remove_label": "remove_taxon_label",
                "discard_label": "discard_taxon_label", "switch": "copy"}.get(name, name)

    def switch(self, how):
        """continue the history on a copy; the copy must give each copied taxon the bit of its original"""
        old = self.ns
        try:
            new = make_copy(old, how)
        except Exception as e:
            self.fails.append(("copy.raises[%s]" % how, "", "%s: %s" % (type(e).__name__, e)))
            return False
        err = self.copy_errors(old, new, how)
        if err:
            self.fails.append(("copy.bits[%s]" % how, "", err))
            return False
        newbits = {}
        for t_old, t_new in zip(self.members, new._taxa):
            newbits[id(t_new)] = self.bits.get(id(t_old))
        self.keep.extend(new._taxa)
        self.ns = new
        self.members = list(new._taxa)
        self.was_member = set(self.members)
        self.bits = newbits
        if self.warm:
            self.warm_up()
        return True

    def copy_errors(self, old, new, how):
        if new is old:
            return "the copy is the original object"
        if len(new._taxa) != len(self.members):
            return "copy has %d members, original %d" % (len(new._taxa), len(self.members))
        for i, (a, b) in enumerate(zip(self.members, new._taxa)):
            if how == "deepcopy":
                if a is b:
                    return "deepcopy shares taxon %d with the original" % i
                if a._label != b._label:
                    return "deepcopy taxon %d has label %r, original %r" % (i, b._label, a._label)
            elif a is not b:
                return "shallow copy does not hold the original taxon at position %d" % i
            want = self.bits.get(id(a))
            try:
                got = NSPEC.raw_bit(new, b)
            except KeyError:
                got = None
            if got != want:
                return "copied taxon %d (%r) has bit %r, its original %r" % (i, b._label, got, want)
        inv = NSPEC.invariant_errors(new)
        if inv:
            return "copy violates the representation invariant: %s" % "; ".join(inv)
        if not self.same_members():
            return "copying changed the members of the original"
        return None

    # ---- the full monitor set on the current state
    def monitors(self):
        ns = self.ns
        F = self.fails.append
        members = list(self.members)
        n = len(members)

        errs = NSPEC.invariant_errors(ns)
        if errs:
            F(("ns.invariant", "", "; ".join(errs)))

        # -- bits
        bits = []
        ok_bits = True
        for i, t in enumerate(members):
            probe = "member=%d" % i
            try:
                b1 = ns.taxon_bitmask(t)
                b2 = ns.taxon_bitmask(t)
            except Exception as e:
                F(("taxon_bitmask.raises", probe, "%s: %s" % (type(e).__name__, e)))
                ok_bits = False
                bits.append(None)
                continue
            bits.append(b1)
            if not NSPEC.is_single_bit(b1):
                F(("taxon_bitmask.single_bit", probe, "bitmask %r of member %d (%r) is not a single bit" % (b1, i, t._label)))
                ok_bits = False
            if b1 != b2 or b1 != self.bits.get(id(t)):
                F(("taxon_bitmask.stable", probe,
                   "member %d (%r) had bit %r when it joined, taxon_bitmask now gives %r then %r" % (i, t._label, self.bits.get(id(t)), b1, b2)))
                ok_bits = False
        for i in range(n):
            for j in range(i + 1, n):
                if bits[i] is not None and bits[i] == bits[j]:
                    F(("taxon_bitmask.unique", "members=%d,%d" % (i, j),
                       "members %d (%r) and %d (%r) share the bit %r" % (i, members[i]._label, j, members[j]._label, bits[i])))
                    ok_bits = False
        try:
            allm = ns.all_taxa_bitmask()
            union = 0
            for b in bits:
                union |= (b or 0)
            if ok_bits and (allm & union) != union:
                F(("all_taxa_bitmask.covers_members", "", "all_taxa_bitmask() = %s does not cover the members' bits %s" % (bin(allm), bin(union))))
        except Exception as e:
            F(("all_taxa_bitmask.raises", "", "%s: %s" % (type(e).__name__, e)))

        # -- subsets: bitmask <-> taxa, renderings
        if ok_bits:
            for sub in self.subsets(n):
                self.subset_monitors(members, bits, sub)

        # -- membership test
        for i, t in enumerate(self.keep):
            want = any(t is m for m in members)
            try:
                got = t in ns
            except Exception as e:
                F(("contains.raises", "taxon=t%d" % i, "%s: %s" % (type(e).__name__, e)))
                continue
            if bool(got) != want:
                F(("contains.exact", "taxon=t%d" % i, "`taxon in ns` is %r, member: %r" % (got, want)))

        # -- label lookups
        for lb in PROBE_LABELS:
            for c in CS:
                probe = "label=%s,cs=%s" % (lb, cs_str(c))
                m = NSPEC.matches(ns, lb, c)
                self.lookup("findall", probe, lambda: ns.findall(lb, is_case_sensitive=c), m, "list")
                self.lookup("get_taxon", probe, lambda: ns.get_taxon(lb, is_case_sensitive=c), m[0] if m else None, "one")
                self.lookup("has_taxon_label", probe, lambda: ns.has_taxon_label(lb, is_case_sensitive=c), bool(m), "bool")
        for lbs in PROBE_LISTS:
            for c in CS:
                probe = "labels=%s,cs=%s" % ("+".join(lbs), cs_str(c))
                allhave = all(NSPEC.matches(ns, lb, c) for lb in lbs)
                self.lookup("has_taxa_labels", probe, lambda: ns.has_taxa_labels(list(lbs), is_case_sensitive=c), allhave, "bool")
                for first in (False, True):
                    p2 = probe + ",first=%d" % first
                    want = NSPEC.matches_many(ns, lbs, c, first)
                    self.lookup("get_taxa", p2, lambda: ns.get_taxa(list(lbs), is_case_sensitive=c, first_match_only=first), want, "list")
                    if ok_bits:
                        wb = 0
                        for t in want:
                            wb |= self.bits.get(id(t)) or 0
                        self.lookup("taxa_bitmask.labels", p2,
                                    lambda: ns.taxa_bitmask(labels=list(lbs), is_case_sensitive=c, first_match_only=first), wb, "value")
        # lookups must not change anything
        if not self.same_members():
            F(("lookup.effect", "", "members changed by read-only calls: %r" % (self.describe(ns._taxa),)))

        # -- copies of this state
        for how in ("copy", "ctor", "deepcopy"):
            try:
                new = make_copy(ns, how)
            except Exception as e:
                F(("copy.raises[%s]" % how, "", "%s: %s" % (type(e).__name__, e)))
                continue
            err = self.copy_errors(ns, new, how)
            if err:
                F(("copy.bits[%s]" % how, "", err))
            else:
                # the copy answers like the original
                for i, (a, b) in enumerate(zip(members, new._taxa)):
                    try:
                        got = new.taxon_bitmask(b)
                    except Exception as e:
                        F(("copy.raises[%s]" % how, "member=%d" % i, "taxon_bitmask on the copy: %s: %s" % (type(e).__name__, e)))
                        break
                    if got != self.bits.get(id(a)):
                        F(("copy.bits[%s]" % how, "member=%d" % i, "copy.taxon_bitmask gives %r, original bit %r" % (got, self.bits.get(id(a)))))
                        break

    def subsets(self, n):
        idx = list(range(n))
        if n <= 5:
            for k in range(n + 1):
                for c in itertools.combinations(idx, k):
                    yield c
            return
        seen = set()
        cands = [()] + [(i,) for i in idx] + list(itertools.combinations(idx, 2)) + \
                [tuple(j for j in idx if j != i) for i in idx] + [tuple(idx)]
        for c in cands:
            if c not in seen:
                seen.add(c)
                yield c

    def subset_monitors(self, members, bits, sub):
        ns = self.ns
        F = self.fails.append
        taxa = [members[i] for i in sub]
        want_mask = 0
        for i in sub:
            want_mask |= bits[i]
        probe = "subset=%s" % ("".join(str(i) for i in sub) or "-")
        try:
            mask = ns.taxa_bitmask(taxa=taxa)
        except Exception as e:
            F(("taxa_bitmask.raises", probe, "%s: %s" % (type(e).__name__, e)))
            return
        if mask != want_mask:
            F(("taxa_bitmask.union", probe, "taxa_bitmask = %s, union of the members' bits = %s" % (bin(mask), bin(want_mask))))
            return
        try:
            back = ns.bitmask_taxa_list(mask)
        except Exception as e:
            F(("bitmask_taxa_list.raises", probe, "%s: %s" % (type(e).__name__, e)))
            back = None
        if back is not None:
            if not (len(back) == len(taxa) and sorted(map(id, back)) == sorted(map(id, taxa))):
                F(("bitmask_taxa_list.roundtrip", probe, "bitmask_taxa_list(taxa_bitmask(S)) = %r, S = %r" % (self.describe(back), self.describe(taxa))))
        if sub:
            # start index: the taxa at or above the lowest set bit, mask shifted accordingly
            low = min(b.bit_length() - 1 for b in (bits[i] for i in sub))
            try:
                back2 = ns.bitmask_taxa_list(mask >> low, index=low)
                if not (len(back2) == len(taxa) and sorted(map(id, back2)) == sorted(map(id, taxa))):
                    F(("bitmask_taxa_list.roundtrip", probe + ",index=%d" % low,
                       "bitmask_taxa_list(mask >> %d, index=%d) = %r, S = %r" % (low, low, self.describe(back2), self.describe(taxa))))
            except Exception as e:
                F(("bitmask_taxa_list.raises", probe + ",index=%d" % low, "%s: %s" % (type(e).__name__, e)))
        # renderings
        in_labels = sorted(t._label for t in taxa)
        out_labels = sorted(t._label for i, t in enumerate(members) if i not in sub)
        all_labels = sorted(t._label for t in members)
        for api, call in (("bitmask_as_newick_string", lambda: ns.bitmask_as_newick_string(mask)),
                          ("split_as_newick_string", lambda: ns.split_as_newick_string(mask))):
            try:
                s = call()
            except Exception as e:
                F(("%s.raises" % api, probe, "%s: %s" % (type(e).__name__, e)))
                continue
            p = NSPEC.parse_split_newick(s)
            ok = False
            if p is not None:
                if p[0] == "split":
                    ok = sorted(p[1]) == in_labels and sorted(p[2]) == out_labels
                elif p[0] == "flat":
                    ok = sorted(p[1]) == all_labels and (len(sub) == 0 or len(sub) == len(members))
            if not ok:
                # list position == accession index for every member ("aligned") or not: the second case is
                # where indexing the labels by list position goes wrong, kept under its own monitor name
                aligned = all(b == (1 << i) for i, b in enumerate(bits))
                F(("%s.names_mask%s" % (api, "" if aligned else ".reordered"), probe,
                   "mask %s = taxa %r of members %r rendered as %r" % (bin(mask), [t._label for t in taxa], [t._label for t in members], s)))
        try:
            s = ns.bitmask_as_bitstring(mask)
            pos = NSPEC.bitstring_positions(s)
            wantpos = set(bits[i].bit_length() - 1 for i in sub)
            if pos is None or pos != wantpos:
                F(("bitmask_as_bitstring.names_mask", probe, "mask %s rendered as %r, set bits required at %r" % (bin(mask), s, sorted(wantpos))))
        except Exception as e:
            F(("bitmask_as_bitstring.raises", probe, "%s: %s" % (type(e).__name__, e)))
        # the same set as a Bipartition made by the namespace, rendered in both directions (reverse=True: first taxon first,
        # the PAUP* / MrBayes style) and with other symbols
        if sub:
            try:
                b = ns.taxa_bipartition(taxa=list(taxa))
                width = max(x.bit_length() for x in bits) if bits else 0
                for rev, s0, s1 in ((False, "0", "1"), (True, "0", "1"), (True, ".", "*")):
                    s = b.leafset_as_bitstring(symbol0=s0, symbol1=s1, reverse=rev)
                    # (the string may be wider than the highest member bit -- slots of removed taxa --: what it NAMES is compared)
                    lsb_first = s if rev else s[::-1]
                    named = set(j for j, ch in enumerate(lsb_first) if ch == s1)
                    want = set(j for j in range(max(width, len(s))) if (mask >> j) & 1)
                    if named != want or set(s) - {s0, s1} or len(s) < width:
                        F(("Bipartition.leafset_as_bitstring.names_mask", probe, "taxa %r of members %r (mask %s) rendered with reverse=%r as %r: names bits %r, required %r"
                           % ([t._label for t in taxa], [t._label for t in members], bin(mask), rev, s, sorted(named), sorted(want))))
                        break
            except Exception as e:
                F(("Bipartition.leafset_as_bitstring.raises", probe, "%s: %s" % (type(e).__name__, e)))

    def lookup(self, api, probe, call, want, kind):
        F = self.fails.append
        try:
            got = call()
        except Exception as e:
            F(("%s.raises" % api, probe, "%s: %s" % (type(e).__name__, e)))
            return
        if kind == "list":
            ok = isinstance(got, list) and len(got) == len(want) and all(a is b for a, b in zip(got, want))
            if not ok:
                F(("%s.exact" % api, probe, "got %r, required %r (members %r)" % (
                    self.describe(got) if isinstance(got, list) else got, self.describe(want), self.labels())))
        elif kind == "one":
            if got is not want:
                F(("%s.first_match" % api, probe, "got %r, required %r (members %r)" % (
                    self.describe([got]) if isinstance(got, Taxon) else got, self.describe([want]) if want is not None else None, self.labels())))
        elif kind == "bool":
            if got is not want:
                F(("%s.exact" % api, probe, "got %r, required %r (members %r)" % (got, want, self.labels())))
        else:
            if got != want:
                F((api, probe, "got %r, required %r (members %r)" % (got, want, self.labels())))


def run_history(cs, init, warm, ops, full=True):
    """-> (Run, completed?)"""
    r = Run(cs, init, warm)
    if r.fails:
        return r, False
    for op in ops:
        if not r.step(tuple(op) if not isinstance(op, tuple) else op):
            return r, False
    if full:
        r.monitors()
    return r, True


# ----------------------------------------------------------------------------- exhaustive driver
def _explore(task):
    """all histories below one (cs, init, warm, first op): DFS by re-execution"""
    cs, init, warm, first, depth = task
    out = dict(evals=0, nontriv=0, fails={}, nfails={}, sample=None)

    def record(ops, run):
        out["evals"] += 1
        if len(ops) >= 1 and len(run.keep) >= 2:
            out["nontriv"] += 1
        base = hist_key(cs, init, warm, ops)
        if out["sample"] is None:
            out["sample"] = base
        for (mon, probe, detail) in run.fails:
            out["nfails"][mon] = out["nfails"].get(mon, 0) + 1
            lst = out["fails"].setdefault(mon, [])
            if len(lst) < MAX_REPORT:
                key = base + ("|" + probe if probe else "")
                lst.append((len(ops), key, detail, [list(o) for o in ops], probe))

    def rec(ops):
        run, done = run_history(cs, init, warm, ops)
        record(ops, run)
        if not done or len(ops) >= depth:
            return
        for op in ops_at(len(run.members)):
            rec(ops + [op])

    if first is None:
        run, done = run_history(cs, init, warm, [])
        record([], run)
    else:
        rec([first])
    return out


INITS_DEEP = [("a", "A"), ("a", "A", "b")]


def _tasks(tier):
    """quick: every history of <= 2 operations from every initial namespace; thorough: in addition every
    history of 3 operations from the initial namespaces of INITS_DEEP"""
    tasks = []
    for cs in (False, True):
        for init in INITS:
            depth = 3 if (tier != "quick" and init in INITS_DEEP) else 2
            for warm in (False, True):
                tasks.append((cs, init, warm, None, depth))
                for op in ops_at(len(init)):
                    tasks.append((cs, init, warm, op, depth))
    return tasks


def _random_history(args):
    seed, length = args
    import random
    rng = random.Random(seed)
    cs = rng.random() < 0.5
    init = INITS[rng.randrange(len(INITS))]
    warm = rng.random() < 0.5
    run = Run(cs, init, warm)
    ops = []
    out = dict(evals=0, nontriv=0, fails={}, nfails={}, sample=None)
    for _ in range(length):
        cand = [o for o in ops_at(len(run.members))
                if not (o[0] in ("remove_label", "discard_label") and o[3])      # prunes (known TypeError), keep histories long
                and not (o[0] == "clear" and rng.random() < 0.8)
                and not (o[0] == "freeze" and rng.random() < 0.8)]
        op = cand[rng.randrange(len(cand))]
        ops.append(op)
        if not run.step(op):
            break
    else:
        run.monitors()
    out["evals"] = 1
    out["nontriv"] = 1
    out["sample"] = hist_key(cs, init, warm, ops)
    for (mon, probe, detail) in run.fails:
        out["nfails"][mon] = out["nfails"].get(mon, 0) + 1
        lst = out["fails"].setdefault(mon, [])
        if len(lst) < MAX_REPORT:
            lst.append((len(ops), out["sample"] + ("|" + probe if probe else ""), detail, [list(o) for o in ops], probe))
    out["meta"] = dict(cs=cs, init=list(init), warm=warm)
    return out


def t2(ctx):
    quick = ctx.tier == "quick"
    sc = "histories<=2" if quick else "histories<=2(+3)"
    ctx.scope(sc, rule="every history of <= 2 operations%s (full alphabet: add/readd/new/require/add_taxa/new_taxa/remove/del/"
                       "remove_label/discard_label/sort/reverse/clear/relabel/switch-to-copy/freeze) from %d initial label "
                       "sequences over {a,A,b,a} x both case settings x cold/warm caches; one evaluation = one history with "
                       "the full monitor set on its final state; non-trivial = >= 1 operation and >= 2 taxa ever created"
                       % ("" if quick else ", and of 3 operations from the initial sequences (a,A) and (a,A,b)", len(INITS)),
              exhaustive=True)
    tasks = _tasks(ctx.tier)
    results = pmap(_explore, tasks, chunksize=1)
    cand, nf = {}, {}
    for task, r in zip(tasks, results):
        cs, init, warm, first, _ = task
        tkey = "%s|%s|%s|%s" % (cs_str(cs), ",".join(init), int(warm), op_str(first) if first else "-")
        s = ctx.scopes[sc]
        # counted per history; the distinct non-trivial ones are counted per sub-tree of histories
        n, nt = r["evals"], r["nontriv"]
        for i in range(n):
            ctx.case(sc, key="%s#%d" % (tkey, i), nontrivial=(i < nt), sample=r["sample"])
        for mon, c in r["nfails"].items():
            nf[mon] = nf.get(mon, 0) + c
        for mon, lst in r["fails"].items():
            for (ln, key, detail, ops, probe) in lst:
                cand.setdefault(mon, []).append((ln, len(key), key, detail,
                                                 dict(cs=cs, init=list(init), warm=warm, ops=ops, probe=probe)))

    sc2 = "histories@random-long"
    nr = 400 if ctx.tier == "quick" else 5000
    ctx.scope(sc2, rule="%d seeded random histories of 6..14 operations over the same alphabet (first_match_only removals "
                        "left out so that histories do not end early); non-trivial = all" % nr, exhaustive=False)
    rng = rng_for(ctx, 10)
    rargs = [(rng.randrange(1 << 30), rng.randrange(6, 15)) for _ in range(nr)]
    for a, r in zip(rargs, pmap(_random_history, rargs, chunksize=8)):
        ctx.case(sc2, key=r["sample"], nontrivial=True, sample=r["sample"])
        for mon, c in r["nfails"].items():
            nf[mon] = nf.get(mon, 0) + c
        for mon, lst in r["fails"].items():
            for (ln, key, detail, ops, probe) in lst:
                w = dict(r["meta"])
                w.update(ops=ops, probe=probe)
                cand.setdefault(mon, []).append((ln + 100, len(key), key, detail, w))

    for mon in sorted(cand):
        lst = sorted(cand[mon], key=lambda c: (c[0], c[1], c[2]))
        seen = set()
        k = 0
        for (ln, _, key, detail, w) in lst:
            if key in seen:
                continue
            seen.add(key)
            ww = {"key": key}
            ww.update(w)
            ctx.fail(mon, ww, detail=detail)
            k += 1
            if k >= MAX_REPORT:
                break
        ctx.note("%s: %d failing evaluations in total (%d reported)" % (mon, nf.get(mon, 0), k))


def replay(ctx, rec):
    w = rec["witness"]
    ops = [tuple(o) for o in w["ops"]]
    run, done = run_history(w["cs"], tuple(w["init"]), w["warm"], ops)
    hit = [f for f in run.fails if f[0] == rec["obligation"] and (not w.get("probe") or f[1] == w["probe"])]
    for f in hit[:1]:
        print("  %s :: %s" % (w["key"], f[2]))
    return not hit
