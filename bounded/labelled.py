"""Labelled-tree inputs shared by the C01 / C04 / C14 bounded drivers.

A *tree spec* is a JSON-able dict
    {"shape": nested lists, "leaves": [labels left-to-right], "rooted": bool|None,
     "lens": None | number | [length or None per node in preorder, seed first],
     "ns": {"total": k, "removed": [labels], "order": "asis"|"rev"|"key"}}
Labels are LABELS[i] and were added to the namespace as the i-th taxon, so the bit
of a label is fixed by the driver (bit_of) independently of DendroPy."""
import itertools

from dendropy.datamodel.treemodel import Node, Tree
from dendropy.datamodel.taxonmodel import TaxonNamespace, Taxon

from bounded.common import n_leaves, LABELS

BIT_OF = dict((l, i) for i, l in enumerate(LABELS))


def tup(s):
    return tuple(tup(c) for c in s)


def lst(s):
    return [lst(c) for c in s]


def make_namespace(nsd):
    """nsd = {"total": k, "removed": [...], "order": ...} -> TaxonNamespace.
    Taxa are added one at a time in LABELS order, then some are removed, then the
    list order is changed; none of this may move a taxon's bit."""
    total = nsd.get("total")
    ns = TaxonNamespace()
    for l in LABELS[:total]:
        ns.add_taxon(Taxon(label=l))
    for l in nsd.get("removed", ()):
        ns.remove_taxon(ns.get_taxon(label=l))
    if nsd.get("copied"):
        # the namespace the trees live in is a COPY (copy constructor) of one whose bits had already been handed out and looked up:
        # every copied taxon keeps the bit of its original (C10), and what is added to the copy gets a bit nobody has
        for t in list(ns):
            ns.taxon_bitmask(t)
        ns = TaxonNamespace(ns)
    for l in nsd.get("added", ()):
        ns.add_taxon(Taxon(label=l))      # accessioned AFTER the removals: gets a new bit, never one in use
    order = nsd.get("order", "asis")
    if order == "rev":
        ns.reverse()
    elif order == "key":
        ns.sort(key=lambda t: ((ord(t.label[0]) * 7) % 5, t.label))
    elif order != "asis":
        raise ValueError(order)
    return ns


def ns_labels(nsd):
    rem = set(nsd.get("removed", ()))
    return [l for l in LABELS[: nsd["total"]] if l not in rem] + list(nsd.get("added", ()))


def build(spec, ns=None):
    """Tree from a spec through the Node API only (no parser, no bipartition code)."""
    shape = tup(spec["shape"])
    if ns is None:
        ns = make_namespace(spec["ns"])
    by_label = dict((t.label, t) for t in ns._taxa)
    it = iter(spec["leaves"])
    lens = spec.get("lens")
    counter = [0]

    def mk(s):
        idx = counter[0]
        counter[0] += 1
        nd = Node()
        if s == ():
            nd.taxon = by_label[next(it)]
        if lens is not None:
            l = lens[idx] if isinstance(lens, list) else (None if idx == 0 else lens)
            if l is not None:
                nd.edge.length = l
        for c in s:
            nd.add_child(mk(c))
        return nd

    root = mk(shape)
    t = Tree(seed_node=root, taxon_namespace=ns)
    t.is_rooted = spec.get("rooted")
    return t


def spec_newick(spec):
    """canonical witness rendering of a spec (independent of DendroPy)"""
    shape = tup(spec["shape"])
    it = iter(spec["leaves"])
    lens = spec.get("lens")
    counter = [0]

    def r(s):
        idx = counter[0]
        counter[0] += 1
        if s == ():
            out = next(it)
        else:
            out = "(" + ",".join(r(c) for c in s) + ")"
        if lens is not None:
            l = lens[idx] if isinstance(lens, list) else (None if idx == 0 else lens)
            if l is not None:
                out += ":%s" % (l,)
        return out

    body = r(shape)
    rt = {True: "[&R] ", False: "[&U] ", None: ""}[spec.get("rooted")]
    return rt + body + ";"


def ns_key(nsd):
    s = "ns%d" % nsd["total"]
    if nsd.get("removed"):
        s += "-" + "".join(nsd["removed"])
    if nsd.get("copied"):
        s += "/copied"
    if nsd.get("order", "asis") != "asis":
        s += "/" + nsd["order"]
    return s


def spec_key(spec):
    return "%s %s" % (ns_key(spec["ns"]), spec_newick(spec))


def n_nodes_shape(shape):
    return 1 + sum(n_nodes_shape(c) for c in shape)


def lens_from_pattern(shape, pat):
    """explicit per-node list (preorder, seed first = None) from a bounded.common pattern"""
    out = []

    def rec(s, is_root):
        idx = len(out)
        if is_root or pat is None:
            out.append(None)
        else:
            out.append(pat(idx, s == ()) if callable(pat) else pat)
        for c in s:
            rec(c, False)

    rec(tup(shape), True)
    return out


def unifurcation_variants(shape):
    """shape with one unifurcation inserted above one node (every position incl. the seed)"""
    shape = tup(shape)
    out = []

    def positions(s, path):
        yield path
        for i, c in enumerate(s):
            for p in positions(c, path + (i,)):
                yield p

    def insert(s, path):
        if not path:
            return (s,)
        i = path[0]
        return tuple(insert(c, path[1:]) if j == i else c for j, c in enumerate(s))

    for p in positions(shape, ()):
        out.append(insert(shape, p))
    return out


def default_ns(n):
    return {"total": n, "removed": [], "order": "asis"}


def namespace_variants(n, full=True):
    """namespace descriptions for trees whose leaves use labels from LABELS[:n+2]:
    yields (nsd, usable labels).  Covers: exact; larger than the leaf set; taxa
    removed (including the first, which moves the lowest relevant bit); reordered."""
    out = [({"total": n, "removed": [], "order": "asis"}, LABELS[:n])]
    if not full:
        return out
    out.append(({"total": n, "removed": [], "order": "rev"}, LABELS[:n]))
    out.append(({"total": n + 1, "removed": [], "order": "asis"}, LABELS[1:n + 1]))       # bit 0 exists, unused
    out.append(({"total": n + 1, "removed": ["A"], "order": "asis"}, LABELS[1:n + 1]))    # bit 0 removed
    out.append(({"total": n + 2, "removed": [], "order": "key"}, LABELS[:n]))             # two extra taxa, resorted
    mid = LABELS[1]
    use = [l for l in LABELS[:n + 2] if l not in ("A", mid)][:n]
    out.append(({"total": n + 2, "removed": ["A", mid], "order": "rev"}, use))            # two removed
    use2 = [l for l in LABELS[:n + 2] if l != mid][:n]
    out.append(({"total": n + 2, "removed": [mid], "order": "asis"}, use2))               # hole in the middle, one spare at the top
    late = LABELS[n + 1]
    use3 = [l for l in LABELS[1:n + 1] if l != mid] + [late]
    out.append(({"total": n + 1, "removed": [mid], "added": [late], "order": "asis"}, use3[-n:]))   # a taxon added after a removal
    out.append(({"total": n + 1, "removed": [mid], "copied": True, "added": [late], "order": "asis"}, use3[-n:]))   # ... to a copy of the namespace
    return out


class Reporter(object):
    """ctx.fail with a cap on *new* violations written per monitor name (a broken build can
    fail on every input; twenty replayable witnesses per monitor are enough, the rest is
    counted in a note).  Known findings are never capped."""

    def __init__(self, ctx, cap=20):
        self.ctx = ctx
        self.cap = cap
        self.n = {}
        self.skipped = {}

    def fail(self, name, witness, detail=None):
        if self.n.get(name, 0) >= self.cap:
            self.skipped[name] = self.skipped.get(name, 0) + 1
            return
        if self.ctx.fail(name, witness, detail=detail):
            self.n[name] = self.n.get(name, 0) + 1

    def close(self):
        for name, k in sorted(self.skipped.items()):
            self.ctx.note("%s: %d further failing inputs not written (cap %d per monitor)" % (name, k, self.cap))


# ----------------------------------------------------------------------------- wall-clock guards that survive a stalled machine
# A paused VM / overloaded host makes every armed wall-clock timer fire at once.  So a timeout is
# only reported when it reproduces: the item is evaluated a second time before "<op>.hangs" is
# believed.  After three confirmed hangs in one worker process the limit shrinks to 2 s (a build
# that loops on every input must not cost 40 s per input).
_CONFIRMED_HANGS = [0]


def limit(seconds):
    from bounded.common import time_limit
    return time_limit(seconds if _CONFIRMED_HANGS[0] < 3 else min(seconds, 2))


def retry_hangs(fn, item):
    res = fn(item)
    if ".hangs" in repr(res) and _CONFIRMED_HANGS[0] < 3:
        res = fn(item)
        if ".hangs" in repr(res):
            _CONFIRMED_HANGS[0] += 1
    return res


def random_shape(n, rng, p_poly=0.3, p_unif=0.0):
    """seeded random ordered shape with n leaves (polytomies with probability p_poly per node,
    a unifurcation above a node with probability p_unif)"""
    def rec(k):
        if k == 1:
            s = ()
        else:
            parts = 2
            if k >= 3 and rng.random() < p_poly:
                parts = rng.randint(3, min(k, 5))
            cuts = sorted(rng.sample(range(1, k), parts - 1))
            sizes = [b - a for a, b in zip([0] + cuts, cuts + [k])]
            s = tuple(rec(x) for x in sizes)
        if p_unif and rng.random() < p_unif:
            s = (s,)
        return s
    return rec(n)
