"""C01 (T2) -- bipartition encoding exact, canonical and sufficient.

Scopes (all oracles in specs/splits.py; the label -> bit table is fixed by this driver
when it creates the namespace, bit = order of creation):

  encode      Tree.encode_bipartitions on Shapes x Lab x {rooted, unrooted}: every edge of
              the resulting tree carries leafset mask = taxa below it, split mask = leafset
              (rooted) / LSB-0 normal form relative to the tree's own leaf set (unrooted),
              tree-leafset mask = all leaves; bipartition_encoding lists exactly the edges of
              the resulting tree, once each; split_bitmask_edge_map maps every split mask to
              an edge carrying it; the (un)rooted topology is the one the tree had before.
  encode-opts the same with all 16 combinations of the four boolean options, on shapes with
              unifurcations inserted and with edge lengths.
  reencode    encode, read the two edge maps, move a leaf with the Node API, encode again: all of
              the above must describe the current tree (no stale bipartition or map).
  iff         over all trees on one leaf set / namespace / rooting state: equal split-mask
              sets <=> equal canonical (un)rooted form (computed by re-hanging the pointer
              graph, not from splits).  Enumerating every ordered shape with every leaf
              permutation covers every child order and every seed position; unifurcation
              variants are added.
  rebuild     Tree.from_bipartition_encoding / from_split_bitmasks with the encoding in every
              order of its non-trivial members (exhaustive up to 5!, sampled above) plus
              random shuffles of the whole list: the result has every namespace taxon on
              exactly one leaf, its split set over the namespace is the one encoded, and its
              restriction to the source leaf set is the source topology.
  random      seeded random 8-10 leaf trees over a 12-taxon namespace: encode clauses with random
              options, reconstruction from sampled orders.
  predicates  Bipartition.is_trivial / is_compatible_with / is_leafset_nested_within for all
              pairs of subsets of the leaf set; Tree.is_compatible_with_bipartition for every
              tree x every subset, with and without is_bipartitions_updated.

Definitions used (and only these): trivial = one side has <= 1 taxon; compatible = disjoint
or nested (clades, rooted) / one of the four side intersections empty (splits, unrooted).
Left out: trees whose rooting state is None (the statement speaks of rooted and unrooted
trees); Bipartition.is_nested_within (not named by the statement); leaves without taxa and
taxa on internal nodes.
"""
import itertools
import json
import warnings

from bounded.common import *  # noqa
from bounded.labelled import *  # noqa
from specs import trees as S
from specs import splits as SP

from dendropy.datamodel.treemodel import Bipartition

warnings.filterwarnings("ignore")

OPT_NAMES = ("suppress_unifurcations", "collapse_unrooted_basal_bifurcation", "suppress_storage", "is_bipartitions_mutable")
DEFAULT_OPTS = {"suppress_unifurcations": True, "collapse_unrooted_basal_bifurcation": True,
                "suppress_storage": False, "is_bipartitions_mutable": False}


def _opts_key(o):
    return "".join("1" if o[k] else "0" for k in OPT_NAMES)


def _exc(e):
    return "%s: %s" % (type(e).__name__, str(e)[:160])


# ============================================================================ encode
def check_encoded_tree(tree, rooted, opts, ret, want_canon):
    """all per-tree clauses after a call of encode_bipartitions; returns [(monitor, detail)]"""
    fails = []
    errs = S.arborescence_errors(tree)
    if errs:
        return [("encode.structure", "tree is not well formed after encoding: %s" % errs[:3])]
    seed = tree._seed_node
    nodes = S.pre(seed)
    fill = SP.node_mask(seed, BIT_OF)
    got_canon = SP.canon(tree, rooted)
    if got_canon != want_canon:
        fails.append(("encode.topology", "topology changed by encoding: %r -> %r" % (want_canon, got_canon)))
    bips = []
    for n in nodes:
        e = n._edge
        b = e._bipartition
        if b is None:
            fails.append(("encode.leafset", "edge above %s has no bipartition" % S.newick(n, False)))
            continue
        bips.append(b)
        want_leaf = SP.node_mask(n, BIT_OF)
        if e.leafset_bitmask != want_leaf or b._leafset_bitmask != want_leaf:
            fails.append(("encode.leafset", "edge above %s: leafset mask %s, taxa below are %s"
                          % (S.newick(n, False), bin(b._leafset_bitmask or 0), bin(want_leaf))))
        want_split = SP.expected_split(want_leaf, fill, rooted)
        if e.split_bitmask != want_split or b.split_bitmask != want_split:
            fails.append(("encode.split", "edge above %s: split mask %s, required %s (tree leafset %s, %s)"
                          % (S.newick(n, False), bin(b._split_bitmask) if b._split_bitmask is not None else None,
                             bin(want_split), bin(fill), "rooted" if rooted else "unrooted")))
        if b._tree_leafset_bitmask != fill:
            fails.append(("encode.tree_leafset", "edge above %s: tree leafset mask %r, leaves of the tree are %s"
                          % (S.newick(n, False), b._tree_leafset_bitmask, bin(fill))))
        if bool(b._is_rooted) != rooted:
            fails.append(("encode.rooting", "bipartition is_rooted=%r on a tree with is_rooted=%r" % (b._is_rooted, rooted)))
        if bool(b.is_mutable) != bool(opts["is_bipartitions_mutable"]):
            fails.append(("encode.mutable", "bipartition is_mutable=%r, requested %r" % (b.is_mutable, opts["is_bipartitions_mutable"])))
    enc = tree.bipartition_encoding
    if opts["suppress_storage"]:
        if enc is not None or ret is not None:
            fails.append(("encode.encoding", "suppress_storage=True but an encoding was stored/returned"))
    else:
        if ret is not enc:
            fails.append(("encode.encoding", "return value is not tree.bipartition_encoding"))
        if enc is None:
            fails.append(("encode.encoding", "bipartition_encoding is None"))
        else:
            a = sorted(id(x) for x in enc)
            b_ = sorted(id(x) for x in bips)
            if a != b_:
                fails.append(("encode.encoding", "bipartition_encoding has %d entries, the tree has %d edges; "
                              "entries that are not an edge's bipartition: %d, edges not listed: %d"
                              % (len(a), len(b_), len(set(a) - set(b_)), len(set(b_) - set(a)))))
    return fails


def check_edge_map(tree, rooted):
    """Tree.split_bitmask_edge_map after a default encoding"""
    fails = []
    try:
        m = tree.split_bitmask_edge_map
    except Exception as e:
        return [("edge_map.raises", _exc(e))]
    seed = tree._seed_node
    fill = SP.node_mask(seed, BIT_OF)
    nodes = S.pre(seed)
    want = {}
    for n in nodes:
        want.setdefault(SP.expected_split(SP.node_mask(n, BIT_OF), fill, rooted), []).append(n._edge)
    if set(m.keys()) != set(want.keys()):
        fails.append(("edge_map.keys", "keys %s, split masks of the tree %s" % (sorted(m.keys()), sorted(want.keys()))))
    else:
        for k, e in m.items():
            if not any(e is x for x in want[k]):
                fails.append(("edge_map.values", "split %s mapped to an edge that does not induce it" % bin(k)))
    return fails


def eval_encode(item):
    spec, opts = item["spec"], item["opts"]
    tree = build(spec)
    rooted = bool(spec["rooted"])
    want_canon = SP.canon(tree, rooted)
    try:
        with limit(20):
            ret = tree.encode_bipartitions(**opts)
    except Timeout:
        return [("encode.hangs", "no result after 20 s")]
    except Exception as e:
        return [("encode.raises", _exc(e))]
    fails = check_encoded_tree(tree, rooted, opts, ret, want_canon)
    # the edge map hashes the bipartitions, which is defined for frozen (immutable) ones only
    if not fails and not opts["suppress_storage"] and not opts["is_bipartitions_mutable"]:
        fails += check_edge_map(tree, rooted)
    return fails


def _encode_items(tier):
    nmax = 5 if tier == "quick" else 6
    items = []
    for n in range(1, nmax + 1):
        labellings = []
        # every assignment of the leaves to the bits 0..n-1 (all permutations)
        for perm in itertools.permutations(LABELS[:n]):
            labellings.append((default_ns(n), list(perm)))
        # every choice of n bits among n+2 (namespace larger than the leaf set), bits in order and reversed
        for sub in itertools.combinations(LABELS[:n + 2], n):
            labellings.append(({"total": n + 2, "removed": [], "order": "asis"}, list(sub)))
            rem = [l for l in LABELS[:n + 2] if l not in sub]
            labellings.append(({"total": n + 2, "removed": rem, "order": "rev"}, list(reversed(sub))))
            labellings.append(({"total": n + 2, "removed": rem[:1], "order": "key"}, list(sub)))
        if n == 6:  # thorough: 720 permutations x 197 shapes is affordable only for the first 120
            labellings = labellings[:120] + labellings[720:]
        for shape in shapes_exact(n):
            for nsd, leaves in labellings:
                for rooted in (True, False):
                    spec = {"shape": lst(shape), "leaves": leaves, "rooted": rooted, "lens": None, "ns": nsd}
                    items.append({"spec": spec, "opts": DEFAULT_OPTS})
    return items


def _encode_opts_items(tier):
    nmax = 4 if tier == "quick" else 5
    items = []
    for n in range(1, nmax + 1):
        for shape in shapes_exact(n):
            variants = [shape] + unifurcation_variants(shape)
            if tier != "quick" or n <= 3:
                # two unifurcations
                for v in unifurcation_variants(shape):
                    variants.extend(unifurcation_variants(v)[:6])
            seen = set()
            for v in variants:
                if v in seen:
                    continue
                seen.add(v)
                for nsd, usable in namespace_variants(n):
                    if nsd["order"] != "asis" and n > 3:
                        continue
                    leaves = list(usable)
                    for lens_name in ("none", "dyadic"):
                        lens = lens_from_pattern(v, length_patterns()[lens_name]) if lens_name != "none" else None
                        for rooted in (True, False):
                            for bits in itertools.product((True, False), repeat=4):
                                opts = dict(zip(OPT_NAMES, bits))
                                spec = {"shape": lst(v), "leaves": leaves, "rooted": rooted, "lens": lens, "ns": nsd}
                                items.append({"spec": spec, "opts": opts})
    return items


def _w_encode(item):
    return retry_hangs(_w_encode0, item)


def _w_encode0(item):
    fails = eval_encode(item)
    sp = item["spec"]
    return (spec_key(sp) + " opts=" + _opts_key(item["opts"]), len(sp["leaves"]), fails)


# ============================================================================ re-encode after an edit
def eval_reencode(item):
    """encode; read both edge maps; move one leaf to another internal node with the Node API;
    encode again: everything observable must describe the *current* tree"""
    spec = item["spec"]
    rooted = bool(spec["rooted"])
    tree = build(spec)
    try:
        tree.encode_bipartitions()
        tree.split_bitmask_edge_map
        tree.bipartition_edge_map
    except Exception as e:
        return [("encode.raises", _exc(e))]
    nodes = S.pre(tree._seed_node)
    x = [n for n in nodes if n.taxon is not None and n.taxon.label == item["leaf"]][0]
    y = nodes[item["target"]]
    x._parent_node.remove_child(x)
    y.add_child(x)
    want_canon = SP.canon(tree, rooted)
    try:
        with limit(20):
            ret = tree.encode_bipartitions()
    except Timeout:
        return [("encode.hangs", "no result after 20 s")]
    except Exception as e:
        return [("encode.raises", _exc(e))]
    fails = check_encoded_tree(tree, rooted, DEFAULT_OPTS, ret, want_canon)
    if not fails:
        fails += check_edge_map(tree, rooted)
        try:
            bem = tree.bipartition_edge_map
            edges = [n._edge for n in S.pre(tree._seed_node)]
            for b, e in bem.items():
                if not any(e is x_ for x_ in edges) or e._bipartition.split_bitmask != b.split_bitmask:
                    fails.append(("edge_map.values", "bipartition_edge_map maps split %s to an edge that is not an edge of the "
                                                     "current tree inducing it" % bin(b.split_bitmask)))
                    break
        except Exception as e:
            fails.append(("edge_map.raises", _exc(e)))
    return [(m.replace("encode.", "reencode.").replace("edge_map.", "reencode.edge_map."), d) for m, d in fails]


def _reencode_items(tier):
    nmax = 5 if tier == "quick" else 6
    items = []
    for n in range(3, nmax + 1):
        for shape in shapes_exact(n):
            for vi, (nsd, usable) in enumerate(namespace_variants(n)):
                if vi not in (0, 3, 6):
                    continue
                for rooted in (True, False):
                    spec = {"shape": lst(shape), "leaves": list(usable), "rooted": rooted, "lens": 1.0, "ns": nsd}
                    probe = build(spec)
                    probe.encode_bipartitions()      # the edit happens on the encoded (possibly basally collapsed) tree
                    nodes = S.pre(probe._seed_node)
                    for x in nodes:
                        if x._child_nodes or x._parent_node is None or len(x._parent_node._child_nodes) < 2:
                            continue
                        for j, y in enumerate(nodes):
                            if not y._child_nodes or y is x._parent_node:
                                continue
                            # the old parent must keep a taxon below it
                            items.append({"spec": spec, "leaf": x.taxon.label, "target": j})
    return items


def _w_reencode(item):
    return retry_hangs(_w_reencode0, item)


def _w_reencode0(item):
    fails = eval_reencode(item)
    return (spec_key(item["spec"]) + " move %s -> node#%d" % (item["leaf"], item["target"]), len(item["spec"]["leaves"]), fails)


# ============================================================================ iff
def _w_iff(item):
    return retry_hangs(_w_iff0, item)


def _w_iff0(item):
    """one tree: (canonical form, split-mask set after a real encoding)"""
    tree = build(item)
    rooted = bool(item["rooted"])
    c = SP.canon(tree, rooted)
    try:
        tree.encode_bipartitions()
        masks = sorted(set(b.split_bitmask for b in tree.bipartition_encoding))
    except Exception as e:
        return (repr(c), None, _exc(e))
    return (repr(c), masks, None)


def eval_iff_pair(pair):
    a, b = pair["a"], pair["b"]
    ra, rb = _w_iff(a), _w_iff(b)
    if ra[1] is None or rb[1] is None:
        return [("iff.raises", ra[2] or rb[2])]
    same_top = ra[0] == rb[0]
    same_masks = ra[1] == rb[1]
    if same_top and not same_masks:
        return [("iff.same-topology-different-masks", "same %s topology %s but split-mask sets %s vs %s"
                 % ("rooted" if a["rooted"] else "unrooted", ra[0], ra[1], rb[1]))]
    if same_masks and not same_top:
        return [("iff.same-masks-different-topology", "split-mask set %s for different topologies %s vs %s" % (ra[1], ra[0], rb[0]))]
    return []


def _iff_groups(tier):
    """groups of specs sharing leaf set, namespace and rooting state"""
    nmax = 5 if tier == "quick" else 6
    groups = []
    for n in range(1, nmax + 1):
        for nsd, usable in namespace_variants(n):
            if n >= 5 and nsd["order"] != "asis":
                continue
            if n == 6 and nsd["total"] != 7:
                continue
            for rooted in (True, False):
                specs = []
                for shape in shapes_exact(n):
                    for perm in itertools.permutations(usable):
                        specs.append({"shape": lst(shape), "leaves": list(perm), "rooted": rooted, "lens": None, "ns": nsd})
                    if n <= 4:
                        for v in unifurcation_variants(shape):
                            for perm in itertools.permutations(usable):
                                specs.append({"shape": lst(v), "leaves": list(perm), "rooted": rooted, "lens": None, "ns": nsd})
                groups.append(("%s n=%d %s" % (ns_key(nsd), n, "R" if rooted else "U"), specs))
    return groups


# ============================================================================ rebuild
def _orders(enc_len, nontrivial_idx, rng):
    """index orders of the encoding handed to reconstruction"""
    base = list(range(enc_len))
    out = []
    k = len(nontrivial_idx)
    if k <= 5:
        perms = list(itertools.permutations(nontrivial_idx))
        exhaustive = True
    else:
        perms = [tuple(rng.sample(nontrivial_idx, k)) for _ in range(60)]
        exhaustive = False
    slots = sorted(nontrivial_idx)
    for p in perms:
        o = list(base)
        for s, v in zip(slots, p):
            o[s] = v
        out.append(o)
    for _ in range(6):
        o = list(base)
        rng.shuffle(o)
        out.append(o)
    out.append(list(reversed(base)))
    return out, exhaustive


def check_rebuilt(rt, spec, masks, rooted, src_canon):
    fails = []
    errs = S.arborescence_errors(rt)
    if errs:
        return [("rebuild.structure", "rebuilt tree is not well formed: %s" % errs[:3])]
    all_labels = ns_labels(spec["ns"])
    got = sorted((l.taxon.label if l.taxon is not None else "?") for l in S.leaves(rt._seed_node))
    if got != sorted(all_labels):
        fails.append(("rebuild.taxa", "leaves %s, namespace taxa %s" % (got, sorted(all_labels))))
        return fails
    if bool(rt.is_rooted) != rooted:
        fails.append(("rebuild.rooting", "is_rooted=%r, requested %r" % (rt.is_rooted, rooted)))
    N = SP.mask_of(all_labels, BIT_OF)
    # splits over the whole namespace that the encoding describes: every mask as {m, N-m}
    if rooted:
        want = set(m & N for m in masks) | set(1 << BIT_OF[l] for l in all_labels) | {N}
        want.discard(0)
        have = set(SP.clade_masks(rt, BIT_OF))
    else:
        want = set(SP.normalised(m, N) for m in masks) | set(SP.normalised(1 << BIT_OF[l], N) for l in all_labels) | {0}
        have = set(SP.split_masks(rt, BIT_OF, False))
    if have != want:
        fails.append(("rebuild.splits", "splits of the rebuilt tree %s, encoded %s" % (sorted(have), sorted(want))))
    keep = set(spec["leaves"])
    got_canon = SP.canon(rt, rooted, keep)
    if got_canon != src_canon:
        fails.append(("rebuild.topology", "rebuilt %r, source %r (%s, restricted to the source leaves)"
                      % (got_canon, src_canon, "rooted" if rooted else "unrooted")))
    if len(keep) == len(all_labels):
        full = SP.canon(rt, rooted)
        if full != src_canon:
            fails.append(("rebuild.topology", "rebuilt %r, source %r" % (full, src_canon)))
    return fails


def eval_rebuild(item, orders=None, seed=0):
    import random
    spec = item["spec"]
    rooted = bool(spec["rooted"])
    src = build(spec)
    src_canon = SP.canon(src, rooted)
    src.encode_bipartitions()
    enc = list(src.bipartition_encoding)
    ns = src.taxon_namespace
    fill = SP.node_mask(src._seed_node, BIT_OF)
    n_all = SP.mask_of(ns_labels(spec["ns"]), BIT_OF)
    # members that survive the filter of the reconstruction (>= 2 taxa, not the whole namespace)
    nontriv = [i for i, b in enumerate(enc) if SP.popcount(b.split_bitmask) >= 2 and b.split_bitmask != n_all]
    exhaustive = True
    if orders is None:
        rng = random.Random(seed * 7919 + len(enc))
        orders, exhaustive = _orders(len(enc), nontriv, rng)
    results = []
    for o in orders:
        f = []
        for route in ("bipartitions", "masks"):
            try:
                with limit(20):
                    if route == "bipartitions":
                        rt = Tree.from_bipartition_encoding([enc[i] for i in o], taxon_namespace=ns, is_rooted=rooted)
                    else:
                        rt = Tree.from_split_bitmasks([enc[i].split_bitmask for i in o], taxon_namespace=ns, is_rooted=rooted)
            except Timeout:
                f.append(("rebuild.hangs", "%s: no result after 20 s" % route))
                continue
            except Exception as e:
                f.append(("rebuild.raises", "%s: %s" % (route, _exc(e))))
                continue
            f += [(m, route + ": " + d) for m, d in check_rebuilt(rt, spec, [enc[i].split_bitmask for i in o], rooted, src_canon)]
        results.append((o, f))
    return results, exhaustive


def _rebuild_items(tier):
    nmax = 5 if tier == "quick" else 7
    items = []
    for n in range(1, nmax + 1):
        shapes = shapes_exact(n)
        for si, shape in enumerate(shapes):
            vs = [shape]
            if n <= 4:
                vs += unifurcation_variants(shape)[:3]
            for v in vs:
                for vi, (nsd, usable) in enumerate(namespace_variants(n)):
                    if n >= 6 and vi not in (0, 3, 5):
                        continue
                    if n == 7 and (si % 8) != 0:
                        continue
                    leafsets = [list(usable), list(reversed(usable))]
                    if n >= 3:
                        leafsets.append(list(usable[1:]) + [usable[0]])
                    for leaves in leafsets:
                        for rooted in (True, False):
                            items.append({"spec": {"shape": lst(v), "leaves": leaves, "rooted": rooted, "lens": None, "ns": nsd}})
    return items


def _w_rebuild(item):
    return retry_hangs(_w_rebuild0, item)


def _w_rebuild0(item):
    results, exhaustive = eval_rebuild(item, seed=item.get("seed", 0))
    out = []
    for o, f in results:
        out.append((o, f))
    return (spec_key(item["spec"]), len(item["spec"]["leaves"]), [(o, f) for o, f in out if f], len(results), exhaustive)


# ============================================================================ predicates
def _mk_bip(m, fill, rooted, how):
    if how == "leafset":
        return Bipartition(leafset_bitmask=m, tree_leafset_bitmask=fill, is_rooted=rooted)
    return Bipartition(bitmask=m, tree_leafset_bitmask=fill, is_rooted=rooted)


def eval_predicates(item):
    """all pairs of subsets of a leaf set `fill` (given as label list), one rooting state"""
    fill = SP.mask_of(item["labels"], BIT_OF)
    rooted = item["rooted"]
    how = item["how"]
    subs = _submasks(fill)
    fails = []
    bips = {}
    for m in subs:
        try:
            bips[m] = _mk_bip(m, fill, rooted, how)
        except Exception as e:
            fails.append(("bipartition.raises", {"m": m}, "Bipartition(%s=%s, tree_leafset_bitmask=%s): %s" % (how, bin(m), bin(fill), _exc(e))))
    n_eval = 0
    for m, b in bips.items():
        n_eval += 1
        want_split = SP.expected_split(m, fill, rooted)
        if b.split_bitmask != want_split or b.leafset_bitmask != m:
            fails.append(("bipartition.compile", {"m": m}, "leafset %s fill %s %s: split %r leafset %r, required %s / %s"
                          % (bin(m), bin(fill), "rooted" if rooted else "unrooted", b.split_bitmask, b.leafset_bitmask, bin(want_split), bin(m))))
            continue
        try:
            got = b.is_trivial()
        except Exception as e:
            fails.append(("is_trivial.raises", {"m": m}, _exc(e)))
            got = None
        want = SP.is_trivial_set(m, fill)
        if got is not None and bool(got) != want:
            fails.append(("is_trivial.definition", {"m": m}, "is_trivial()=%r for %s within %s; sides have %d and %d taxa"
                          % (got, bin(m), bin(fill), SP.popcount(m & fill), SP.popcount(fill & ~m))))
    for m1, b1 in bips.items():
        for m2, b2 in bips.items():
            n_eval += 1
            try:
                got = b1.is_compatible_with(b2)
                got_inc = b1.is_incompatible_with(b2)
                got_int = b1.is_compatible_with(b2.split_bitmask)
                nested = b1.is_leafset_nested_within(b2)
                nested_int = b1.is_leafset_nested_within(m2)
            except Exception as e:
                fails.append(("predicates.raises", {"m1": m1, "m2": m2}, _exc(e)))
                continue
            want = SP.compatible(m1, m2, fill, rooted)
            if bool(got) != want or bool(got_int) != want or bool(got_inc) == want:
                fails.append(("is_compatible_with.definition", {"m1": m1, "m2": m2},
                              "%s vs %s within %s (%s): is_compatible_with=%r (int arg %r, is_incompatible_with=%r), set definition %r"
                              % (bin(m1), bin(m2), bin(fill), "rooted" if rooted else "unrooted", got, got_int, got_inc, want)))
            wn = (m1 & m2) == m1
            if bool(nested) != wn or bool(nested_int) != wn:
                fails.append(("is_leafset_nested_within.definition", {"m1": m1, "m2": m2},
                              "%s within %s: %r (int arg %r), subset test %r" % (bin(m1), bin(m2), nested, nested_int, wn)))
    return fails, n_eval


def _submasks(fill):
    out = []
    s = fill
    while True:
        out.append(s)
        if s == 0:
            break
        s = (s - 1) & fill
    return sorted(out)


def eval_tree_compat(item):
    """Tree.is_compatible_with_bipartition for every subset of the leaf set"""
    spec = item["spec"]
    rooted = bool(spec["rooted"])
    updated = item["updated"]
    fails = []

    def edit(t):
        # "stale": the tree is encoded, then two leaves in different places exchange their taxa, then the question is asked
        # with default arguments -- the answer must be about the tree as it is now
        lv = [nd for nd in t.postorder_node_iter() if not nd._child_nodes]
        if len(lv) >= 2:
            lv[0].taxon, lv[-1].taxon = lv[-1].taxon, lv[0].taxon

    probe = build(spec)
    if updated == "stale":
        edit(probe)
    fill = SP.node_mask(probe._seed_node, BIT_OF)
    tree_splits = SP.clade_masks(probe, BIT_OF) if rooted else SP.split_masks(probe, BIT_OF, False)
    n_eval = 0
    for m in (_submasks(fill) if item.get("m") is None else [item["m"]]):
        n_eval += 1
        tree = build(spec)
        if updated:
            tree.encode_bipartitions()
        if updated == "stale":
            edit(tree)
        b = Bipartition(leafset_bitmask=m, tree_leafset_bitmask=fill, is_rooted=rooted)
        try:
            if updated == "stale":
                got = tree.is_compatible_with_bipartition(b)
            else:
                got = tree.is_compatible_with_bipartition(b, is_bipartitions_updated=updated)
        except Exception as e:
            fails.append(("tree_compat.raises", {"m": m}, _exc(e)))
            continue
        want = all(SP.compatible(m, s, fill, rooted) for s in tree_splits)
        if bool(got) != want:
            fails.append(("tree_compat.definition", {"m": m},
                          "is_compatible_with_bipartition(%s)=%r, %s with every split of the tree: %r"
                          % (bin(m), got, "compatible", want)))
    return fails, n_eval


def _w_pred(item):
    return retry_hangs(_w_pred0, item)


def _w_pred0(item):
    fails, n = eval_predicates(item)
    return ("fill=%s %s how=%s" % ("".join(item["labels"]), "R" if item["rooted"] else "U", item["how"]), len(item["labels"]), fails, n)


def _w_tcompat(item):
    return retry_hangs(_w_tcompat0, item)


def _w_tcompat0(item):
    fails, n = eval_tree_compat(item)
    return (spec_key(item["spec"]) + " updated=%s" % (item["updated"] if isinstance(item["updated"], str) else int(item["updated"])), len(item["spec"]["leaves"]), fails, n)


# ============================================================================ namespaces with history
def eval_readded(item):
    """a namespace whose per-taxon bit masks are already cached loses taxa and gets the SAME Taxon objects back (they now carry
    new, higher bits: one per add, never reused); a tree over it is encoded and every leaf-set mask is compared with the
    bits of this model of the accession order"""
    from dendropy.datamodel.taxonmodel import TaxonNamespace, Taxon
    n, readd, rooted, shape = item["n"], item["readd"], item["rooted"], tup(item["shape"])
    ns = TaxonNamespace()
    taxa = [Taxon(label=l) for l in LABELS[:n]]
    bit = {}
    k = 0
    for t in taxa:
        ns.add_taxon(t)
        bit[t.label] = k
        k += 1
    # cache the masks the way users do: encode a first tree over all taxa
    spec0 = {"shape": lst(shapes_exact(n)[0]), "leaves": LABELS[:n], "rooted": rooted, "lens": None, "ns": None}
    build(spec0, ns=ns).encode_bipartitions()
    if item.get("via") == "clear":
        # the namespace is emptied and the SAME Taxon objects come back (those named last): the counter goes on, no bit is reused
        ns.clear()
        for i in [j for j in range(n) if j not in readd] + list(readd):
            ns.add_taxon(taxa[i])
            bit[taxa[i].label] = k
            k += 1
    else:
        for i in readd:
            ns.remove_taxon(taxa[i])
        for i in readd:
            ns.add_taxon(taxa[i])
            bit[taxa[i].label] = k
            k += 1
    tree = build({"shape": lst(shape), "leaves": LABELS[:n], "rooted": rooted, "lens": None, "ns": None}, ns=ns)
    fails = []
    try:
        tree.encode_bipartitions()
    except Exception as e:
        return [("encode@readded.raises", _exc(e))]
    fill = SP.node_mask(tree._seed_node, bit)
    for nd in S.pre(tree._seed_node):
        b = nd._edge._bipartition
        want = SP.node_mask(nd, bit)
        if b is None or b._leafset_bitmask != want:
            fails.append(("encode@readded.leafset", "edge above %s: leafset mask %s, the taxa below carry bits %s (re-added: %s)"
                          % (S.newick(nd, False), bin(b._leafset_bitmask or 0) if b is not None else None, bin(want), [LABELS[i] for i in readd])))
            break
        ws = SP.expected_split(want, fill, rooted)
        if b.split_bitmask != ws:
            fails.append(("encode@readded.split", "edge above %s: split mask %s, required %s" % (S.newick(nd, False), bin(b.split_bitmask), bin(ws))))
            break
    return fails


def _w_readded(item):
    return ("n=%d readd=%s%s %s %s" % (item["n"], "".join(LABELS[i] for i in item["readd"]), "/clear" if item.get("via") == "clear" else "",
                                       "R" if item["rooted"] else "U", item["shape"]), item["n"], eval_readded(item))


# ============================================================================ driver
def t2(ctx):
    quick = ctx.tier == "quick"
    rep = Reporter(ctx)

    # ---- encode
    sc = "encode@Shapes x Lab x rooting"
    ctx.scope(sc, rule="every ordered shape with <= %d leaves x {every permutation of the leaves over bits 0..n-1, every choice of n "
                       "bits among n+2 with 0/1/2 unused taxa removed and the namespace reversed/resorted} x {rooted, unrooted}, default "
                       "options%s; non-trivial = >= 3 leaves" % (5 if quick else 6, "" if quick else " (6 leaves: the first 120 of the 720 "
                       "permutations)"), exhaustive=quick)
    items = _encode_items(ctx.tier)
    for item, (key, n, fails) in zip(items, pmap(_w_encode, items, chunksize=64)):
        ctx.case(sc, key, nontrivial=n >= 3)
        for mon, detail in fails:
            rep.fail(mon, {"key": key, "kind": "encode", "item": item}, detail=detail)

    sc = "encode-opts@unifurcations x options"
    ctx.scope(sc, rule="shapes with <= %d leaves with 0, 1 (every position incl. the seed) or 2 (a subset of positions) unifurcations x 7 "
                       "namespace variants (reordered ones up to 3 leaves) x "
                       "{no lengths, dyadic lengths} x {rooted, unrooted} x all 16 combinations of the four boolean options; "
                       "non-trivial = >= 3 leaves" % (4 if quick else 5), exhaustive=False)
    items = _encode_opts_items(ctx.tier)
    for item, (key, n, fails) in zip(items, pmap(_w_encode, items, chunksize=64)):
        ctx.case(sc, key, nontrivial=n >= 3)
        for mon, detail in fails:
            rep.fail(mon, {"key": key, "kind": "encode", "item": item}, detail=detail)

    sc = "reencode@leaf moves"
    ctx.scope(sc, rule="shapes with 3..%d leaves x 3 namespace variants x {rooted, unrooted}: encode, read split_bitmask_edge_map and "
                       "bipartition_edge_map, move one leaf (every leaf) to another internal node (every one) through "
                       "remove_child/add_child, encode again, check all encode clauses and both maps on the current tree; "
                       "non-trivial = >= 4 leaves" % (5 if quick else 6), exhaustive=True)
    items = _reencode_items(ctx.tier)
    for item, (key, n, fails) in zip(items, pmap(_w_reencode, items, chunksize=32)):
        ctx.case(sc, key, nontrivial=n >= 4)
        for mon, detail in fails:
            rep.fail(mon, {"key": key, "kind": "reencode", "item": item}, detail=detail)

    # ---- iff
    sc = "iff@all trees on one leaf set"
    ctx.scope(sc, rule="for each (namespace variant [7 up to 4 leaves, the 5 unreordered ones for 5, one for 6], n <= %d, rooting): every ordered shape x every leaf permutation (+ one-unifurcation "
                       "variants for n <= 4): the map canonical form <-> split-mask set must be a bijection, i.e. the iff holds for "
                       "every pair of these trees; one evaluation per tree; non-trivial = >= 3 leaves" % (5 if quick else 6),
              exhaustive=True)
    groups = _iff_groups(ctx.tier)
    flat = [spec for _, specs in groups for spec in specs]
    flat_res = pmap(_w_iff, flat, chunksize=256)
    pos = 0
    for gname, specs in groups:
        res = flat_res[pos:pos + len(specs)]
        pos += len(specs)
        by_canon, by_masks = {}, {}
        for spec, (c, masks, err) in zip(specs, res):
            ctx.case(sc, (gname, c), nontrivial=len(spec["leaves"]) >= 3, sample=spec_key(spec))
            if masks is None:
                rep.fail("iff.raises", {"key": spec_key(spec), "kind": "iff", "a": spec, "b": spec}, detail=err)
                continue
            mk = tuple(masks)
            first = by_canon.setdefault(c, (mk, spec))
            if first[0] != mk:
                a, b = first[1], spec
                rep.fail("iff.same-topology-different-masks",
                         {"key": spec_key(a) + " | " + spec_newick(b), "kind": "iff", "a": a, "b": b},
                         detail="same topology %s, split-mask sets %s vs %s" % (c, list(first[0]), masks))
            first = by_masks.setdefault(mk, (c, spec))
            if first[0] != c:
                a, b = first[1], spec
                rep.fail("iff.same-masks-different-topology",
                         {"key": spec_key(a) + " | " + spec_newick(b), "kind": "iff", "a": a, "b": b},
                         detail="split-mask set %s for topologies %s and %s" % (masks, first[0], c))

    # ---- rebuild
    sc = "rebuild@orders"
    ctx.scope(sc, rule="shapes with <= %d leaves (+ unifurcation variants for <= 4) x 7 namespace variants x 2-3 leaf assignments x "
                       "{rooted, unrooted} x {every order of the non-trivial members of the encoding (all k! for k <= 5, else 60 "
                       "seeded samples), 6 seeded shuffles of the whole list, reversed} x {from_bipartition_encoding, "
                       "from_split_bitmasks}; one evaluation per (tree, order); non-trivial = >= 4 leaves"
                       % (5 if quick else 7), exhaustive=False)
    items = _rebuild_items(ctx.tier)
    for it in items:
        it["seed"] = ctx.seed
    for item, (key, n, bad, n_orders, exh) in zip(items, pmap(_w_rebuild, items, chunksize=16)):
        for i in range(n_orders):
            ctx.case(sc, (key, i), nontrivial=n >= 4, sample=key)
        for o, f in bad:
            for mon, detail in f:
                rep.fail(mon, {"key": key + " order=" + ",".join(map(str, o)), "kind": "rebuild", "item": {"spec": item["spec"]}, "order": o},
                         detail=detail)

    # ---- seeded random larger trees
    sc = "random@8-10 leaves"
    ctx.scope(sc, rule="%d seeded random trees (8-10 leaves, polytomies p=0.3, unifurcations p=0.1) over a 12-taxon namespace with 0-2 "
                       "unused taxa removed and a random list order, random rooting and options: all encode clauses, then "
                       "reconstruction from 60 sampled orders; one evaluation per tree and per (tree, order); all non-trivial"
                       % (120 if quick else 1500), exhaustive=False)
    rng = rng_for(ctx, 101)
    items_e, items_r = [], []
    for _ in range(120 if quick else 1500):
        n = rng.randint(8, 10)
        spare = rng.sample(LABELS[:12], 12 - n)
        removed = sorted(spare[:rng.randint(0, 2)])
        leaves = [l for l in LABELS[:12] if l not in spare]
        rng.shuffle(leaves)
        nsd = {"total": 12, "removed": removed, "order": rng.choice(["asis", "rev", "key"])}
        spec = {"shape": lst(random_shape(n, rng, 0.3, 0.1)), "leaves": leaves, "rooted": rng.random() < 0.5, "lens": None, "ns": nsd}
        items_e.append({"spec": spec, "opts": dict((k, rng.random() < 0.5) for k in OPT_NAMES)})
        items_r.append({"spec": spec, "seed": ctx.seed})
    for item, (key, n, fails) in zip(items_e, pmap(_w_encode, items_e, chunksize=8)):
        ctx.case(sc, key)
        for mon, detail in fails:
            rep.fail(mon, {"key": key, "kind": "encode", "item": item}, detail=detail)
    for item, (key, n, bad, n_orders, exh) in zip(items_r, pmap(_w_rebuild, items_r, chunksize=4)):
        for i in range(n_orders):
            ctx.case(sc, (key, i), sample=key)
        for o, f in bad:
            for mon, detail in f:
                rep.fail(mon, {"key": key + " order=" + ",".join(map(str, o)), "kind": "rebuild", "item": {"spec": item["spec"]}, "order": o},
                         detail=detail)

    # ---- predicates
    sc = "predicates@all subset pairs"
    ctx.scope(sc, rule="leaf sets of 1..%d taxa taken from the 7 namespace variants x {rooted, unrooted} x {built from leafset_bitmask=, "
                       "from bitmask=}: every subset m (compile + is_trivial) and every ordered pair (m1, m2) (is_compatible_with, "
                       "is_incompatible_with, is_leafset_nested_within, Bipartition and int arguments); non-trivial = >= 4 taxa"
                       % (5 if quick else 6), exhaustive=True)
    items = []
    seen = set()
    for n in range(1, (5 if quick else 6) + 1):
        for nsd, usable in namespace_variants(n):
            if tuple(usable) in seen:
                continue
            seen.add(tuple(usable))
            for rooted in (True, False):
                for how in ("leafset", "bitmask"):
                    items.append({"labels": list(usable), "rooted": rooted, "how": how})
    for item, (key, n, fails, n_eval) in zip(items, pmap(_w_pred, items, chunksize=1)):
        for i in range(n_eval):
            ctx.case(sc, (key, i), nontrivial=n >= 4, sample=key)
        for mon, w, detail in fails:
            wk = key + " " + " ".join("%s=%s" % (k, bin(v)) for k, v in sorted(w.items()))
            rep.fail(mon, {"key": wk, "kind": "pred", "item": item, "masks": w}, detail=detail)

    sc = "encode@re-added-taxa"
    ctx.scope(sc, rule="shapes with 3..4 leaves x {rooted, unrooted} x every non-empty set of <= 2 taxa removed from the namespace and added back (same Taxon objects) "
                       "after their bit masks were cached by a first encoding; non-trivial = all", exhaustive=True)
    items = []
    for n in (3, 4):
        for shape in shapes_exact(n):
            for r in (1, 2):
                for readd in itertools.combinations(range(n), r):
                    for rooted in (True, False):
                        items.append({"n": n, "readd": list(readd), "rooted": rooted, "shape": lst(shape)})
                        if len(readd) == 1:
                            items.append({"n": n, "readd": list(readd), "rooted": rooted, "shape": lst(shape), "via": "clear"})
    for item, (key, n, fails) in zip(items, pmap(_w_readded, items, chunksize=8)):
        ctx.case(sc, key, nontrivial=True, sample=key)
        for mon, detail in fails:
            rep.fail(mon, {"key": key, "kind": "readded", "item": item}, detail=detail)

    sc = "tree_compat@trees x subsets"
    ctx.scope(sc, rule="shapes with <= %d leaves (+ the first 4 unifurcation variants for <= 4) x 4 namespace variants (1 for 6 leaves) x {rooted, unrooted} x "
                       "is_bipartitions_updated in {False, True after encoding, default after encoding and an exchange of two leaf taxa} x every subset of the leaf set as a bipartition; "
                       "non-trivial = >= 4 leaves" % (5 if quick else 6), exhaustive=True)
    items = []
    for n in range(1, (5 if quick else 6) + 1):
        for shape in shapes_exact(n):
            vs = [shape] + (unifurcation_variants(shape)[:4] if n <= 4 else [])
            for v in vs:
                for vi, (nsd, usable) in enumerate(namespace_variants(n)):
                    if vi not in (0, 3, 5, 6):
                        continue
                    if n == 6 and vi != 3:
                        continue
                    for rooted in (True, False):
                        for upd in (False, True, "stale"):
                            if upd == "stale" and (vi != 0 or n < 3):
                                continue
                            items.append({"spec": {"shape": lst(v), "leaves": list(usable), "rooted": rooted, "lens": None, "ns": nsd},
                                          "updated": upd})
    for item, (key, n, fails, n_eval) in zip(items, pmap(_w_tcompat, items, chunksize=8)):
        for i in range(n_eval):
            ctx.case(sc, (key, i), nontrivial=n >= 4, sample=key)
        for mon, w, detail in fails:
            rep.fail(mon, {"key": key + " m=" + bin(w["m"]), "kind": "tcompat", "item": item, "m": w["m"]}, detail=detail)


    rep.close()


def replay(ctx, rec):
    w = rec["witness"]
    name = rec["obligation"]
    kind = w["kind"]
    if kind == "encode":
        fails = eval_encode(w["item"])
        for f in fails:
            print("  ", f)
        return not fails
    if kind == "readded":
        fails = eval_readded(w["item"])
        for f in fails:
            print("  ", f)
        return not fails
    if kind == "reencode":
        fails = eval_reencode(w["item"])
        for f in fails:
            print("  ", f)
        return not fails
    if kind == "iff":
        fails = eval_iff_pair(w)
        for f in fails:
            print("  ", f)
        return not fails
    if kind == "rebuild":
        results, _ = eval_rebuild(w["item"], orders=[w["order"]])
        bad = [f for o, fs in results for f in fs]
        for f in bad:
            print("  ", f)
        return not bad
    if kind == "pred":
        fails, _ = eval_predicates(w["item"])
        mine = [f for f in fails if f[1] == w["masks"]]
        for f in mine:
            print("  ", f)
        return not mine
    if kind == "tcompat":
        it = dict(w["item"])
        it["m"] = w["m"]
        fails, _ = eval_tree_compat(it)
        for f in fails:
            print("  ", f)
        return not fails
    raise ValueError("unknown witness kind %r" % kind)
