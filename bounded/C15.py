"""C15 -- every traversal visits each node or edge exactly once in its defining order.

Bounded stand-in (T2).  Scope: EVERY ordered rooted tree with <= N nodes (N = 9
quick, 11 thorough; single node, unifurcations anywhere including the root, wide
polytomies are all in there), x every start node, x 7 filter predicates, x every
iterator of Node and Tree (and every value of their boolean options), compared with
the recursive reference definitions of /verif/specs/traversal.py.  A seeded sample
of larger random trees (wide polytomies, long unifurcation chains) is added as a
second, non-exhaustive scope.

What the oracles demand (exactly the statement):
  pre-order / post-order / leaves / in-order (binary subtrees only): the one defining
      sequence; filtered variants: its subsequence passing the filter;
  level-order: every (passing) node exactly once and depth non-decreasing (order
      inside a level is not constrained by the statement);
  age-order: every (passing, leaf-including-or-not) node exactly once and `age`
      monotone (ties in any order);
  internal variants: the non-leaves, the parentless seed dropped when asked;
  edge iterators: `[n.edge for n in node counterpart]` with the filter applied to the
      edge, same order, compared with the *actual* output of the node iterator and
      with the reference;
  len(tree) = number of leaves; Tree.nodes()/edges()/leaf_nodes()/internal_nodes()/
      leaf_edges()/internal_edges() = the lists of the corresponding iterators;
  apply: the trace of (before, leaf, after) calls equals the bracket word of the
      subtree, for every subset of supplied callbacks, and spells the Newick skeleton.

Deliberately left out: in-order on non-binary subtrees (the statement says "on binary
trees"; DendroPy raises TypeError there), falsy callables as `filter_fn` and Node
subclasses with falsy instances (`if filter_fn:` / `x and ...` in the internal-node
lambdas treat them as absent; exotic, reported in the notes only), Node.ageorder_iter
on nodes whose `age` is None (not defined by the statement).

Failures are de-duplicated: per monitor only the 3 smallest witnesses are reported
(the total count goes to the notes)."""
import itertools
import sys

from bounded.common import *  # noqa
from specs import trees as S
from specs import traversal as T

from dendropy.utility import deprecate as _deprecate

sys.setrecursionlimit(10000)

MAX_REPORT = 3

# ----------------------------------------------------------------------------- filters
# name -> predicate on (index, node); the value handed to DendroPy is built per tree
FILTERS = ["nofilter", "true", "none", "leaves", "internal", "odd", "even3"]


def _pred(name):
    if name in ("nofilter", "true"):
        return lambda i, n: True
    if name == "none":
        return lambda i, n: False
    if name == "leaves":
        return lambda i, n: not n._child_nodes
    if name == "internal":
        return lambda i, n: bool(n._child_nodes)
    if name == "odd":
        return lambda i, n: i % 2  # int-valued on purpose: "passes" = truthy
    if name == "even3":
        return lambda i, n: i % 3 == 0
    raise KeyError(name)


# ----------------------------------------------------------------------------- shapes
def shape_to_json(s):
    return [shape_to_json(c) for c in s]


def shape_from_json(j):
    return tuple(shape_from_json(c) for c in j)


def shape_key(s):
    """canonical string: Newick skeleton with every node named by its pre-order index"""
    cnt = [0]

    def rec(x):
        i = cnt[0]
        cnt[0] += 1
        if not x:
            return str(i)
        return "(" + ",".join(rec(c) for c in x) + ")" + str(i)

    return rec(s)


def build(shape):
    """Tree through the Node API; node.label = pre-order index (string)"""
    nleaf = n_leaves(shape)
    ns = TaxonNamespace(["T%d" % i for i in range(nleaf)])
    t = build_tree(shape, ns=ns)
    nodes = S.pre(t._seed_node)
    for i, nd in enumerate(nodes):
        nd.label = str(i)
    return t, nodes


class _Hang(Exception):
    pass


# ----------------------------------------------------------------------------- one tree
class TreeCheck(object):
    def __init__(self, shape, starts=None, only=None):
        self.shape = shape
        self.skey = shape_key(shape)
        self.tree, self.nodes = build(shape)
        self.index = dict((id(n), i) for i, n in enumerate(self.nodes))
        self.eindex = dict((id(n._edge), i) for i, n in enumerate(self.nodes))
        self.n = len(self.nodes)
        self.limit = 4 * self.n + 8
        self.calls = {}      # kind -> number of real calls
        self.fails = []      # (monitor, key, detail, extra)
        self.current = None
        self.starts = starts
        self.only = only

    # -- helpers
    def ids(self, seq):
        out = []
        for x in seq:
            if id(x) in self.index:
                out.append(self.index[id(x)])
            elif id(x) in self.eindex:
                out.append("e%d" % self.eindex[id(x)])
            else:
                out.append("?%s" % type(x).__name__)
        return out

    def fail(self, monitor, kind, start, flt, opts, detail):
        key = "%s|tree=%s|start=%d|filter=%s|%s" % (kind, self.skey, start, flt, opts)
        self.fails.append((monitor, key, detail,
                           dict(kind=kind, start=start, filter=flt, opts=opts)))

    def take(self, kind, start, flt, opts, thunk, allow=()):
        """run a real call, return the list it yields, or None after recording a failure;
        returns the exception instance if it is of an allowed type"""
        self.calls[kind] = self.calls.get(kind, 0) + 1
        self.current = (kind, start, flt, opts)
        try:
            it = thunk()
            out = list(itertools.islice(iter(it), self.limit + 1))
        except Timeout:
            raise
        except allow as e:
            return e
        except Exception as e:
            self.fail(kind + ".raises", kind, start, flt, opts, "%s: %s" % (type(e).__name__, e))
            return None
        if len(out) > self.limit:
            self.fail(kind + ".exactly_once", kind, start, flt, opts,
                      "yields more than %d items on a tree with %d nodes" % (self.limit, self.n))
            return None
        return out

    def node_filter(self, name):
        if name == "nofilter":
            return None
        p = _pred(name)
        index = self.index
        return lambda nd: p(index[id(nd)], nd)

    def edge_filter(self, name):
        if name == "nofilter":
            return None
        p = _pred(name)
        eindex = self.eindex
        nodes = self.nodes
        return lambda e: p(eindex[id(e)], nodes[eindex[id(e)]])

    def passing(self, name, seq):
        p = _pred(name)
        index = self.index
        return [x for x in seq if p(index[id(x)], x)]

    def expect_seq(self, monitor, kind, start, flt, opts, got, want, what):
        if got is None:
            return
        if len(got) != len(want) or any(a is not b for a, b in zip(got, want)):
            self.fail(monitor, kind, start, flt, opts,
                      "%s: got %s, required %s" % (what, self.ids(got), self.ids(want)))

    def expect_perm_monotone(self, monitor, kind, start, flt, opts, got, want, keyfn, descending, what):
        if got is None:
            return
        if not T.is_permutation_of(got, want):
            self.fail(monitor + ".exactly_once", kind, start, flt, opts,
                      "%s: got %s, required each of %s exactly once" % (what, self.ids(got), self.ids(want)))
            return
        vals = [keyfn(x) for x in got]
        if not T.monotone(vals, descending):
            self.fail(monitor + ".order", kind, start, flt, opts,
                      "%s: %s along %s is not monotone" % (what, vals, self.ids(got)))

    # -- the checks
    def run(self):
        with time_limit(60):
            try:
                self._run()
            except Timeout:
                kind, start, flt, opts = self.current or ("?", 0, "?", "")
                self.fail(kind + ".terminates", kind, start, flt, opts, "no result within 60 s (whole tree budget)")
        return self

    def want(self, kind):
        return self.only is None or kind == self.only

    def _run(self):
        tree = self.tree
        seed = tree._seed_node
        # ---- age order through Tree.ageorder_node_iter with ages still unset: the tree
        # computes them itself (ultrametric integer lengths: length = height(parent) - height(node))
        if self.want("Tree.ageorder_node_iter[ages-unset]"):
            for nd in self.nodes:
                if nd._parent_node is not None:
                    nd._edge.length = float(T.height(nd._parent_node) - T.height(nd))
            for incl in (True, False):
                for desc in (False, True):
                    for nd in self.nodes:
                        nd.age = None
                    opts = "include_leaves=%d,descending=%d" % (incl, desc)
                    kind = "Tree.ageorder_node_iter[ages-unset]"
                    got = self.take(kind, 0, "nofilter", opts,
                                    lambda: tree.ageorder_node_iter(include_leaves=incl, descending=desc))
                    want = [x for x in self.nodes if incl or x._child_nodes]
                    if got is not None and any(x.age is None for x in got):
                        self.fail(kind + ".raises", kind, 0, "nofilter", opts, "yielded a node whose age is None")
                    else:
                        self.expect_perm_monotone(kind, kind, 0, "nofilter", opts, got, want,
                                                  lambda x: x.age, desc, "age order")
            for nd in self.nodes:
                nd._edge.length = None
        # explicit ages with ties, unrelated to the shape (the iterator is defined on the attribute)
        for i, nd in enumerate(self.nodes):
            nd.age = float((i * 3) % 4)

        starts = range(self.n) if self.starts is None else self.starts
        for si in starts:
            s = self.nodes[si]
            self._node_level(si, s)
        self._tree_level()

    def _node_level(self, si, s):
        w = self.want
        pre, post, lvs = T.pre(s), T.post(s), T.leaves(s)
        binary = T.is_binary(s)
        ino = T.inorder(s) if binary else None
        kids = list(s._child_nodes)
        for flt in FILTERS:
            f = self.node_filter(flt)
            ef = self.edge_filter(flt)
            P = lambda seq: self.passing(flt, seq)
            if w("Node.preorder_iter"):
                got = self.take("Node.preorder_iter", si, flt, "", lambda: s.preorder_iter(f))
                self.expect_seq("Node.preorder_iter.order", "Node.preorder_iter", si, flt, "", got, P(pre), "pre-order")
            if w("Node.postorder_iter"):
                got = self.take("Node.postorder_iter", si, flt, "", lambda: s.postorder_iter(filter_fn=f))
                self.expect_seq("Node.postorder_iter.order", "Node.postorder_iter", si, flt, "", got, P(post), "post-order")
            if w("Node.levelorder_iter"):
                got = self.take("Node.levelorder_iter", si, flt, "", lambda: s.levelorder_iter(f))
                self.expect_perm_monotone("Node.levelorder_iter", "Node.levelorder_iter", si, flt, "", got, P(pre),
                                          lambda x: T.depth_below(s, x), False, "level-order depth")
            if w("Node.level_order_iter"):
                got = self.take("Node.level_order_iter", si, flt, "", lambda: s.level_order_iter(f))
                self.expect_perm_monotone("Node.level_order_iter", "Node.level_order_iter", si, flt, "", got, P(pre),
                                          lambda x: T.depth_below(s, x), False, "level-order depth")
            if binary and w("Node.inorder_iter"):
                got = self.take("Node.inorder_iter", si, flt, "", lambda: s.inorder_iter(f))
                self.expect_seq("Node.inorder_iter.order", "Node.inorder_iter", si, flt, "", got, P(ino), "in-order")
            if w("Node.leaf_iter"):
                got = self.take("Node.leaf_iter", si, flt, "", lambda: s.leaf_iter(f))
                self.expect_seq("Node.leaf_iter.order", "Node.leaf_iter", si, flt, "", got, P(lvs), "leaves left to right")
            for excl in (False, True):
                opts = "exclude_seed_node=%d" % excl
                if w("Node.preorder_internal_node_iter"):
                    got = self.take("Node.preorder_internal_node_iter", si, flt, opts,
                                    lambda: s.preorder_internal_node_iter(filter_fn=f, exclude_seed_node=excl))
                    self.expect_seq("Node.preorder_internal_node_iter.order", "Node.preorder_internal_node_iter", si, flt,
                                    opts, got, P(T.internal(pre, excl)), "internal pre-order")
                if w("Node.postorder_internal_node_iter"):
                    got = self.take("Node.postorder_internal_node_iter", si, flt, opts,
                                    lambda: s.postorder_internal_node_iter(filter_fn=f, exclude_seed_node=excl))
                    self.expect_seq("Node.postorder_internal_node_iter.order", "Node.postorder_internal_node_iter", si,
                                    flt, opts, got, P(T.internal(post, excl)), "internal post-order")
            if w("Node.child_node_iter"):
                got = self.take("Node.child_node_iter", si, flt, "", lambda: s.child_node_iter(f))
                self.expect_seq("Node.child_node_iter.order", "Node.child_node_iter", si, flt, "", got, P(kids), "children")
            if w("Node.child_edge_iter"):
                got = self.take("Node.child_edge_iter", si, flt, "", lambda: s.child_edge_iter(ef))
                self.expect_seq("Node.child_edge_iter.order", "Node.child_edge_iter", si, flt, "", got,
                                [c._edge for c in P(kids)], "child edges")
            for incl in (False, True):
                opts = "inclusive=%d" % incl
                if w("Node.ancestor_iter"):
                    got = self.take("Node.ancestor_iter", si, flt, opts, lambda: s.ancestor_iter(filter_fn=f, inclusive=incl))
                    self.expect_seq("Node.ancestor_iter.order", "Node.ancestor_iter", si, flt, opts, got,
                                    P(T.ancestors(s, incl)), "ancestors")
            for incl in (True, False):
                for desc in (False, True):
                    opts = "include_leaves=%d,descending=%d" % (incl, desc)
                    want = P([x for x in pre if incl or x._child_nodes])
                    if w("Node.ageorder_iter"):
                        got = self.take("Node.ageorder_iter", si, flt, opts,
                                        lambda: s.ageorder_iter(filter_fn=f, include_leaves=incl, descending=desc))
                        self.expect_perm_monotone("Node.ageorder_iter", "Node.ageorder_iter", si, flt, opts, got, want,
                                                  lambda x: x.age, desc, "age order")
                    if w("Node.age_order_iter"):
                        got = self.take("Node.age_order_iter", si, flt, opts,
                                        lambda: s.age_order_iter(include_leaves=incl, filter_fn=f, descending=desc))
                        self.expect_perm_monotone("Node.age_order_iter", "Node.age_order_iter", si, flt, opts, got, want,
                                                  lambda x: x.age, desc, "age order")
        # unfiltered-only members
        if w("Node.__iter__"):
            got = self.take("Node.__iter__", si, "nofilter", "", lambda: iter(s))
            self.expect_seq("Node.__iter__.order", "Node.__iter__", si, "nofilter", "", got, pre, "pre-order")
        if w("Node.leaf_nodes"):
            got = self.take("Node.leaf_nodes", si, "nofilter", "", lambda: s.leaf_nodes())
            self.expect_seq("Node.leaf_nodes.order", "Node.leaf_nodes", si, "nofilter", "", got, lvs, "leaves left to right")
        if w("Node.apply"):
            self._apply("Node.apply", si, s, lambda b, a, l: s.apply(before_fn=b, after_fn=a, leaf_fn=l))

    def _apply(self, kind, si, s, call):
        spec = T.apply_trace(s)
        for mask in (7, 6, 5, 4, 3, 2, 1, 0):
            use_b, use_a, use_l = bool(mask & 1), bool(mask & 2), bool(mask & 4)
            trace = []
            limit = self.limit

            def cb(k, trace=trace):
                def fn(x):
                    if len(trace) > limit:
                        raise _Hang("more than %d callbacks on a tree with %d nodes" % (limit, self.n))
                    trace.append((k, x))
                return fn

            b = cb("b") if use_b else None
            a = cb("a") if use_a else None
            l = cb("l") if use_l else None
            opts = "before=%d,after=%d,leaf=%d" % (use_b, use_a, use_l)

            def guarded():
                call(b, a, l)
                return []

            r = self.take(kind, si, "nofilter", opts, guarded)
            if r is None:
                continue
            want = [(k, x) for (k, x) in spec
                    if (k == "b" and use_b) or (k == "a" and use_a) or (k == "l" and use_l)]
            ok = len(trace) == len(want) and all(k1 == k2 and x1 is x2 for (k1, x1), (k2, x2) in zip(trace, want))
            if not ok:
                # the start node being the seed or not separates two different clauses
                # (Node.apply on a proper subtree climbs above its start node)
                monitor = kind + (".brackets" if s._parent_node is None else ".brackets_subtree_start")
                self.fail(monitor, kind, si, "nofilter", opts,
                          "callback trace %s, required %s" % (
                              ["%s%s" % (k, self.index.get(id(x), "?")) for k, x in trace[:limit]],
                              ["%s%d" % (k, self.index[id(x)]) for k, x in want]))
            elif mask == 7:
                name = lambda x: x.label
                if T.skeleton(trace, name) != T.newick_skeleton(s, name):
                    self.fail(kind + ".newick_skeleton", kind, si, "nofilter", opts,
                              "trace spells %r, subtree is %r" % (T.skeleton(trace, name), T.newick_skeleton(s, name)))

    def _tree_level(self):
        w = self.want
        tree = self.tree
        seed = tree._seed_node
        si = 0
        pre, post, lvs = T.pre(seed), T.post(seed), T.leaves(seed)
        binary = T.is_binary(seed)
        ino = T.inorder(seed) if binary else None
        E = lambda seq: [x._edge for x in seq]
        depth = lambda x: T.depth_below(seed, x)
        for flt in FILTERS:
            f = self.node_filter(flt)
            ef = self.edge_filter(flt)
            P = lambda seq: self.passing(flt, seq)

            def pair(nkind, ekind, ncall, ecall, want, opts="", strict=True, keyfn=None, what=""):
                """node iterator vs reference; edge iterator vs reference AND vs the actual node output"""
                gotn = None
                if w(nkind) or (ekind and w(ekind)):
                    gotn = self.take(nkind, si, flt, opts, ncall)
                    if strict:
                        self.expect_seq(nkind + ".order", nkind, si, flt, opts, gotn, want, what)
                    else:
                        self.expect_perm_monotone(nkind, nkind, si, flt, opts, gotn, want, keyfn, False, what)
                if ekind and w(ekind):
                    gote = self.take(ekind, si, flt, opts, ecall)
                    if gote is None:
                        return
                    if strict:
                        self.expect_seq(ekind + ".order", ekind, si, flt, opts, gote, E(want), what + " (edges)")
                    else:
                        heads = [getattr(e, "_head_node", None) for e in gote]
                        if any(h is None or h._edge is not e for h, e in zip(heads, gote)):
                            self.fail(ekind + ".exactly_once", ekind, si, flt, opts, "yields objects that are not edges of the tree")
                            return
                        self.expect_perm_monotone(ekind, ekind, si, flt, opts, heads, want, keyfn, False, what + " (edges)")
                    if gotn is not None:
                        self.expect_seq(ekind + ".matches_node_iter", ekind, si, flt, opts, gote, E(gotn),
                                        "edges of the nodes the node iterator yields")

            pair("Tree.preorder_node_iter", "Tree.preorder_edge_iter",
                 lambda: tree.preorder_node_iter(f), lambda: tree.preorder_edge_iter(ef), P(pre), what="pre-order")
            pair("Tree.postorder_node_iter", "Tree.postorder_edge_iter",
                 lambda: tree.postorder_node_iter(f), lambda: tree.postorder_edge_iter(ef), P(post), what="post-order")
            pair("Tree.levelorder_node_iter", "Tree.levelorder_edge_iter",
                 lambda: tree.levelorder_node_iter(f), lambda: tree.levelorder_edge_iter(ef), P(pre),
                 strict=False, keyfn=depth, what="level-order depth")
            pair("Tree.level_order_node_iter", "Tree.level_order_edge_iter",
                 lambda: tree.level_order_node_iter(f), lambda: tree.level_order_edge_iter(ef), P(pre),
                 strict=False, keyfn=depth, what="level-order depth")
            if binary:
                pair("Tree.inorder_node_iter", "Tree.inorder_edge_iter",
                     lambda: tree.inorder_node_iter(f), lambda: tree.inorder_edge_iter(ef), P(ino), what="in-order")
            pair("Tree.leaf_node_iter", "Tree.leaf_edge_iter",
                 lambda: tree.leaf_node_iter(f), lambda: tree.leaf_edge_iter(ef), P(lvs), what="leaves left to right")
            pair("Tree.leaf_iter", None, lambda: tree.leaf_iter(f), None, P(lvs), what="leaves left to right")
            for excl in (False, True):
                pair("Tree.preorder_internal_node_iter", "Tree.preorder_internal_edge_iter",
                     lambda: tree.preorder_internal_node_iter(filter_fn=f, exclude_seed_node=excl),
                     lambda: tree.preorder_internal_edge_iter(filter_fn=ef, exclude_seed_edge=excl),
                     P(T.internal(pre, excl)), opts="exclude_seed=%d" % excl, what="internal pre-order")
                pair("Tree.postorder_internal_node_iter", "Tree.postorder_internal_edge_iter",
                     lambda: tree.postorder_internal_node_iter(filter_fn=f, exclude_seed_node=excl),
                     lambda: tree.postorder_internal_edge_iter(filter_fn=ef, exclude_seed_edge=excl),
                     P(T.internal(post, excl)), opts="exclude_seed=%d" % excl, what="internal post-order")
            pair("Tree.nodes", "Tree.edges", lambda: tree.nodes(f), lambda: tree.edges(ef), P(pre), what="pre-order list")
            for incl in (True, False):
                for desc in (False, True):
                    opts = "include_leaves=%d,descending=%d" % (incl, desc)
                    want = P([x for x in pre if incl or x._child_nodes])
                    for kind, call in (
                        ("Tree.ageorder_node_iter",
                         lambda: tree.ageorder_node_iter(include_leaves=incl, filter_fn=f, descending=desc)),
                        ("Tree.age_order_node_iter",
                         lambda: tree.age_order_node_iter(include_leaves=incl, filter_fn=f, descending=desc)),
                    ):
                        if w(kind):
                            got = self.take(kind, si, flt, opts, call)
                            self.expect_perm_monotone(kind, kind, si, flt, opts, got, want, lambda x: x.age, desc, "age order")
        flt = "nofilter"
        if w("Tree.__iter__"):
            got = self.take("Tree.__iter__", si, flt, "", lambda: iter(tree))
            self.expect_seq("Tree.__iter__.order", "Tree.__iter__", si, flt, "", got, pre, "pre-order")
        if w("Tree.leaf_nodes"):
            got = self.take("Tree.leaf_nodes", si, flt, "", lambda: tree.leaf_nodes())
            self.expect_seq("Tree.leaf_nodes.order", "Tree.leaf_nodes", si, flt, "", got, lvs, "leaves left to right")
        if w("Tree.leaf_edges"):
            got = self.take("Tree.leaf_edges", si, flt, "", lambda: tree.leaf_edges())
            self.expect_seq("Tree.leaf_edges.order", "Tree.leaf_edges", si, flt, "", got, E(lvs), "leaf edges left to right")
        for excl in (False, True):
            if w("Tree.internal_nodes"):
                got = self.take("Tree.internal_nodes", si, flt, "exclude_seed=%d" % excl,
                                lambda: tree.internal_nodes(exclude_seed_node=excl))
                self.expect_seq("Tree.internal_nodes.order", "Tree.internal_nodes", si, flt, "exclude_seed=%d" % excl, got,
                                T.internal(pre, excl), "internal nodes")
            if w("Tree.internal_edges"):
                got = self.take("Tree.internal_edges", si, flt, "exclude_seed=%d" % excl,
                                lambda: tree.internal_edges(exclude_seed_edge=excl))
                self.expect_seq("Tree.internal_edges.order", "Tree.internal_edges", si, flt, "exclude_seed=%d" % excl, got,
                                E(T.internal(pre, excl)), "internal edges")
        if w("Tree.__len__"):
            got = self.take("Tree.__len__", si, flt, "", lambda: [len(tree)])
            if got is not None and got[0] != len(lvs):
                self.fail("Tree.__len__.leaf_count", "Tree.__len__", si, flt, "", "len(tree) = %r, the tree has %d leaves" % (got[0], len(lvs)))
            # ... also when a (now stale) bipartition encoding is stored on the tree and when leaves carry no taxon
            t2, _ = build(self.shape)
            got2 = self.take("Tree.__len__", si, flt, "encoded-then-edited", lambda: self._len_after_edit(t2))
            if got2 is not None and got2[0] != got2[1]:
                self.fail("Tree.__len__.leaf_count", "Tree.__len__", si, flt, "encoded-then-edited",
                          "after encode_bipartitions() and two taxon-less children added below the first leaf: len(tree) = %r, the tree has %d leaves" % (got2[0], got2[1]))
        if w("Tree.apply"):
            self._apply("Tree.apply", si, seed, lambda b, a, l: tree.apply(before_fn=b, after_fn=a, leaf_fn=l))

    @staticmethod
    def _len_after_edit(t2):
        t2.encode_bipartitions(suppress_unifurcations=False, collapse_unrooted_basal_bifurcation=False)
        first = S.leaves(t2._seed_node)[0]
        first.new_child()
        first.new_child()
        return [len(t2), len(S.leaves(t2._seed_node))]


# ----------------------------------------------------------------------------- driver
def _worker(shape):
    tc = TreeCheck(shape).run()
    per_monitor = {}
    fails = []
    for f in tc.fails:
        k = per_monitor.get(f[0], 0)
        per_monitor[f[0]] = k + 1
        if k < MAX_REPORT:
            fails.append(f)
    return dict(skey=tc.skey, n=tc.n, calls=tc.calls, fails=fails, nfails=per_monitor, shape=shape_to_json(shape))


def random_shape(rng, n_nodes_, p_wide):
    """random ordered tree with n nodes: each new node is attached to a random earlier
    node (p_wide: to the root, giving a wide polytomy; else preferring recent nodes,
    giving chains)"""
    children = [[]]
    for i in range(1, n_nodes_):
        r = rng.random()
        if r < p_wide:
            par = 0
        elif r < p_wide + 0.4:
            par = i - 1
        else:
            par = rng.randrange(i)
        children[par].append(i)
        children.append([])

    def mk(i):
        return tuple(mk(c) for c in children[i])

    return mk(0)


def _collect(ctx, sc, results, totals):
    for r in results:
        nontriv = r["n"] >= 3
        for kind, ncalls in sorted(r["calls"].items()):
            ctx.case(sc, key="%s|%s" % (kind, r["skey"]), nontrivial=nontriv,
                     sample={"iterator": kind, "tree": r["skey"], "calls": ncalls})
            totals["calls"] += ncalls
        for mon, cnt in r["nfails"].items():
            totals["fails"][mon] = totals["fails"].get(mon, 0) + cnt
        for (mon, key, detail, extra) in r["fails"]:
            totals["cand"].setdefault(mon, []).append((r["n"], len(key), key, detail, extra, r["shape"]))


def _report(ctx, totals):
    for mon in sorted(totals["cand"]):
        cands = sorted(totals["cand"][mon], key=lambda c: (c[0], c[1]))  # stable: discovery order breaks ties
        for (n, _, key, detail, extra, shape) in cands[:MAX_REPORT]:
            w = {"key": key, "shape": shape}
            w.update(extra)
            ctx.fail(mon, w, detail=detail)
        ctx.note("%s: %d failing evaluations in total (%d reported)" % (mon, totals["fails"][mon], min(MAX_REPORT, len(cands))))


def t2(ctx):
    _deprecate.configure_deprecation_warning_behavior("ignore")
    nmax = 9 if ctx.tier == "quick" else 11
    totals = dict(calls=0, fails={}, cand={})

    sc = "traversals@all-trees<=%d" % nmax
    ctx.scope(sc, rule="every ordered rooted tree with <= %d nodes (single node, unifurcations, polytomies) x every start "
                       "node x 7 filters x every Node/Tree iterator and option value; one evaluation = one (tree, iterator "
                       "kind) with all its start nodes, filters and options; non-trivial = trees with >= 3 nodes" % nmax,
              exhaustive=True)
    shapes = []
    for k in range(1, nmax + 1):
        shapes.extend(all_ordered_trees(k))
    _collect(ctx, sc, pmap(_worker, shapes, chunksize=16), totals)

    sc2 = "traversals@random-large"
    nrand = 60 if ctx.tier == "quick" else 400
    ctx.scope(sc2, rule="%d seeded random ordered trees with 15..45 nodes (wide polytomies up to ~20 children, unifurcation "
                        "chains) x every start node x 7 filters x every iterator; non-trivial = all" % nrand,
              exhaustive=False)
    rng = rng_for(ctx, 15)
    rshapes = []
    for i in range(nrand):
        nn = rng.randrange(15, 46)
        rshapes.append(random_shape(rng, nn, [0.0, 0.3, 0.6][i % 3]))
    _collect(ctx, sc2, pmap(_worker, rshapes, chunksize=2), totals)

    ctx.note("real iterator/apply calls made: %d" % totals["calls"])
    _report(ctx, totals)


def replay(ctx, rec):
    _deprecate.configure_deprecation_warning_behavior("ignore")
    w = rec["witness"]
    shape = shape_from_json(w["shape"])
    tc = TreeCheck(shape, starts=[w["start"]], only=w["kind"]).run()
    hit = [f for f in tc.fails if f[0] == rec["obligation"] and f[1] == w["key"]]
    for f in hit[:1]:
        print("  %s :: %s" % (f[1], f[2]))
    return not hit
