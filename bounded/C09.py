"""C09 (T2) -- character matrices survive a round trip through NEXUS, PHYLIP, FASTA and NeXML.

One evaluation: build a matrix of one data type through one construction route, write it with the real
`as_string(schema, **writer options)`, read it back with `<Type>CharacterMatrix.get(data=..., schema, **reader
options)` and compare the canonical dumps (specs.charformats.rowdump: taxa that carry a sequence, in namespace order,
each with its cells -- state symbols, symbol-less multistates by kind + fundamental symbols, floats by ==).

Monitors: "<target variant>.<clause>", target variant in
  nexus, nexus-simple, nexus-preserve_spaces, nexus-unquoted_underscores,
  phylip-relaxed[-multispace][-interleaved-reader], phylip-strict[-interleaved-reader], phylip-relaxed-underscores,
  fasta, fasta-nowrap, nexml-cells, nexml-seqs, dataset-nexus[-titles=False], dataset-nexml
clauses: .raises (writer or reader raised), .type, .rows (taxa, their order, or a sequence differ), .namespaces /
.attachment (data sets: number of namespaces and their labels in order; namespace of every matrix/tree list; contents).

Formats x data types taken as "supported" (from the readers' documented data_type lists and the writers' own type
tables): NEXUS: dna rna nucleotide protein standard continuous (restriction/infinite are written as STANDARD, so
"read back as the same data type" is not offered); PHYLIP: all eight; FASTA: the seven discrete types; NeXML: dna rna
protein restriction standard continuous (the writer rejects the other two).
Format-forced restrictions of the inputs (not oracle exceptions): NEXUS and PHYLIP need rectangular matrices with >= 1
column; FASTA needs non-empty sequences; PHYLIP-relaxed labels contain no blank (single blanks with the documented
multispace_delimiter reader option), PHYLIP-strict labels are <= 10 characters; hand-written sources use plain labels.
Construction routes: from_dict; parsed from hand-written NEXUS (sequential, interleaved, DATA block, multistate
tokens), PHYLIP (relaxed/strict x sequential multi-line/interleaved), FASTA (wrapped or not), NeXML (cells/seqs with
shared column definitions); concatenate; export_character_indices; export_character_subset.
Label rule (as for trees, C02): non-empty, no leading/trailing blank, distinct up to case; punctuation, quotes,
brackets, underscores, blanks are exercised for NEXUS (all option pairs) and FASTA; for NeXML only labels that are
XML-attribute-safe ASCII (the NeXML label escaping belongs to C02's label clause and is left there).
Data sets: 1-3 namespaces (labelled, unlabelled, equal labels, overlapping taxon labels, one unreferenced) with DNA /
standard / continuous matrices and tree lists, written to NEXUS under suppress_block_titles in {default, False} -- the
two settings documented to keep TITLE/LINK when needed -- and to NeXML, read back with DataSet.get.
Not covered: the dendropy-format CLI; matrices with per-cell character types from foreign NeXML; annotations."""
import itertools
import json

from bounded.common import time_limit, Timeout, pmap, rng_for
from specs import charformats as F
from specs import trees as S

import dendropy
from dendropy.datamodel import charmatrixmodel as _cmm

POOL = {
    "dna": "ACGTNRYMWSKVHDB-?",
    "rna": "ACGUNRYMWSKVHDB-?",
    "nucleotide": "ACGTUNRYMWSKVHDB-?",
    "protein": "ACDEFGHIKLMNPQRSTVWY*BZX-?",
    "standard": "0123456789-?",
    "restriction": "10",
    "infinite": "10",
    "continuous": None,
}
CLS = {"dna": "DnaCharacterMatrix", "rna": "RnaCharacterMatrix", "nucleotide": "NucleotideCharacterMatrix", "protein": "ProteinCharacterMatrix",
       "standard": "StandardCharacterMatrix", "restriction": "RestrictionSitesCharacterMatrix", "infinite": "InfiniteSitesCharacterMatrix",
       "continuous": "ContinuousCharacterMatrix"}
CONT = [0.0, 1.5, -2.25, 0.001, 3.0, 100.0, -0.5, 7.0, 1e-07, 12345678.9, -1e+20, 0.1]
SUPPORT = {
    "nexus": ("dna", "rna", "nucleotide", "protein", "standard", "continuous"),
    "phylip": tuple(POOL),
    "fasta": tuple(t for t in POOL if t != "continuous"),
    "nexml": ("dna", "rna", "protein", "restriction", "standard", "continuous"),
}
PLAIN = ["t1", "Bb", "c3", "Dd4", "e"]


def cls_of(tp):
    return getattr(_cmm, CLS[tp])


# ----------------------------------------------------------------------------- contents
def content(tp, dim, salt=0):
    """rows of tokens for a named dimension class"""
    pool = POOL[tp]

    def cell(i, j):
        if pool is None:
            return CONT[(salt + i * 5 + j * 7) % len(CONT)]
        return pool[(salt + i * 5 + j * 3) % len(pool)]
    if dim == "1x1":
        n, w = 1, 1
    elif dim == "1xN":
        n, w = 1, 5
    elif dim == "Nx1":
        n, w = 3, 1
    elif dim == "3x4":
        n, w = 3, 4
    elif dim == "full":
        k = len(pool) if pool else len(CONT)
        seq = list(pool) if pool else list(CONT)
        return [seq, seq[::-1]]
    elif dim == "2x75":
        n, w = 2, 75
    elif dim in ("2x70", "2x140", "2x69", "2x71"):
        # writers wrap rows at a fixed width (FASTA: 70): exact multiples and the widths next to them
        n, w = 2, int(dim[2:])
    else:
        raise ValueError(dim)
    return [[cell(i, j) for j in range(w)] for i in range(n)]


DIMS = ["1x1", "1xN", "Nx1", "3x4", "full", "2x75", "2x70", "2x140", "2x69", "2x71"]


def _join(tp, row):
    return row if tp == "continuous" else "".join(row)


# ----------------------------------------------------------------------------- construction routes
def build(job):
    tp, route = job["type"], job["route"]
    labels, rows = job["labels"], job["rows"]
    cls = cls_of(tp)
    if route == "from_dict":
        d = dict((l, _join(tp, r)) for l, r in zip(labels, rows))
        return cls.from_dict(d)
    if route == "from_dict+sequence-objects":
        # the dictionary's values are sequence OBJECTS of the general class (continuous data only: a sequence of numbers needs no alphabet)
        return cls.from_dict(dict((l, dendropy.CharacterDataSequence(list(r))) for l, r in zip(labels, rows)))
    if route == "from_dict+pack":
        # a taxon of the namespace without a row, completed by pack(): the added row is a row like any other
        m = cls.from_dict(dict((l, _join(tp, r)) for l, r in zip(labels, rows)))
        m.taxon_namespace.new_taxon("packed")
        m.pack(value=(0.5 if tp == "continuous" else m.default_state_alphabet["-"]))
        return m
    if route == "from_dict+pack-front":
        # ragged rows (the first row loses its last two cells) and a taxon without a row, completed by pack(append=False): padded at the FRONT
        d = dict((l, r) for l, r in zip(labels, rows))
        if len(rows[0]) > 2:
            d[labels[0]] = rows[0][:-2]
        m = cls.from_dict(dict((l, _join(tp, r)) for l, r in d.items()))
        m.taxon_namespace.new_taxon("packed")
        m.pack(value=(0.5 if tp == "continuous" else m.default_state_alphabet["-"]), append=False)
        return m
    if route == "from_dict+case-sensitive-ns":
        # taxa added one by one to a case-sensitive namespace: labels that differ only in case are different taxa
        ns = dendropy.TaxonNamespace(is_case_sensitive=True)
        taxa = [ns.new_taxon(l) for l in labels]
        return cls.from_dict(dict((t, _join(tp, r)) for t, r in zip(taxa, rows)), taxon_namespace=ns)
    if route == "from_dict+extra-taxon":
        m = cls.from_dict(dict((l, _join(tp, r)) for l, r in zip(labels, rows)))
        m.taxon_namespace.new_taxon("unused")
        return m
    if route == "custom-alphabet+equates":
        # a standard matrix over its own alphabet: fundamental states 0/1, missing ?, and an ambiguous and a polymorphic state that carry
        # symbols of their own (N = {01}, P = (01)) -- what NEXUS declares with EQUATE and NeXML with uncertain/polymorphic state sets
        from dendropy.datamodel import charstatemodel as _csm
        sa = _csm.StateAlphabet()
        for c in "01":
            sa.new_fundamental_state(symbol=c)
        sa.new_ambiguous_state(symbol="?", member_state_symbols="01")
        sa.new_ambiguous_state(symbol="N", member_state_symbols="01")
        sa.new_polymorphic_state(symbol="P", member_state_symbols="01")
        sa.compile_lookup_mappings()
        ns = dendropy.TaxonNamespace(labels)
        m = cls(taxon_namespace=ns, default_state_alphabet=sa)
        for t, r in zip(ns, rows):
            m[t] = sa.get_states_for_symbols("".join(r))
        return m
    if route == "concatenate":
        ns = dendropy.TaxonNamespace(labels)
        w = len(rows[0])
        cut = max(1, w // 2)
        parts = []
        for a, b in ((0, cut), (cut, w)):
            if a == b:
                continue
            parts.append(cls.from_dict(dict((l, _join(tp, r[a:b])) for l, r in zip(labels, rows)), taxon_namespace=ns))
        return cls.concatenate(parts)
    if route in ("export_indices", "export_subset"):
        # a wider matrix whose even columns are the wanted content
        pool = POOL[tp]
        filler = CONT[3] if pool is None else pool[0]
        wide = []
        for r in rows:
            x = []
            for t in r:
                x += [t, filler]
            wide.append(x)
        m = cls.from_dict(dict((l, _join(tp, r)) for l, r in zip(labels, wide)))
        idx = list(range(0, 2 * len(rows[0]), 2))
        if route == "export_indices":
            return m.export_character_indices(idx)
        m.new_character_subset(label="evens", character_indices=idx)
        return m.export_character_subset("evens")
    if route.startswith("parsed:"):
        src = route[len("parsed:"):]
        text, schema, kw = source_text(tp, src, labels, rows)
        return cls.get(data=text, schema=schema, **kw)
    raise ValueError(route)


def source_text(tp, src, labels, rows):
    if src == "nexus":
        return F.nexus_text(tp, labels, rows), "nexus", {}
    if src == "nexus-interleaved":
        return F.nexus_text(tp, labels, rows, interleave=True), "nexus", {}
    if src == "nexus-datablock":
        return F.nexus_text(tp, labels, rows, datablock=True), "nexus", {}
    if src == "phylip-relaxed":
        return F.phylip_text(tp, labels, rows), "phylip", {}
    if src == "phylip-strict":
        return F.phylip_text(tp, labels, rows, strict=True), "phylip", {"strict": True}
    if src == "phylip-relaxed-interleaved":
        return F.phylip_text(tp, labels, rows, interleaved=True), "phylip", {"interleaved": True}
    if src == "phylip-strict-interleaved":
        return F.phylip_text(tp, labels, rows, strict=True, interleaved=True), "phylip", {"strict": True, "interleaved": True}
    if src == "fasta":
        return F.fasta_text(tp, labels, rows), "fasta", {}
    if src == "fasta-wrapped":
        return F.fasta_text(tp, labels, rows, wrap=3), "fasta", {}
    if src == "nexml-cells":
        return F.nexml_text(tp, labels, rows, _nexml_pool(tp)), "nexml", {}
    if src == "nexml-seqs":
        return F.nexml_text(tp, labels, rows, _nexml_pool(tp), cells=False), "nexml", {}
    raise ValueError(src)


def _nexml_pool(tp):
    # every symbol of the pool becomes a <state>; for standard data only the digits (a '?' or '-' declared as a
    # fundamental state would be an artificial alphabet)
    return "0123456789" if tp == "standard" else POOL[tp]


def routes_for(tp):
    r = ["from_dict", "from_dict+extra-taxon", "concatenate", "export_indices", "export_subset"]
    if tp == "continuous":
        r.append("from_dict+sequence-objects")
    if tp in ("continuous", "dna"):
        r.append("from_dict+pack")
        r.append("from_dict+pack-front")
    if tp in SUPPORT["nexus"]:
        r += ["parsed:nexus", "parsed:nexus-interleaved", "parsed:nexus-datablock"]
    r += ["parsed:phylip-relaxed", "parsed:phylip-strict", "parsed:phylip-relaxed-interleaved", "parsed:phylip-strict-interleaved"]
    if tp in SUPPORT["fasta"]:
        r += ["parsed:fasta", "parsed:fasta-wrapped"]
    if tp in SUPPORT["nexml"]:
        r += ["parsed:nexml-cells", "parsed:nexml-seqs"]
    return r


# ----------------------------------------------------------------------------- targets
TARGETS = {
    # name: (schema, writer kwargs, reader kwargs)
    "nexus": ("nexus", {}, {}),
    "nexus-simple": ("nexus", {"simple": True}, {}),
    "nexus-preserve_spaces": ("nexus", {"preserve_spaces": True}, {}),
    "nexus-unquoted_underscores": ("nexus", {"unquoted_underscores": True}, {"preserve_underscores": True}),
    "phylip-relaxed": ("phylip", {}, {}),
    "phylip-relaxed-interleaved-reader": ("phylip", {}, {"interleaved": True}),
    "phylip-relaxed-multispace": ("phylip", {}, {"multispace_delimiter": True}),
    "phylip-relaxed-multispace-interleaved-reader": ("phylip", {}, {"multispace_delimiter": True, "interleaved": True}),
    "phylip-relaxed-underscores": ("phylip", {"spaces_to_underscores": True}, {"underscores_to_spaces": True}),
    "phylip-strict": ("phylip", {"strict": True}, {"strict": True}),
    "phylip-strict-interleaved-reader": ("phylip", {"strict": True}, {"strict": True, "interleaved": True}),
    "fasta": ("fasta", {}, {}),
    "fasta-nowrap": ("fasta", {"wrap": False}, {}),
    "nexml-cells": ("nexml", {}, {}),
    "nexml-seqs": ("nexml", {"markup_as_sequences": True}, {}),
}
MAIN_TARGETS = ["nexus", "nexus-simple", "phylip-relaxed", "phylip-relaxed-interleaved-reader", "phylip-relaxed-multispace",
                "phylip-strict", "phylip-strict-interleaved-reader", "fasta", "fasta-nowrap", "nexml-cells", "nexml-seqs"]


def admissible(target, tp, labels, rd):
    """format-forced restrictions on the *input*"""
    schema = TARGETS[target][0]
    if tp not in SUPPORT[schema]:
        return False
    lens = [len(c) for _, c in rd]
    if not rd:
        return False
    if schema in ("nexus", "phylip"):
        if len(set(lens)) != 1 or lens[0] == 0:
            return False
    if schema == "fasta" and min(lens) == 0:
        return False
    if schema in ("phylip", "fasta") and any(c[0] == "m" for _, cells in rd for c in cells):
        return False        # one column per state: a state without a symbol of its own cannot be written
    if target == "nexus-unquoted_underscores" and any(" " in l for l in labels):
        return False        # blanks become unquoted underscores, which the paired reader option keeps
    if schema == "phylip":
        if "strict" in target:
            if any(len(l) > 10 for l in labels):
                return False
            # the first ten columns are the label: distinct after padding
        elif "multispace" in target:
            if any("  " in l or "\t" in l for l in labels):
                return False
        elif "underscores" in target:
            if any("_" in l or "\t" in l or "  " in l for l in labels):
                return False
        else:
            if any(" " in l or "\t" in l for l in labels):
                return False
    return True


def eval_job(job):
    """-> list of [clause, detail]; [["skip", why]] when the input is not admissible for the target"""
    tp, target = job["type"], job["target"]
    schema, wkw, rkw = TARGETS[target]
    cls = cls_of(tp)
    try:
        with time_limit(20):
            m = build(job)
    except Exception as ex:  # the construction route itself failed: not this property's clause (C13/C19/C20)
        return [["skip", "construction route raised %s: %s" % (type(ex).__name__, str(ex)[:120])]]
    rd = F.rowdump(m)
    labels = [l for l, _ in rd]
    if not admissible(target, tp, [t._label for t in m._taxon_namespace._taxa], rd):
        return [["skip", "input not admissible for the target format"]]
    try:
        with time_limit(20):
            text = m.as_string(schema=schema, **wkw)
    except Timeout:
        return [["raises", "writer did not return within 20 s"]]
    except Exception as ex:  # noqa
        return [["raises", "writer: %s: %s" % (type(ex).__name__, str(ex)[:200])]]
    if F.rowdump(m) != rd:
        return [["rows", "writing changed the source matrix"]]
    try:
        with time_limit(20):
            m2 = cls.get(data=text, schema=schema, **rkw)
    except Timeout:
        return [["raises", "reader did not return within 20 s"]]
    except Exception as ex:  # noqa
        return [["raises", "reader: %s: %s" % (type(ex).__name__, str(ex)[:200])]]
    out = []
    if type(m2) is not cls:
        out.append(["type", "read back as %s" % type(m2).__name__])
    rd2 = F.rowdump(m2)
    if rd2 != rd:
        if [l for l, _ in rd2] != labels:
            out.append(["rows", "taxa %r, written %r" % ([l for l, _ in rd2], labels)])
        else:
            bad = [i for i, (a, b) in enumerate(zip(rd, rd2)) if a != b]
            out.append(["rows", "row(s) %s differ: read %s, written %s" % (bad[:4], F.render([rd2[i] for i in bad[:2]]), F.render([rd[i] for i in bad[:2]]))])
    return out


def job_key(job):
    rows = job["rows"]
    if job["type"] == "continuous":
        body = ";".join(",".join(repr(x) for x in r) for r in rows)
    else:
        body = ";".join("".join(r) for r in rows)
    if len(body) > 90:
        import hashlib
        body = "%dx%d#%s" % (len(rows), len(rows[0]), hashlib.sha1(body.encode()).hexdigest()[:8])
    return "%s|%s|%s|labels=%s|%s" % (job["type"], job["route"], job["target"], "/".join(job["labels"]), body)


# ----------------------------------------------------------------------------- data sets
def build_dataset(spec):
    ds = dendropy.DataSet()
    nss = []
    for nsd in spec["namespaces"]:
        ns = ds.new_taxon_namespace(label=nsd["label"])
        for l in nsd["taxa"]:
            ns.new_taxon(l)
        nss.append(ns)
    for md in spec["matrices"]:
        ns = nss[md["ns"]]
        cls = cls_of(md["type"])
        rows = content(md["type"], "3x4", salt=md.get("salt", 0))[: len(ns)]
        while len(rows) < len(ns):
            rows.append(rows[-1])
        m = cls.from_dict(dict((t.label, _join(md["type"], r)) for t, r in zip(ns, rows)), taxon_namespace=ns)
        m.label = md.get("label")
        ds.add_char_matrix(m)
    for td in spec["treelists"]:
        ns = nss[td["ns"]]
        tl = ds.new_tree_list(taxon_namespace=ns, label=td.get("label"))
        labs = [t.label for t in ns]
        for k in range(td.get("n", 1)):
            t = dendropy.Tree(taxon_namespace=ns)
            t.is_rooted = True
            order = labs[k:] + labs[:k]
            node = t.seed_node
            n = len(order)
            # a caterpillar over the namespace's taxa, built through the node API
            for i, l in enumerate(order):
                tx = ns.get_taxon(l)
                if n == 1:
                    node.taxon = tx
                elif i < n - 2:
                    node.new_child(taxon=tx)
                    node = node.new_child()
                else:
                    node.new_child(taxon=tx)
            tl.append(t)
    return ds


def dataset_dump(ds):
    nss = list(ds.taxon_namespaces)
    pos = {id(ns): i for i, ns in enumerate(nss)}
    d = {"namespaces": [[t._label for t in ns._taxa] for ns in nss],
         "matrices": [[type(m).__name__, pos.get(id(m._taxon_namespace), "foreign"), F.rowdump(m)] for m in ds.char_matrices],
         "treelists": [[pos.get(id(tl._taxon_namespace), "foreign"),
                        [sorted(repr(sorted(c)) for c in S.rooted_clades(t)) for t in tl._trees]] for tl in ds.tree_lists]}
    return d


DS_TARGETS = {
    "dataset-nexus": ("nexus", {}),
    "dataset-nexus-titles=False": ("nexus", {"suppress_block_titles": False}),
    "dataset-nexml": ("nexml", {}),
    "dataset-nexml-seqs": ("nexml", {"markup_as_sequences": True}),
}


def eval_dataset(job):
    spec, target = job["dataset"], job["target"]
    schema, wkw = DS_TARGETS[target]
    ds = build_dataset(spec)
    d0 = dataset_dump(ds)
    import warnings
    try:
        with time_limit(30), warnings.catch_warnings():
            warnings.simplefilter("ignore")
            text = ds.as_string(schema=schema, **wkw)
    except Exception as ex:  # noqa
        return [["raises", "writer: %s: %s" % (type(ex).__name__, str(ex)[:200])]]
    try:
        with time_limit(30):
            ds2 = dendropy.DataSet.get(data=text, schema=schema)
    except Exception as ex:  # noqa
        return [["raises", "reader: %s: %s" % (type(ex).__name__, str(ex)[:200])]]
    d1 = dataset_dump(ds2)
    out = []
    if d1["namespaces"] != d0["namespaces"]:
        out.append(["namespaces", "read %r, written %r" % (d1["namespaces"], d0["namespaces"])])
    if [(a, b) for a, b, _ in d1["matrices"]] != [(a, b) for a, b, _ in d0["matrices"]] or [a for a, _ in d1["treelists"]] != [a for a, _ in d0["treelists"]]:
        out.append(["attachment", "matrices (type, namespace) %r / tree lists %r; written %r / %r" % (
            [(a, b) for a, b, _ in d1["matrices"]], [a for a, _ in d1["treelists"]],
            [(a, b) for a, b, _ in d0["matrices"]], [a for a, _ in d0["treelists"]])])
    elif d1["matrices"] != d0["matrices"]:
        out.append(["rows", "a matrix of the data set reads back with other content"])
    elif d1["treelists"] != d0["treelists"]:
        out.append(["attachment", "tree lists read back with other leaf sets/clades: %r vs %r" % (d1["treelists"], d0["treelists"])])
    return out


def dataset_key(job):
    s = job["dataset"]
    return "%s|ns=%s|m=%s|t=%s" % (job["target"],
                                   ";".join("%s:%s" % (n["label"], "".join(n["taxa"])) for n in s["namespaces"]),
                                   ",".join("%s@%d" % (m["type"], m["ns"]) for m in s["matrices"]),
                                   ",".join("%dx@%d" % (t.get("n", 1), t["ns"]) for t in s["treelists"]))


def _work(item):
    scope, job, nontrivial = item
    if "dataset" in job:
        return eval_dataset(job)
    return eval_job(job)


# ----------------------------------------------------------------------------- scopes
def mk(tp, route, target, labels, rows):
    return {"type": tp, "route": route, "target": target, "labels": labels, "rows": rows}


def jobs_main(tier):
    out = []
    for tp in POOL:
        for route in routes_for(tp):
            for dim in DIMS:
                if route in ("concatenate",) and dim in ("1x1", "Nx1"):
                    pass
                rows = content(tp, dim, salt=len(route))
                labels = PLAIN[: len(rows)]
                # hand-written NeXML sources define every symbol of the pool as a state: keep standard data to the digits
                if route.startswith("parsed:nexml") and tp == "standard":
                    rows = [[t if t not in "-?" else "0" for t in r] for r in rows]
                for target in MAIN_TARGETS:
                    if tp not in SUPPORT[TARGETS[target][0]]:
                        continue
                    out.append(("roundtrip@types-routes-dims", mk(tp, route, target, labels, rows), len(rows) >= 2 and len(rows[0]) >= 2))
    return out


SPECIAL_LABELS = ["A b", "a_b", "it's", "x(1)", "p;q", "m,n", "u:v", "[br]", "q=r", "b\\s", 'd"q', "{c}", "a/b", "*s", "<x>&", "-", "1", "a#b",
                  "x_ y", "'", "a.b", "abcdefghij", "abcdefghijk", "ABCDEFGHI J", "a  b", "été"]
XML_SAFE_LABELS = ["A b", "a_b", "it's", "x(1)", "p;q", "m,n", "u:v", "[br]", "q=r", "{c}", "a/b", "*s", "-", "1", "a#b", "x_ y", "a.b", "a  b"]


def jobs_labels(tier):
    out = []
    types = ["dna", "standard", "continuous"] if tier == "quick" else list(POOL)
    for tp in types:
        rows = content(tp, "3x4")
        for lab in SPECIAL_LABELS:
            labels = ["t1", lab, "zz"]
            for target in TARGETS:
                schema = TARGETS[target][0]
                if tp not in SUPPORT[schema]:
                    continue
                if schema == "nexml" and lab not in XML_SAFE_LABELS:
                    continue
                out.append(("roundtrip@labels", mk(tp, "from_dict", target, labels, rows), True))
        # taxa whose labels differ only in letter case: distinct taxa of the matrix.  NeXML identifies taxa by id, so they must stay
        # apart there (the label-keyed formats look labels up case-insensitively by default: left out for them)
        for labels in (["t1", "T1", "zz"], ["Hsa", "hsa", "HSA"]):
            for target in TARGETS:
                if TARGETS[target][0] == "nexml" and tp in SUPPORT["nexml"]:
                    out.append(("roundtrip@labels", mk(tp, "from_dict+case-sensitive-ns", target, labels, rows), True))
        # strict PHYLIP: labels that fill or nearly fill the ten-column field, followed directly by the sequence
        for labels in (["abcdefghij", "abcdefghiJ2"[:10], "z"], ["a b c d e", "0123456789", "x"], ["abcdefghi", "abcdefgh", "abcdefghij"]):
            for target in ("phylip-strict", "phylip-strict-interleaved-reader"):
                out.append(("roundtrip@labels", mk(tp, "from_dict", target, labels, rows), True))
    return out


def jobs_multistate(tier):
    """NEXUS sources with {..} and (..) tokens, then every target"""
    out = []
    srcs = {
        "dna": [["A", "{AC}", "(AG)", "T"], ["{ACGT}", "C", "-", "?"], ["(CT)", "N", "{GT}", "A"]],
        "standard": [["0", "{01}", "(12)", "3"], ["{012}", "1", "-", "?"], ["(03)", "2", "{13}", "0"]],
        "protein": [["A", "{DN}", "(AC)", "*"], ["{EQ}", "C", "-", "?"], ["X", "B", "Z", "A"]],
    }
    for tp, rows in srcs.items():
        for route in ("parsed:nexus", "parsed:nexus-interleaved"):
            for target in MAIN_TARGETS:
                if tp not in SUPPORT[TARGETS[target][0]]:
                    continue
                out.append(("roundtrip@multistate", mk(tp, route, target, PLAIN[:3], rows), True))
    return out


def jobs_equates(tier):
    """a standard matrix whose alphabet has symbol-bearing ambiguous / polymorphic states, to the formats that can declare an alphabet (NEXUS: EQUATE; NeXML: state sets);
    PHYLIP and FASTA carry no alphabet declaration, so a symbol outside the reader's default alphabet cannot be offered to them"""
    out = []
    rows = [["0", "1", "N", "?"], ["1", "P", "0", "N"], ["P", "0", "1", "1"]]
    for target in MAIN_TARGETS:
        if TARGETS[target][0] in ("nexus", "nexml"):
            out.append(("roundtrip@equates", mk("standard", "custom-alphabet+equates", target, PLAIN[:3], rows), True))
    return out


def jobs_datasets(tier):
    out = []
    A, B, C = ["a", "b", "c"], ["x", "y", "z", "w"], ["a", "b", "q"]
    specs = []
    for labels3 in (["tax1", "tax2", "tax3"], [None, None, None], ["taxa", "taxa", "taxa"], ["one", None, "one"],
                    ["primate taxa", "primate taxa", "primate taxa"], ["the_taxa", "the_taxa", "the taxa"], ["it's", "it's", "a;b"]):
        for k in (1, 2, 3):
            nss = [{"label": labels3[i], "taxa": [A, B, C][i]} for i in range(k)]
            mats = [{"type": ["dna", "standard", "continuous"][i % 3], "ns": i, "label": "m%d" % i, "salt": i} for i in range(k)]
            tls = [{"ns": i, "label": "trees%d" % i, "n": 2} for i in range(k)]
            specs.append({"namespaces": nss, "matrices": mats, "treelists": tls})
            if k >= 2:
                # two matrices on the last namespace, none on the first; trees only on the first
                specs.append({"namespaces": nss, "matrices": [{"type": "dna", "ns": k - 1, "label": "p", "salt": 1}, {"type": "protein", "ns": k - 1, "label": "q", "salt": 2}],
                              "treelists": [{"ns": 0, "label": "tt", "n": 1}]})
                # an unreferenced namespace in the middle/end
                specs.append({"namespaces": nss, "matrices": [{"type": "dna", "ns": 0, "label": None, "salt": 3}], "treelists": [{"ns": 0, "label": None, "n": 1}]})
                # the SAME data type on every namespace, and twice on the first (the matrices then share one state alphabet object)
                for tp in ("dna", "protein", "standard"):
                    specs.append({"namespaces": nss, "matrices": [{"type": tp, "ns": i, "label": "s%d" % i, "salt": i} for i in range(k)] +
                                  [{"type": tp, "ns": 0, "label": "again", "salt": 5}], "treelists": tls[:1]})
                # matrices only / trees only
                specs.append({"namespaces": nss, "matrices": mats, "treelists": []})
                specs.append({"namespaces": nss, "matrices": [], "treelists": tls})
    for spec in specs:
        for target in DS_TARGETS:
            if target.startswith("dataset-nexml") and any(m["type"] not in SUPPORT["nexml"] for m in spec["matrices"]):
                continue
            out.append(("datasets@namespaces<=3", {"dataset": spec, "target": target}, len(spec["namespaces"]) >= 2))
    return out


SCOPES = {
    "roundtrip@types-routes-dims": ("8 data types x every construction route available for the type (from_dict, +unused taxon in the namespace, "
                                    "concatenate, export indices/subset, parsed from hand-written NEXUS x3 / PHYLIP x4 / FASTA x2 / NeXML x2) x "
                                    "dimensions {1x1, 1xN, Nx1, 3x4, 2 x full symbol set, 2x75, 2x69, 2x70, 2x71, 2x140} x 11 target variants the type supports; "
                                    "non-trivial = >= 2 rows and >= 2 columns", True),
    "roundtrip@labels": ("26 labels with blanks, underscores, quotes, brackets, punctuation, 10/11-character and non-ASCII labels in the middle row of a "
                         "3x4 matrix (dna, standard, continuous; thorough all types) x all 15 target variants admitting the label (NeXML: XML-safe "
                         "ASCII only), plus field-filling label triples for strict PHYLIP", True),
    "roundtrip@equates": ("one standard matrix over a custom alphabet with symbol-bearing ambiguous and polymorphic states x the NEXUS and NeXML targets", True),
    "roundtrip@multistate": ("dna/standard/protein matrices parsed from NEXUS with {..} and (..) tokens (sequential and interleaved) x 11 targets", True),
    "datasets@namespaces<=3": ("data sets with 1-3 namespaces x 7 labelling patterns (distinct, none, equal, mixed, equal with a blank, equal with underscore/blank, equal with quote/punctuation) x 5 population patterns x "
                               "{NEXUS default titles, NEXUS suppress_block_titles=False, NeXML cells, NeXML seqs}; non-trivial = >= 2 namespaces", True),
}


def jobs_random(ctx):
    out = []
    N = 30 if ctx.tier == "quick" else 400
    for h in range(N):
        rng = rng_for(ctx, 900 + h)
        tp = list(POOL)[h % len(POOL)]
        n, w = rng.randint(1, 4), rng.randint(1, 9)
        pool = POOL[tp]
        if pool is None:
            rows = [[rng.choice(CONT + [round(rng.uniform(-5, 5), rng.randint(0, 6)), float(rng.randint(-3, 3))]) for _ in range(w)] for _ in range(n)]
        else:
            rows = [[rng.choice(pool) for _ in range(w)] for _ in range(n)]
        labels = PLAIN[:n]
        for route in routes_for(tp):
            r2 = rows
            if route.startswith("parsed:nexml") and tp == "standard":
                r2 = [[t if t not in "-?" else "0" for t in r] for r in rows]
            for target in MAIN_TARGETS:
                if tp in SUPPORT[TARGETS[target][0]]:
                    out.append(("roundtrip@random", mk(tp, route, target, labels, r2), n >= 2 and w >= 2))
    return out


SCOPES["roundtrip@random"] = ("seeded random contents (1-4 taxa x 1-9 columns over the type's full symbol set / assorted floats) x every "
                              "route x 11 targets; 30 contents quick, 400 thorough", False)


def all_jobs(ctx):
    tier = ctx.tier
    return jobs_main(tier) + jobs_labels(tier) + jobs_equates(tier) + jobs_multistate(tier) + jobs_datasets(tier) + jobs_random(ctx)


def t2(ctx):
    items = all_jobs(ctx)
    for nm, (rule, exh) in SCOPES.items():
        ctx.scope(nm, rule=rule, exhaustive=exh)
    # parsing "(AG)"-style tokens adds symbol-less states to the *global* fixed alphabets of the process (observed on the
    # unchanged tree), so the multistate scope runs last and in worker processes of its own
    first = [it for it in items if it[0] != "roundtrip@multistate"]
    last = [it for it in items if it[0] == "roundtrip@multistate"]
    items = first + last
    results = pmap(_work, first, chunksize=32) + pmap(_work, last, chunksize=4)
    skipped = {}
    for (scope, job, nontrivial), res in zip(items, results):
        key = dataset_key(job) if "dataset" in job else job_key(job)
        tag = input_tag(job)
        if res and res[0][0] == "skip":
            skipped[res[0][1][:60]] = skipped.get(res[0][1][:60], 0) + 1
            continue
        if "dataset" not in job and job.get("route") == "from_dict+extra-taxon" and str(job.get("target", "")).startswith("phylip"):
            # clause left out: with its default suppress_missing_taxa=False the PHYLIP writer emits a row for every
            # namespace taxon (an option-dependent behaviour outside the statement); the header/row-count
            # inconsistency it produces for a namespace larger than the matrix is recorded as an observation only
            why = "PHYLIP target with a namespace larger than the matrix (writer option suppress_missing_taxa)"
            skipped[why[:60]] = skipped.get(why[:60], 0) + 1
            continue
        ctx.case(scope, key, nontrivial=nontrivial, sample=key)
        for clause, det in res:
            ctx.fail("%s%s.%s" % (job["target"], tag, clause), {"key": key, "job": job, "scope": scope}, detail="%s: %s" % (key, det))
    for why, n in sorted(skipped.items()):
        ctx.note("%d generated cases not evaluated: %s" % (n, why))


def input_tag(job):
    """input classes that get their own monitor names (so that a finding can be pinned by name)"""
    if job.get("route") == "from_dict+extra-taxon":
        return "+unused-taxon"
    if job.get("route") == "custom-alphabet+equates":
        return "+equates"
    if "dataset" not in job and any(len(t) > 1 and t[0] in "{(" for r in job["rows"] for t in r if isinstance(t, str)):
        return "+multistate"
    return ""


def replay(ctx, rec):
    job = rec["witness"]["job"]
    res = eval_dataset(job) if "dataset" in job else eval_job(job)
    hit = False
    for clause, det in res:
        name = "%s%s.%s" % (job["target"], input_tag(job), clause)
        print("  replay: %s: %s" % (name, det))
        if name == rec["obligation"]:
            hit = True
    return not hit
