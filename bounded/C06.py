"""C06 (T2, bounded): tree-sample summaries are independent of partitioning, order and
scheduling.

A *history* builds one TreeArray from a fixed pool of distinguishable trees by a
sequence of operations (add_tree / append / insert / update / extend / += / + in both
operand orders), the merged sub-collections being built separately (by add_tree, with an
explicit is_rooted_trees, from a TreeList, or by read() of Newick text with implicit
[&R]/[&U] or forced rooting), some of them empty.  After EVERY step the array is audited
against oracles computed from the raw pointers of the pool trees (specs/splitsum.py):

  <op>.raises / <op>.refuses-empty-collection   merging compatible collections never fails
  <op>.lists-aligned[...]      the four per-tree lists are equally long and entry i of each
                               belongs to the i-th tree in accession order
  <op>.frequencies / .counts   split counts, normaliser and frequencies == direct count
  <op>.edge-lengths / .node-ages   per-split value collections == expected multisets
  <op>.age-summaries           age mean/median/range/sd written on the consensus tree == statistics
                               of the per-split ages of the accessioned trees (all four combinations
                               of ignore_edge_lengths x ignore_node_ages are run on the ultrametric pool)
  <op>.query[...]              every per-tree query works (scores, MCCT, restore_tree,
                               topologies, consensus ...) and returns the expected value
  <op>.consensus / .mcct       consensus splits + supports; argmax/score/topology

SumTrees: (a) `sumtrees-sched`: the real TreeProcessor.parallel_analyze_trees collation loop
and the real TreeAnalysisWorker.run are driven in-process by a deterministic scheduler
(fake Queue objects; workers run when the collation loop first asks for a result), for every
assignment of 3 files to N workers and every arrival order; the master array is audited
and compared with serial_analyze_trees.  (b) `sumtrees-cli`: the real command line with
-m 1,2,3,5 against the serial run, only in configurations whose outcome does not depend on
OS scheduling on the unchanged tree (--force-rooted / --force-unrooted); the scheduling-
dependent configurations (implicit rooting of the sources with idle workers) are covered
deterministically by (a).

(use_tree_weights=False on weighted pools was left out while TreeArray did not forward the flag to its distribution -- a C05
finding, repaired in cee52ed6; it is driven since: scope settings<=2 and the random histories.)
Left out: real OS scheduling / Queue delivery (N/A clause of DESIGN.md); settings-
incompatible merges (the statement allows them to fail); TreeArray.__delitem__/clear/...
(NotImplementedError by design); the partial-leafset pool is
rooted only (unrooted split bitmasks are normalised per tree leaf set, so splits of trees with
different leaf sets have no common identity to count against)."""
import io
import re
import itertools
import os
import pickle
import shutil
import subprocess
import sys
import tempfile
from fractions import Fraction

import dendropy
from dendropy.datamodel.treecollectionmodel import TreeList, TreeArray
from dendropy.utility import constants

from bounded.common import rng_for, time_limit, Timeout
from bounded import kit_a as K
from specs import trees as S
from specs import splitsum as Q

LABELS = K.LAB[:5]


# ----------------------------------------------------------------------------- the pools
def _L(*c, **kw):
    return [kw.get("t"), kw.get("l"), list(c)]


def _leaf(t, l):
    return [t, l, []]


# plain pool: different topologies (one polytomy, one basal bifurcation), dyadic lengths that
# differ between trees, one missing length
PLAIN = [
    _L(_L(_leaf("A", 1.0), _leaf("B", 0.5), l=0.25), _L(_leaf("C", 2.0), _leaf("D", 1.0), l=0.75), _leaf("E", 1.5)),
    _L(_L(_leaf("A", 2.0), _leaf("C", 1.25), l=0.5), _L(_leaf("B", 1.0), _leaf("D", 3.0), l=1.0), _leaf("E", 0.5)),
    _L(_L(_leaf("A", 0.5), _leaf("B", 0.75), l=2.0), _leaf("C", 1.0), _leaf("D", 0.25), _leaf("E", 3.5)),
    _L(_L(_L(_leaf("A", 1.5), _leaf("B", 2.5), l=0.5), _leaf("E", 1.0), l=1.25), _L(_leaf("C", 0.5), _leaf("D", None), l=2.0)),
    _L(_L(_leaf("A", 3.0), _leaf("B", 1.0), l=0.125), _L(_leaf("C", 1.0), _leaf("D", 2.0), l=0.375), _leaf("E", 0.75)),
]
# ultrametric pool (rooted only): node ages are dyadic and differ between trees
ULTRA = [
    _L(_L(_leaf("A", 1.0), _leaf("B", 1.0), l=1.0), _L(_L(_leaf("C", 0.5), _leaf("D", 0.5), l=1.0), _leaf("E", 1.5), l=0.5)),
    _L(_L(_leaf("A", 2.0), _leaf("B", 2.0), l=1.0), _L(_L(_leaf("C", 1.0), _leaf("D", 1.0), l=0.5), _leaf("E", 1.5), l=1.5)),
    _L(_L(_L(_leaf("A", 0.5), _leaf("C", 0.5), l=0.5), _leaf("B", 1.0), l=1.0), _L(_leaf("D", 1.5), _leaf("E", 1.5), l=0.5)),
    _L(_L(_leaf("A", 0.25), _leaf("B", 0.25), l=2.0), _L(_L(_leaf("C", 0.5), _leaf("D", 0.5), l=0.25), _leaf("E", 0.75), l=1.5)),
    _L(_L(_L(_leaf("A", 0.5), _leaf("C", 0.5), l=1.0), _leaf("B", 1.5), l=0.5), _L(_leaf("D", 1.0), _leaf("E", 1.0), l=1.0)),
]
# partial pool (rooted only): the leaves of a tree carry only a SUBSET of the namespace, a
# different one in every tree, so that the per-tree leafset bitmasks differ and entry i of
# _tree_leafset_bitmasks is observable (it decides which splits count as internal in the scores)
PARTIAL = [
    _L(_L(_leaf("A", 1.0), _leaf("B", 0.5), l=0.25), _L(_leaf("C", 2.0), _leaf("D", 1.0), l=0.75)),                     # no E
    _L(_L(_leaf("B", 2.0), _leaf("C", 1.25), l=0.5), _L(_leaf("D", 1.0), _leaf("E", 3.0), l=1.0)),                      # no A
    _L(_L(_L(_leaf("A", 0.5), _leaf("B", 0.75), l=2.0), _leaf("C", 1.0), l=0.5), _L(_leaf("D", 0.25), _leaf("E", 3.5), l=1.5)),  # all
    _L(_L(_leaf("A", 1.5), _leaf("B", 2.5), l=0.5), _L(_leaf("D", 0.5), _leaf("E", 1.0), l=2.0)),                       # no C
    _L(_L(_leaf("C", 3.0), _leaf("D", 1.0), l=0.125), _L(_leaf("A", 1.0), _leaf("E", 2.0), l=0.375)),                   # no B
]
# tip-dated pool (rooted only): the trees of the ultrametric pool with non-contemporaneous tips -- every leaf edge is
# shortened by the age of its tip, so every internal node keeps the age it has in the ultrametric pool
TIP_AGES = {"D": 0.25, "E": 0.5}


def _tipdate(sp):
    t, l, ch = sp
    if not ch:
        return [t, l - TIP_AGES.get(t, 0.0), []]
    return [t, l, [_tipdate(c) for c in ch]]


TIPDATED = [_tipdate(sp) for sp in ULTRA]
POOLS = {"plain": PLAIN, "ultra": ULTRA, "partial": PARTIAL, "tipdated": TIPDATED}
WEIGHTS = {"none": [None] * 5, "mixed": [None, 2, 0.5, 1, 2]}


def _annot(rooted):
    return {True: "[&R] ", False: "[&U] ", None: ""}[rooted]


# ----------------------------------------------------------------------------- the oracle side
class Pool(object):
    """trees of a case + everything the oracles need, computed from raw pointers of a
    pristine build of every tree (the library normalises the trees it is given)"""

    def __init__(self, case):
        self.case = case
        self.rooted = case["rooted"]  # True / False / None (undefined -> behaves as unrooted)
        self.r = bool(self.rooted)
        self.specs = POOLS[case["pool"]]
        self.weights = WEIGHTS[case.get("weights", "none")]
        self.settings = dict(case.get("settings") or {})
        self.ns = K.make_namespace(LABELS)
        self.L = frozenset(LABELS)
        self.bits = Q.bit_table(self.ns)
        self.split_sets, self.edge_vals, self.ages, self.Ls = [], [], [], []
        if case["pool"] == "partial" and self.rooted is not True:
            raise ValueError("the partial-leafset pool is rooted only (unrooted splits of different leaf sets are not comparable)")
        for sp in self.specs:
            t = K.build(sp, self.ns, rooted=self.rooted)
            self.Ls.append(Q.leaf_labels(t))
            self.split_sets.append(Q.tree_splits(t, self.r, self.L))
            self.edge_vals.append(Q.split_edge_values(t, self.r, self.L))
            if case["pool"] == "ultra":
                self.ages.append(Q.split_node_ages(t, self.r, self.L))
            elif case["pool"] == "tipdated":
                # the ages of the ultrametric original, the tips at their own ages
                ages = Q.split_node_ages(K.build(ULTRA[len(self.ages)], self.ns, rooted=self.rooted), self.r, self.L)
                for nd in S.pre(t._seed_node):
                    if not nd._child_nodes:
                        ages[Q.node_split(nd, self.L, self.r)] = TIP_AGES.get(nd.taxon.label, 0.0)
                self.ages.append(ages)
            else:
                self.ages.append(None)
        self.use_w = self.settings.get("use_tree_weights", True)

    def tree(self, i):
        return K.build(self.specs[i], self.ns, rooted=self.rooted, weight=self.weights[i])

    def newick(self, idxs, annotated=True):
        return "\n".join((_annot(self.rooted) if annotated else "") + K.spec_newick(self.specs[i]) for i in idxs) + "\n"

    def new_array(self, explicit=False, ns=None):
        kw = dict(self.settings)
        if explicit:
            kw["is_rooted_trees"] = self.rooted
        return TreeArray(taxon_namespace=ns or self.ns, **kw)

    def build_block(self, blk):
        how, idxs = blk["how"], blk["trees"]
        if how in ("add", "explicit"):
            ta = self.new_array(explicit=(how == "explicit"))
            for i in idxs:
                ta.add_tree(self.tree(i))
        elif how == "list":
            tl = TreeList(taxon_namespace=self.ns)
            for i in idxs:
                tl._trees.append(self.tree(i))
            ta = TreeArray.from_tree_list(tl, **self.settings)
        elif how == "read":  # implicit rooting from the [&R]/[&U] tokens of the source
            ta = self.new_array()
            ta.read(data=self.newick(idxs), schema="newick")
        elif how == "read-forced":  # explicit rooting of an unannotated source
            ta = self.new_array()
            ta.read(data=self.newick(idxs, annotated=False), schema="newick",
                    rooting="force-rooted" if self.r else "force-unrooted")
        else:
            raise ValueError(how)
        return ta


def _blk_key(blk):
    return "%s[%s]" % (blk["how"], ",".join("T%d" % i for i in blk["trees"]))


def _op_key(op):
    if op[0] == "insert":
        return "insert(%s,T%d)" % (op[1], op[2])
    if op[0] in ("add_tree", "append"):
        return "%s(T%d)" % (op[0], op[1])
    return "%s(%s)" % (op[0], _blk_key(op[1]))


def _hist_key(case, upto=None):
    ops = case["ops"] if upto is None else case["ops"][: upto + 1]
    rt = {True: "R", False: "U", None: "N"}[case["rooted"]]
    st = case.get("settings") or {}
    parts = [case["what"], rt, "pool=" + case["pool"], "w=" + case.get("weights", "none"), "master=" + case["master"]]
    if st:
        parts.append(",".join("%s=%s" % kv for kv in sorted(st.items())))
    parts.append(";".join(_op_key(o) for o in ops))
    return "|".join(parts)


# ----------------------------------------------------------------------------- audit of one array
def audit(P, ta, order, fails, op, ns=None, light=False):
    """compare TreeArray `ta` with the oracle for the trees `order` (pool indices in
    accession order); append (monitor, detail) to fails"""
    ns = ns or ta.taxon_namespace
    bits = Q.bit_table(ns)
    L, r = P.L, P.r
    # an entry >= 100 is pool tree (entry - 100) accessioned through a text source, which
    # does not carry the tree weight
    ws = [None if e >= 100 else P.weights[e] for e in order]
    order0 = [e for e in order if e < 100]
    order = [e % 100 for e in order]
    n = len(order)
    ign_len = bool(P.settings.get("ignore_edge_lengths", False))
    ages_on = not P.settings.get("ignore_node_ages", True)

    def bad(clause, text):
        fails.append(("%s.%s" % (op, clause), text))

    # ---- the two summary tables read one after the other, BEFORE anything else asks the distribution for its frequencies (each table is a
    # cache of its own: both must be of the trees counted NOW)
    sd = ta.split_distribution
    if n and not ign_len:
        try:
            # (read in either order, alternating with the number of trees: whichever table is read first must not make the other look current)
            if ages_on and n % 2 == 0:
                t_age = sd.split_node_age_summaries
                tabs = [("node-age", t_age, sd.split_node_ages), ("edge-length", sd.split_edge_length_summaries, sd.split_edge_lengths)]
            else:
                tabs = [("edge-length", sd.split_edge_length_summaries, sd.split_edge_lengths)]
                if ages_on:
                    tabs.append(("node-age", sd.split_node_age_summaries, sd.split_node_ages))
            for what, table, values in tabs:
                for m, vals in values.items():
                    vv = [x for x in vals if x is not None]
                    if not vv:
                        continue
                    got = table.get(m)
                    if got is None or not Q.approx(got.get("mean"), Q.mean(vv)) or got.get("range") is None \
                            or not Q.approx(got["range"][0], min(vv)) or not Q.approx(got["range"][1], max(vv)):
                        bad("summary-tables", "%s summary of split %s is %r, the %d values collected have mean %s, range (%s, %s)"
                            % (what, Q.split_key(Q.decode(m, bits, L, r), r), None if got is None else (got.get("mean"), got.get("range")),
                               len(vv), float(Q.mean(vv)), min(vv), max(vv)))
                        raise StopIteration
        except StopIteration:
            pass
    # ---- the four parallel lists
    lens = dict(split_bitmasks=len(ta._tree_split_bitmasks), edge_lengths=len(ta._tree_edge_lengths),
                leafset_bitmasks=len(ta._tree_leafset_bitmasks), weights=len(ta._tree_weights))
    aligned = True
    for nm, k in sorted(lens.items()):
        if k != n:
            aligned = False
            bad("lists-aligned[%s]" % nm, "_tree_%s has %d entries for %d trees" % (nm, k, n))
    try:
        if len(ta) != n:
            bad("len", "len() = %d for %d trees" % (len(ta), n))
    except Exception as ex:
        bad("query[len]", "%s: %s" % (type(ex).__name__, ex))
    if aligned:
        for pos, i in enumerate(order):
            all_mask = 0
            for lab in P.Ls[i]:
                all_mask |= bits[lab]
            sb, el = ta.get_split_bitmask_and_edge_tuple(pos)
            got = {}
            for m, l in zip(sb, el):
                got[Q.decode(m, bits, L, r)] = l
            if set(got) != set(P.split_sets[i]) or len(sb) != len(el):
                bad("lists-aligned[split_bitmasks]", "entry %d is not the split set of the %d-th accessioned tree T%d" % (pos, pos, i))
                aligned = False
                break
            if not ign_len:
                want = P.edge_vals[i]
                for s, l in got.items():
                    w = want.get(s, None)
                    w = 0 if w is None else w  # missing lengths (and the root edge) are stored as 0
                    if not Q.approx(l, w):
                        bad("lists-aligned[edge_lengths]", "entry %d: split %s has length %r, tree T%d has %r" % (pos, Q.split_key(s, r), l, i, w))
                        aligned = False
                        break
            if not aligned:
                break
            ww = float(Q.weight_of(ws[pos], P.use_w))
            if not Q.approx(ta._tree_weights[pos], ww):
                bad("lists-aligned[weights]", "entry %d: weight %r, tree T%d has %r" % (pos, ta._tree_weights[pos], i, ww))
                aligned = False
                break
            if ta._tree_leafset_bitmasks[pos] != all_mask:
                bad("lists-aligned[leafset_bitmasks]", "entry %d: leafset bitmask %r, tree T%d has leaves %s (bitmask %r)"
                    % (pos, ta._tree_leafset_bitmasks[pos], i, "".join(sorted(P.Ls[i])), all_mask))
                aligned = False
                break
    # ---- the distribution
    sd = ta.split_distribution
    exp = Q.expected_frequencies([P.split_sets[i] for i in order], ws, P.use_w)
    if sd.total_trees_counted != n:
        bad("counts", "total_trees_counted = %r for %d trees" % (sd.total_trees_counted, n))
    tw = sum((Q.weight_of(w, P.use_w) for w in ws), Fraction(0))
    if not Q.feq(sd.sum_of_tree_weights, tw):
        bad("counts", "sum_of_tree_weights = %r, expected %s" % (sd.sum_of_tree_weights, tw))
    got = {}
    for m, f in sd.split_frequencies.items():
        got[Q.decode(m, bits, L, r)] = (m, f)
    if n:
        for s in sorted(set(exp) | set(got), key=lambda s: Q.split_key(s, r)):
            if s not in got:
                bad("frequencies", "split %s (fraction %s) is not reported" % (Q.split_key(s, r), exp[s]))
            elif s not in exp:
                if got[s][1]:
                    bad("frequencies", "split %s of no tree has frequency %r" % (Q.split_key(s, r), got[s][1]))
            elif not Q.feq(got[s][1], exp[s]):
                bad("frequencies", "split %s: reported %r, exact fraction %s" % (Q.split_key(s, r), got[s][1], exp[s]))
    elif any(c for c in sd.split_counts.values()):
        bad("frequencies", "an empty collection reports split counts %r" % (dict(sd.split_counts),))
    if not ign_len:
        want = {}
        for i in order:
            for s in P.split_sets[i]:
                v = P.edge_vals[i].get(s)
                want.setdefault(s, []).append(0 if v is None else v)
        have = {}
        for m, vals in sd.split_edge_lengths.items():
            if vals:
                have[Q.decode(m, bits, L, r)] = vals
        for s in sorted(set(want) | set(have), key=lambda s: Q.split_key(s, r)):
            a, b = sorted(want.get(s, [])), have.get(s, [])
            if any(x is None for x in b) or sorted(b) != a:
                bad("edge-lengths", "split %s: collected lengths %r, the trees give %r" % (Q.split_key(s, r), b, a))
                break
    ages_want = {}
    if ages_on:
        want = ages_want
        for i in order:
            for s, v in P.ages[i].items():
                want.setdefault(s, []).append(v)
        have = {}
        for m, vals in sd.split_node_ages.items():
            if vals:
                have[Q.decode(m, bits, L, r)] = vals
        for s in sorted(set(want) | set(have), key=lambda s: Q.split_key(s, r)):
            a, b = sorted(want.get(s, [])), have.get(s, [])
            if any(x is None for x in b) or len(a) != len(b) or any(not Q.approx(x, y) for x, y in zip(sorted(b), a)):
                bad("node-ages", "split %s: collected ages %r, the trees give %r" % (Q.split_key(s, r), b, a))
                break
    if n == 0 or light:
        return
    # ---- every per-tree query
    nts = [Q.nontrivial(P.split_sets[i], L, r) for i in order]

    def q(name, fn):
        try:
            return True, fn()
        except Timeout:
            raise
        except Exception as ex:
            bad("query[%s]" % name, "%s: %s" % (type(ex).__name__, str(ex)[:160]))
            return False, None

    for use_log, nm in ((True, "calculate_log_product_of_split_supports"), (False, "calculate_sum_of_split_supports")):
        ok, res = q(nm, getattr(ta, nm))
        if ok:
            scores, idx = res
            want = [Q.score_conventions(P.split_sets[i], exp, P.Ls[i], r, use_log, False) for i in order]
            if len(scores) != n or not Q.scores_match(scores, want):
                bad("mcct", "%s: scores %r are not those of the accessioned trees (expected %r)" % (nm, scores, [w[0] for w in want]))
            elif idx is None or scores[idx] != max(scores):
                bad("mcct", "%s: index %r is not an argmax of %r" % (nm, idx, scores))
            else:
                nm2 = "maximum_product_of_split_support_tree" if use_log else "maximum_sum_of_split_support_tree"
                ok2, t = q(nm2, lambda nm2=nm2: getattr(ta, nm2)(summarize_splits=False))
                if ok2:
                    tn = Q.nontrivial(Q.tree_splits(t, r, L), L, r)
                    best = [k for k, sc in enumerate(scores) if sc == max(scores)]
                    if not any(tn == nts[k] for k in best):
                        bad("mcct", "%s: topology %s is not that of a maximiser" % (nm2, sorted(Q.split_key(s, r) for s in tn)))
                    attr = "log_product_of_split_support" if use_log else "sum_of_split_support"
                    if not Q.approx(getattr(t, attr, None), max(scores)):
                        bad("mcct", "%s: reported %s = %r, maximum score %r" % (nm2, attr, getattr(t, attr, None), max(scores)))
    for pos in range(min(n, lens["split_bitmasks"])):
        ok, t = q("restore_tree", lambda pos=pos: ta.restore_tree(pos))
        if ok and aligned:
            tn = Q.nontrivial(Q.tree_splits(t, r, L), L, r)
            if tn != nts[pos]:
                bad("query[restore_tree]", "restore_tree(%d) has splits %s, tree T%d has %s"
                    % (pos, sorted(Q.split_key(s, r) for s in tn), order[pos], sorted(Q.split_key(s, r) for s in nts[pos])))
                break
        if not ok:
            break
    ok, res = q("split_bitmask_set_frequencies", ta.split_bitmask_set_frequencies)
    if ok:
        want = {}
        for i, w in zip(order, ws):
            want[P.split_sets[i]] = want.get(P.split_sets[i], Fraction(0)) + Q.weight_of(w, P.use_w)
        have = {}
        for k, v in res.items():
            have[frozenset(Q.decode(m, bits, L, r) for m in k)] = v
        if set(have) != set(want) or any(not Q.feq(have[k], want[k] / tw) for k in want):
            bad("query[split_bitmask_set_frequencies]", "topology frequencies %r, expected %r"
                % (sorted(have.values()), sorted(float(v / tw) for v in want.values())))
    ok, res = q("topologies", ta.topologies)
    if ok and len(res) != len(set(P.split_sets[i] for i in order)):
        bad("query[topologies]", "%d topologies for %d distinct trees" % (len(res), len(set(P.split_sets[i] for i in order))))
    q("bipartition_encoding_frequencies", ta.bipartition_encoding_frequencies)
    ok, res = q("__iter__", lambda: list(ta))
    if ok and len(res) != n:
        bad("query[__iter__]", "iteration yields %d items for %d trees" % (len(res), n))
    for th in (0.5, 0.3):
        summ = th == 0.5  # supports are checked on one of the two
        ok, con = q("consensus_tree", lambda th=th: ta.consensus_tree(min_freq=th, summarize_splits=summ))
        if ok:
            sp = Q.spanning_errors(con, ns)
            for e in sp:
                bad("consensus", e)
            if not sp:
                cn = Q.nontrivial(Q.tree_splits(con, r, L), L, r)
                for clause, text in Q.consensus_errors(cn, exp, th, L, r):
                    bad("consensus", "min_freq=%r: %s" % (th, text))
                for nd in (S.pre(con._seed_node) if summ else ()):
                    s = Q.node_split(nd, L, r)
                    if not Q.feq(getattr(nd, "support", None), exp.get(s, Fraction(0)), 1e-9):
                        bad("consensus", "min_freq=%r: node %s has support %r, frequency %s" % (th, Q.split_key(s, r), getattr(nd, "support", None), exp.get(s, 0)))
                        break
                # age summaries written on the consensus == statistics of the per-split ages of
                # the accessioned trees (i.e. of one-at-a-time addition)
                for nd in (S.pre(con._seed_node) if (summ and ages_on) else ()):
                    s = Q.node_split(nd, L, r)
                    av = ages_want.get(s)
                    if not av:
                        continue
                    rng_ = getattr(nd, "age_range", None)
                    okk = (Q.approx(getattr(nd, "age_mean", None), Q.mean(av)) and Q.approx(getattr(nd, "age_median", None), Q.median(av))
                           and rng_ is not None and len(rng_) == 2 and Q.approx(rng_[0], min(av)) and Q.approx(rng_[1], max(av))
                           and (len(av) < 2 or Q.approx(getattr(nd, "age_sd", None), Q.sample_sd(av))))
                    if not okk:
                        bad("age-summaries", "consensus node %s: age mean/median/range/sd = %r/%r/%r/%r, ages of the trees %r"
                            % (Q.split_key(s, r), getattr(nd, "age_mean", None), getattr(nd, "age_median", None), rng_,
                               getattr(nd, "age_sd", None), sorted(av)))
                        break
            if P.rooted is not None and con.is_rooted is not P.rooted:
                bad("consensus", "consensus is_rooted=%r for inputs with is_rooted=%r" % (con.is_rooted, P.rooted))
            if th < 0.5 and n >= 2 and not sp and all(w is None for w in ws) and len(order0) == n:
                # the statement of C06: the SAME consensus however the trees arrived.  Below one half several answers satisfy C05's
                # clauses when incompatible splits tie, so the tree is compared with the one a collection filled in canonical
                # (sorted) order gives -- ties must not be broken by arrival order
                ref = P.new_array(explicit=True, ns=None)
                try:
                    for e in sorted(order0):
                        ref.add_tree(P.tree(e))
                    rc = ref.consensus_tree(min_freq=th, summarize_splits=False)
                    a = Q.nontrivial(Q.tree_splits(con, r, L), L, r)
                    b = Q.nontrivial(Q.tree_splits(rc, r, L), L, r)
                    if a != b:
                        bad("consensus.order-independent", "min_freq=%r: this arrival order gives splits %s, the same trees accessioned in sorted order give %s"
                            % (th, sorted(Q.split_key(x, r) for x in a), sorted(Q.split_key(x, r) for x in b)))
                except Exception as ex:  # noqa
                    if not _lib_error(ex)[0]:
                        raise


# ----------------------------------------------------------------------------- histories
def _lib_error(ex):
    """True when the exception was raised inside the library (not in this checker)"""
    import traceback
    tb = traceback.extract_tb(ex.__traceback__)
    fn = tb[-1].filename
    return "/dendropy/" in fn, "%s:%d" % (fn.split("/dendropy/")[-1], tb[-1].lineno)


def _history(case):
    """-> (fails [(monitor, detail, key, case)], steps executed)"""
    P = Pool(case)
    fails = []
    master = P.new_array(explicit=(case["master"] == "explicit"))
    order = []
    subs = []   # the sub-collections merged so far: a merge reads its operand, it does not take it over
    audit(P, master, order, fails, "new")
    if fails:
        return [(m, d, _hist_key(dict(case, ops=[])), dict(case, ops=[])) for m, d in fails]
    for j, op in enumerate(case["ops"]):
        name = op[0]
        try:
            if name == "add_tree":
                master.add_tree(P.tree(op[1]))
                order.append(op[1])
            elif name == "append":
                master.append(P.tree(op[1]))
                order.append(op[1])
            elif name == "insert":
                pos = {"0": 0, "mid": len(order) // 2, "-1": -1}[str(op[1])]
                master.insert(pos, P.tree(op[2]))
                order.insert(pos, op[2])
            else:
                blk = op[1]
                sub = P.build_block(blk)
                pre = []
                ent = [i + 100 for i in blk["trees"]] if blk["how"].startswith("read") else list(blk["trees"])
                audit(P, sub, ent, pre, "block", light=True)
                if pre:  # the sub-collection itself is already wrong (single-collection clauses)
                    fails.extend(pre)
                if name == "update":
                    master.update(sub)
                    order.extend(ent)
                elif name == "extend":
                    master.extend(sub)
                    order.extend(ent)
                elif name == "iadd":
                    master += sub
                    order.extend(ent)
                elif name == "add":
                    master = master + sub
                    order.extend(ent)
                elif name == "radd":
                    master = sub + master
                    order = ent + order
                else:
                    raise ValueError(name)
                subs.append((sub, ent))
        except Timeout:
            raise
        except Exception as ex:
            lib, where = _lib_error(ex)
            if not lib:
                raise
            empty_side = name not in ("add_tree", "append", "insert") and (len(op[1]["trees"]) == 0 or len(order) == 0)
            clause = "refuses-empty-collection" if empty_side else "raises"
            fails.append(("%s.%s" % (name, clause), "%s: %s (at %s)" % (type(ex).__name__, str(ex)[:200], where)))
        if not fails:
            # exhaustive scopes contain every prefix as a history of its own, so there the
            # per-tree queries are only run after the last operation (lists, counts, frequencies
            # and value collections are still audited after every step)
            audit(P, master, order, fails, name, light=bool(case.get("final_only")) and j < len(case["ops"]) - 1)
        if not fails:
            # every operand of an earlier merge is still the collection it was (so it can be merged again, elsewhere)
            for sub, ent in subs:
                if sub is not master:
                    audit(P, sub, ent, fails, "operand-after-" + name, light=True)
        if not fails and j == len(case["ops"]) - 1 and len(subs) >= 2:
            # ... and the same operands arriving at a second collection in the opposite order give the same sample
            second = P.new_array(explicit=(case["master"] == "explicit"))
            o2 = []
            try:
                for sub, ent in reversed(subs):
                    if sub is master:
                        continue
                    second.update(sub)
                    o2.extend(ent)
                audit(P, second, o2, fails, "reuse.update", light=True)
            except Timeout:
                raise
            except Exception as ex:
                lib, where = _lib_error(ex)
                if not lib:
                    raise
                if not any(len(e) == 0 for _, e in subs):   # refusals around empty operands are reported by the merge monitors
                    fails.append(("reuse.update.raises", "%s: %s (at %s)" % (type(ex).__name__, str(ex)[:200], where)))
        if fails:
            sub_case = dict(case, ops=case["ops"][: j + 1])
            k = _hist_key(case, j)
            return [(m, d, k, sub_case) for m, d in fails]
    return []


# ----------------------------------------------------------------------------- SumTrees, deterministic scheduler
class _FakeQueue(object):
    def __init__(self, items=(), on_get=None, roundtrip=False):
        self.items = list(items)
        self.on_get = on_get
        self.roundtrip = roundtrip

    def put(self, x):
        if self.roundtrip and not isinstance(x, BaseException):
            x = pickle.loads(pickle.dumps(x))  # what a multiprocessing.Queue does to the worker's array
        self.items.append(x)

    def get_nowait(self):
        import queue
        if not self.items:
            raise queue.Empty()
        return self.items.pop(0)

    def get(self):
        if self.on_get is not None:
            fn, self.on_get = self.on_get, None
            fn()
        if not self.items:
            raise RuntimeError("scheduler: result requested but every worker has reported")
        return self.items.pop(0)


class _WouldBlock(Exception):
    pass


class _WorkQueue(object):
    """one worker's view of the shared work queue, to the documented contract of multiprocessing.Queue: get() blocks
    until an item arrives, items of one producer arrive in the order put; get_nowait()/empty() may report the queue
    empty while items put on it are still in transit (`lag`: the first poll of every worker does)."""

    def __init__(self, mine, sentinels, lag):
        self.items = list(mine)
        self.sentinels = sentinels   # end-of-work markers the parent put after the files (one is left for this worker)
        self.lag = lag

    def get(self, block=True, timeout=None):
        if not block:
            return self.get_nowait()
        if self.items:
            return self.items.pop(0)
        if self.sentinels:
            self.sentinels = 0
            return None
        raise _WouldBlock("the worker waits on the work queue for ever: every file is taken and no end-of-work marker was put")

    def get_nowait(self):
        import queue
        if self.lag:
            self.lag = False
            raise queue.Empty()
        if not self.items:
            if self.sentinels:
                self.sentinels = 0
                return None
            raise queue.Empty()
        return self.items.pop(0)

    def empty(self):
        if self.lag:
            self.lag = False
            return True
        return not self.items and not self.sentinels


class _FakeLock(object):
    def acquire(self):
        pass

    def release(self):
        pass


class _FakeMP(object):
    """stands in for the `multiprocessing` name inside dendropy.application.sumtrees while
    parallel_analyze_trees runs"""

    def __init__(self, sched):
        self.sched = sched
        self.n = 0
        import multiprocessing
        self.Process = multiprocessing.Process
        self.cpu_count = multiprocessing.cpu_count

    def Queue(self):
        self.n += 1
        if self.n == 1:
            self.sched.work_queue = _FakeQueue()
            return self.sched.work_queue
        self.sched.results_queue = _FakeQueue(on_get=self.sched.run_workers, roundtrip=True)
        return self.sched.results_queue

    def Lock(self):
        return _FakeLock()


class _Sched(object):
    def __init__(self, assign, arrival, paths, lag=False):
        self.assign, self.arrival, self.paths, self.lag = assign, arrival, paths, lag
        self.workers = []
        self.order_of_files = []

    def run_workers(self):
        for w in self.arrival:
            worker = self.workers[w]
            mine = [self.paths[f] for f in range(len(self.paths)) if self.assign[f] == w]
            self.order_of_files.extend(f for f in range(len(self.paths)) if self.assign[f] == w)
            put = self.work_queue.items
            if sorted(x for x in put if x is not None) != sorted(self.paths) or any(x is None for x in put[:len(self.paths)]):
                raise _WouldBlock("the work queue does not hold exactly the input files followed by end-of-work markers: %r" % (put,))
            nsent = sum(1 for x in put if x is None)
            # (fewer markers than workers: some worker finds none; the scheduler lets it be the one that arrives last)
            worker.work_queue = _WorkQueue(mine, 1 if nsent > self.arrival.index(w) else 0, self.lag)
            worker.run()  # the real TreeAnalysisWorker.run, in this process


def _sumtrees_sched(case):
    from dendropy.application import sumtrees
    P = Pool(case)
    files = case["files"]
    force = case.get("force")  # None = implicit rooting of the sources
    annotated = case.get("annotated", True)
    d = tempfile.mkdtemp(prefix="c06_")
    fails = []
    try:
        paths = []
        for k, idxs in enumerate(files):
            p = os.path.join(d, "f%d.tre" % k)
            with open(p, "w") as f:
                f.write(P.newick(idxs, annotated=annotated))
            paths.append(p)
        st = case.get("settings") or {}
        kw = dict(is_source_trees_rooted=force, ignore_edge_lengths=False, ignore_node_ages=st.get("ignore_node_ages", True), use_tree_weights=True,
                  ultrametricity_precision=constants.DEFAULT_ULTRAMETRICITY_PRECISION,
                  taxon_label_age_map=(dict(st["taxon_label_age_map"]) if st.get("taxon_label_age_map") else None),
                  log_frequency=case.get("log_frequency", 0), messenger=None, debug_mode=True)
        nproc = case["nproc"]
        burn = case.get("tree_offset", 0)   # burn-in: the first `burn` trees of EVERY file are skipped
        sched = _Sched(case["assign"], case["arrival"], paths, lag=bool(case.get("lag")))
        saved = (sumtrees.multiprocessing, sumtrees.TreeAnalysisWorker.start, getattr(sumtrees.TreeAnalysisWorker, "terminate"))
        sumtrees.multiprocessing = _FakeMP(sched)
        sumtrees.TreeAnalysisWorker.start = lambda self: sched.workers.append(self)
        sumtrees.TreeAnalysisWorker.terminate = lambda self: None
        master = None
        try:
            tp = sumtrees.TreeProcessor(num_processes=nproc, **kw)
            ns = K.make_namespace(LABELS)
            try:
                master = tp.parallel_analyze_trees(tree_sources=paths, schema="newick", taxon_namespace=ns, tree_offset=burn)
            except Timeout:
                raise
            except _WouldBlock as ex:
                fails.append(("sumtrees.collation.work-queue-protocol", str(ex)))
            except Exception as ex:
                lib, where = _lib_error(ex)
                if not lib:
                    raise
                idle = any(w not in case["assign"] for w in range(nproc))
                fails.append(("sumtrees.collation.%s" % ("refuses-idle-worker" if idle and "ncompatible" in type(ex).__name__ else "raises"),
                              "%s: %s (at %s)" % (type(ex).__name__, " ".join(str(ex).split())[:200], where)))
        finally:
            sumtrees.multiprocessing, sumtrees.TreeAnalysisWorker.start, sumtrees.TreeAnalysisWorker.terminate = saved
        if master is not None:
            order = [i + 100 for f in sched.order_of_files for i in files[f][burn:]]
            audit(P, master, order, fails, "sumtrees.collation", ns=master.taxon_namespace)
            # ... and against the serial run of the same program
            tp1 = sumtrees.TreeProcessor(num_processes=1, **kw)
            ser = tp1.serial_analyze_trees(tree_sources=paths, schema="newick", taxon_namespace=K.make_namespace(LABELS), tree_offset=burn)
            sfails = []
            audit(P, ser, [i + 100 for idxs in files for i in idxs[burn:]], sfails, "sumtrees.serial", ns=ser.taxon_namespace)
            fails.extend(sfails)
            if not fails and not sfails:
                a = sorted((Q.split_key(Q.decode(m, Q.bit_table(master.taxon_namespace), P.L, P.r), P.r), f)
                           for m, f in master.split_distribution.split_frequencies.items())
                b = sorted((Q.split_key(Q.decode(m, Q.bit_table(ser.taxon_namespace), P.L, P.r), P.r), f)
                           for m, f in ser.split_distribution.split_frequencies.items())
                if a != b:
                    fails.append(("sumtrees.collation.same-as-serial", "parallel %r, serial %r" % (a, b)))
    finally:
        shutil.rmtree(d, ignore_errors=True)
    return fails


# ----------------------------------------------------------------------------- SumTrees, real command line
def _parse_summary(path, P):
    t = dendropy.Tree.get(path=path, schema="newick", taxon_namespace=K.make_namespace(LABELS), extract_comment_metadata=True)
    r = bool(t.is_rooted)
    out = {}
    for nd in S.pre(t._seed_node):
        s = Q.node_split(nd, P.L, r)
        sup = nd.annotations.get_value("support")
        out[Q.split_key(s, r)] = (None if sup is None else round(float(sup), 9), None if S.elen(nd) is None else round(S.elen(nd), 9))
    return t.is_rooted, out


def _sumtrees_cli(case):
    P = Pool(case)
    d = tempfile.mkdtemp(prefix="c06cli_")
    fails = []
    try:
        paths = []
        for k, idxs in enumerate(case["files"]):
            p = os.path.join(d, "f%d.tre" % k)
            text = P.newick(idxs, annotated=case.get("annotated", True))
            if case.get("underscores"):
                # every label gets an unquoted underscore (A -> A_sp); read with --preserve-underscores it is the label A_sp in every process
                text = re.sub(r"(?<![&\w'])([A-J])(?![\w'])", r"\1_sp", text)
            with open(p, "w") as f:
                f.write(text)
            paths.append(p)
        extra = []
        if case.get("force") is True:
            extra.append("--force-rooted")
        elif case.get("force") is False:
            extra.append("--force-unrooted")
        extra += list(case.get("args", []))

        def run(tag, more):
            out = os.path.join(d, tag + ".out")
            cmd = [sys.executable, "-m", "dendropy.application.sumtrees", "-q", "-r", "-F", "newick", "-o", out] + extra + more + paths
            try:
                pr = subprocess.run(cmd, stdout=subprocess.PIPE, stderr=subprocess.STDOUT, timeout=120, cwd=d)
            except subprocess.TimeoutExpired:
                return None, "no result within 120 s"
            if pr.returncode != 0 or not os.path.exists(out):
                return None, "exit %d: %s" % (pr.returncode, " ".join(pr.stdout.decode("utf8", "replace").split())[-300:])
            if case.get("underscores"):
                with open(out) as f:
                    txt = f.read()
                if "_sp" not in txt:
                    return None, "the summary does not carry the labels of the sources (A_sp, ...): %s" % " ".join(txt.split())[:200]
                with open(out, "w") as f:
                    f.write(re.sub(r"'?([A-J])_sp'?", r"\1", txt))
            return _parse_summary(out, P), None

        ser, err = run("serial", [])
        if ser is None:
            fails.append(("sumtrees-cli.serial.raises", err))
            return fails
        # the work queue is a real multiprocessing.Queue here: a worker may find it (still) empty
        # and quit, which is OS scheduling (N/A clause); only a failure that repeats 3 times
        # in a row is reported, a transient one is returned as a note
        errs = []
        for attempt in range(3):
            par, err = run("par", ["-m", str(case["nproc"])])
            if par is not None:
                break
            errs.append(err)
        if par is None:
            fails.append(("sumtrees-cli.parallel.raises", errs[-1]))
            return fails
        if errs:
            fails.append(("NOTE", "sumtrees -m %d failed %d time(s) before succeeding (scheduling-dependent): %s" % (case["nproc"], len(errs), errs[0])))
        if ser != par:
            fails.append(("sumtrees-cli.same-as-serial", "serial %r, -m %d %r" % (ser, case["nproc"], par)))
        # supports of the serial summary against the direct count
        order = [i for idxs in case["files"] for i in idxs]
        force = case.get("force")
        r = bool(force if force is not None else (P.rooted if case.get("annotated", True) else None))
        sets = []
        for i in order:
            t = K.build(P.specs[i], P.ns, rooted=r)
            sets.append(Q.tree_splits(t, r, P.L))
        exp = Q.expected_frequencies(sets, [None] * len(order), True)
        expk = dict((Q.split_key(s, r), f) for s, f in exp.items())
        for k, (sup, ln) in sorted(ser[1].items()):
            if sup is not None and not Q.feq(sup, expk.get(k, Fraction(0)), 1e-6):
                fails.append(("sumtrees-cli.support", "node %s: support %r, frequency %s" % (k, sup, expk.get(k, 0))))
    finally:
        shutil.rmtree(d, ignore_errors=True)
    return fails


# ----------------------------------------------------------------------------- protocol
def run_case(case):
    """-> list of (monitor, detail, key, case)"""
    limit = 300 if case["what"] == "sumtrees-cli" else 30
    try:
        with time_limit(limit):
            if case["what"] == "history":
                return _history(case)
            if case["what"] == "sumtrees-sched":
                k = _sched_key(case)
                return [(m, d, k, case) for m, d in _sumtrees_sched(case)]
            if case["what"] == "sumtrees-cli":
                k = _cli_key(case)
                return [(m, d, k, case) for m, d in _sumtrees_cli(case)]  # may contain ("NOTE", text, ...)
            raise ValueError(case["what"])
    except Timeout:
        return [(case["what"] + ".terminates", "no result within %d s" % limit, _any_key(case), case)]


def _sched_key(case):
    rt = {True: "R", False: "U", None: "N"}[case["rooted"]]
    return "sumtrees-sched|%s|pool=%s|annotated=%s|force=%s|files=%s|nproc=%d|assign=%s|arrival=%s|log=%s" % (
        rt, case.get("pool", "plain"), case.get("annotated", True), case.get("force"), "/".join(",".join("T%d" % i for i in f) for f in case["files"]),
        case["nproc"], "".join(str(x) for x in case["assign"]), "".join(str(x) for x in case["arrival"]),
        "%s,burn=%s%s" % (case.get("log_frequency", 0), case.get("tree_offset", 0), ",lag" if case.get("lag") else ""))


def _cli_key(case):
    rt = {True: "R", False: "U", None: "N"}[case["rooted"]]
    return "sumtrees-cli|%s|annotated=%s|force=%s|files=%s|-m %d|%s" % (
        rt, case.get("annotated", True), case.get("force"), "/".join(",".join("T%d" % i for i in f) for f in case["files"]),
        case["nproc"], " ".join(case.get("args", [])))


def _any_key(case):
    return {"history": _hist_key, "sumtrees-sched": _sched_key, "sumtrees-cli": _cli_key}[case["what"]](case)


def eval_case(item):
    case = item["case"]
    fails = run_case(case)
    return dict(scope=item["scope"], key=_any_key(case), nontrivial=item.get("nontrivial", True),
                fails=[(m, d, k, c) for m, d, k, c in fails], case=None)


# ----------------------------------------------------------------------------- enumeration
SINGLES = [["add_tree"], ["append"], ["insert", "0"], ["insert", "mid"], ["insert", "-1"]]
MERGES = ["update", "extend", "iadd", "add", "radd"]
HOWS = ["add", "explicit", "list", "read", "read-forced"]


def _alphabet(sizes=(0, 1, 2), hows=HOWS):
    """op templates: ('single', template) or ('merge', name, how, size)"""
    out = [("single", s) for s in SINGLES]
    for name in MERGES:
        for how in hows:
            for k in sizes:
                if k == 0 and how in ("read", "read-forced"):
                    continue  # an empty source text is not a sub-collection
                out.append(("merge", name, how, k))
    return out


def _instantiate(templates):
    """consume pool trees 0,1,2,... in order; None when more than 5 trees are needed"""
    nxt = 0
    ops = []
    for t in templates:
        if t[0] == "single":
            if nxt >= 5:
                return None
            tpl = t[1]
            ops.append([tpl[0], nxt] if len(tpl) == 1 else [tpl[0], tpl[1], nxt])
            nxt += 1
        else:
            _, name, how, k = t
            if nxt + k > 5:
                return None
            ops.append([name, {"how": how, "trees": list(range(nxt, nxt + k))}])
            nxt += k
    return ops


def _configs(quick):
    """(rooted, pool, weights, settings, masters)"""
    cf = [
        (False, "plain", "none", {}),
        (True, "plain", "mixed", {}),  # tree weights {None,2,1/2,1,2}; text sources do not carry them
        (True, "ultra", "none", {"ignore_node_ages": False}),
    ]
    return cf


def gen_histories(maxlen, alphabet, scope, configs, masters=("None", "explicit")):
    for rooted, pool, wts, st in configs:
        for master in masters:
            for n in range(1, maxlen + 1):
                for combo in itertools.product(alphabet, repeat=n):
                    ops = _instantiate(combo)
                    if ops is None:
                        continue
                    yield dict(scope=scope, nontrivial=(n >= 2 and any(c[0] == "merge" for c in combo)),
                               case=dict(what="history", rooted=rooted, pool=pool, weights=wts, settings=st, master=master, ops=ops,
                                         final_only=True))


def gen_random_histories(rng, count, alphabet, scope, lmin, lmax):
    cfs = [
        (False, "plain", "none", {}), (True, "plain", "none", {}), (True, "ultra", "none", {"ignore_node_ages": False}),
        (None, "plain", "none", {}), (False, "plain", "mixed", {}), (True, "plain", "mixed", {}),
        (True, "plain", "none", {"ignore_edge_lengths": True}), (False, "plain", "none", {"ignore_edge_lengths": True}),
        (True, "partial", "none", {}), (True, "partial", "mixed", {}),
        (True, "ultra", "none", {"ignore_edge_lengths": True, "ignore_node_ages": False}),
        (True, "ultra", "none", {"ignore_edge_lengths": True, "ignore_node_ages": True}),
        (True, "ultra", "mixed", {"ignore_edge_lengths": False, "ignore_node_ages": True}),
        (True, "plain", "mixed", {"use_tree_weights": False}), (False, "plain", "mixed", {"use_tree_weights": False}),
        (True, "tipdated", "none", {"ignore_node_ages": False, "taxon_label_age_map": TIP_AGES}),
    ]
    n = 0
    while n < count:
        rooted, pool, wts, st = cfs[rng.randrange(len(cfs))]
        combo = [alphabet[rng.randrange(len(alphabet))] for _ in range(rng.randint(lmin, lmax))]
        if rooted is None:  # undefined rooting cannot be written as a token or forced
            combo = [c for c in combo if not (c[0] == "merge" and c[2] in ("read", "read-forced", "explicit"))]
        ops = _instantiate(combo)
        if not ops:
            continue
        n += 1
        yield dict(scope=scope, nontrivial=True,
                   case=dict(what="history", rooted=rooted, pool=pool, weights=wts, settings=st,
                             master=rng.choice(["None", "explicit"]) if rooted is not None else "None", ops=ops))


def _ordered_partitions(items):
    """every ordered partition of items into non-empty blocks (blocks keep item order)"""
    items = list(items)
    if not items:
        yield []
        return
    n = len(items)
    for mask in range(1, 2 ** n):
        first = [items[i] for i in range(n) if mask >> i & 1]
        rest = [items[i] for i in range(n) if not mask >> i & 1]
        for p in _ordered_partitions(rest):
            yield [first] + p


def gen_partitions(kmax, scope, max_empty=2):
    """every ordered partition of k<=kmax trees into blocks, with up to max_empty empty blocks
    inserted at every position, merged by one operation into an empty master"""
    for rooted in (True, False):
        for k in range(1, kmax + 1):
            for part in _ordered_partitions(range(k)):
                for ne in range(0, max_empty + 1):
                    for pos in itertools.combinations(range(len(part) + ne), ne):
                        blocks, it = [], iter(part)
                        for j in range(len(part) + ne):
                            blocks.append([] if j in pos else next(it))
                        for name in ("update", "extend", "iadd", "add"):
                            for how in ("add", "explicit"):
                                for master in ("None", "explicit"):
                                    ops = [[name, {"how": how, "trees": b}] for b in blocks]
                                    yield dict(scope=scope, nontrivial=(len(blocks) >= 2),
                                               case=dict(what="history", rooted=rooted, pool="plain", weights="none", settings={},
                                                         master=master, ops=ops))


def gen_sched(quick, rng, scope):
    files = [[0, 1], [2], [3, 4]]
    confs = [  # (rooted of the pool trees, annotated, force)
        (False, True, None), (True, True, None), (False, False, None), (False, False, False), (True, False, True),
        (False, True, False), (True, True, True),
    ]
    for rooted, annotated, force in confs:
        rt = rooted if annotated else None
        for nproc in (2, 3, 5):
            assigns = list(itertools.product(range(nproc), repeat=3))
            arrivals = list(itertools.permutations(range(nproc)))
            combos = [(a, p) for a in assigns for p in arrivals]
            if nproc == 5:
                combos = [combos[rng.randrange(len(combos))] for _ in range(40 if quick else 400)]
            for i, (a, p) in enumerate(combos):
                yield dict(scope=scope, nontrivial=True,
                           case=dict(what="sumtrees-sched", rooted=rt if force is None else force, pool="plain", weights="none", settings={},
                                     files=files, annotated=annotated, force=force, nproc=nproc, assign=list(a), arrival=list(p),
                                     log_frequency=(i % 2), tree_offset=(1 if i % 3 == 2 else 0), lag=(i % 4 == 1)))
    # node ages collected: contemporaneous tips (ultrametric pool) and tip-dated trees with a tip-age map (sumtrees --tip-ages)
    for pool, st in (("ultra", {"ignore_node_ages": False}), ("tipdated", {"ignore_node_ages": False, "taxon_label_age_map": TIP_AGES})):
        for nproc in (2, 3):
            assigns = list(itertools.product(range(nproc), repeat=3))
            arrivals = list(itertools.permutations(range(nproc)))
            combos = [(a, p) for a in assigns for p in arrivals]
            if quick:
                combos = [combos[rng.randrange(len(combos))] for _ in range(12)]
            for i, (a, p) in enumerate(combos):
                yield dict(scope=scope, nontrivial=True,
                           case=dict(what="sumtrees-sched", rooted=True, pool=pool, weights="none", settings=dict(st),
                                     files=files, annotated=True, force=None, nproc=nproc, assign=list(a), arrival=list(p),
                                     log_frequency=0, tree_offset=0, lag=(i % 4 == 1)))


def gen_cli(scope):
    files = [[0, 1], [2], [3, 4]]
    for rooted, annotated, force in [(False, False, False), (False, True, False), (True, True, True)]:
        for nproc in (1, 2, 3, 5):
            yield dict(scope=scope, nontrivial=True,
                       case=dict(what="sumtrees-cli", rooted=rooted, pool="plain", weights="none", settings={}, files=files,
                                 annotated=annotated, force=force, nproc=nproc, args=[]))
    # labels with unquoted underscores, kept as they are (--preserve-underscores): the taxa a parallel run discovers up front are the taxa its workers read
    for nproc in (1, 2, 3):
        yield dict(scope=scope, nontrivial=True,
                   case=dict(what="sumtrees-cli", rooted=True, pool="plain", weights="none", settings={}, files=files,
                             annotated=True, force=True, nproc=nproc, args=["--preserve-underscores"], underscores=True))


# ----------------------------------------------------------------------------- driver
class _Rep(K.Reporter):
    """fails carry their own key/case (the minimal failing prefix of the history)"""

    def add(self, res):
        ctx = self.ctx
        ctx.case(res["scope"], res["key"], nontrivial=res.get("nontrivial", True), sample=res["key"])
        for mon, detail, key, case in res.get("fails", ()):
            if mon == "NOTE":
                ctx.note("observation (not failed) %s: %s" % (key, detail))
                continue
            tag = (mon, key)
            if tag in self.seen:
                continue
            self.seen.add(tag)
            n = self.per.get(mon, 0)
            if n >= self.cap:
                self.over[mon] = self.over.get(mon, 0) + 1
                continue
            if ctx.fail(mon, {"key": key, "scope": res["scope"], "case": case}, detail=detail):
                self.per[mon] = n + 1


NEXUS_TRANSLATED = ("#NEXUS\nBEGIN TAXA;\n DIMENSIONS NTAX=4;\n TAXLABELS A B C D;\nEND;\nBEGIN TREES;\n TRANSLATE 1 B, 2 C, 3 D, 4 A;\n"
                    " TREE a = [&R] ((1,2),(3,4));\n TREE b = [&R] ((1,3),(2,4));\nEND;\n")
NEXUS_NUMBERED = ("#NEXUS\nBEGIN TAXA;\n DIMENSIONS NTAX=4;\n TAXLABELS A B C D;\nEND;\nBEGIN TREES;\n TREE c = [&R] ((1,2),(3,4));\n"
                  " TREE d = [&R] ((4,3),(2,1));\nEND;\n")


def nexus_files_scope(ctx):
    """which collection reads which FILE does not matter: a file whose TREES block has a TRANSLATE table of its own and a file that names its tips
    by taxon number, read through ONE reader (read_from_files, as a serial SumTrees run does) and through one reader per file (as workers do)"""
    sc = "files@nexus-translate"
    ctx.scope(sc, rule="two NEXUS files (TRANSLATE 1 B, 2 C, 3 D, 4 A / tips by taxon number, no TRANSLATE) x both orders x {one read_from_files call, "
                       "one collection per file merged by update}: the same split counts, and the counts of the four trees as written", exhaustive=True)
    want = {"AB|CD": 2.0, "AC|BD": 1.0, "AD|BC": 1.0}

    def counts(ta):
        ns = ta.taxon_namespace
        out = {}
        for s_, c in ta.split_distribution.split_counts.items():
            labs = sorted(t.label for t in ns.bitmask_taxa_list(s_))
            if len(labs) == 2 and "A" in labs:
                rest = sorted(set("ABCD") - set(labs))
                out["%s|%s" % ("".join(labs), "".join(rest))] = c
            elif len(labs) == 2 and "A" not in labs:
                rest = sorted(set("ABCD") - set(labs))
                out.setdefault("%s|%s" % ("".join(rest), "".join(labs)), c)
        return out
    for oi, order in enumerate(((NEXUS_TRANSLATED, NEXUS_NUMBERED), (NEXUS_NUMBERED, NEXUS_TRANSLATED))):
        key = "files@nexus-translate|order=%d" % oi
        ctx.case(sc, key, True)
        try:
            ns = dendropy.TaxonNamespace()
            one = TreeArray(taxon_namespace=ns)
            one.read_from_files([io.StringIO(x) for x in order], "nexus")
            ns2 = dendropy.TaxonNamespace()
            per = TreeArray(taxon_namespace=ns2)
            for x in order:
                part = TreeArray(taxon_namespace=ns2)
                part.read(data=x, schema="nexus")
                per.update(part)
            a, b = counts(one), counts(per)
        except Exception as ex:  # noqa
            ctx.fail("read_from_files.raises", dict(key=key, scope=sc, order=oi), detail="%s: %s: %s" % (key, type(ex).__name__, ex))
            continue
        if a != want or b != want:
            ctx.fail("read_from_files.same-whoever-reads-the-file", dict(key=key, scope=sc, order=oi),
                     detail="%s: one reader over both files counts %r, one reader per file %r; the four trees as written have %r" % (key, a, b, want))


def t2(ctx):
    import time
    quick = ctx.tier == "quick"
    rep = _Rep(ctx, cap=30)

    def run(scope, rule, exhaustive, items, chunk=40):
        t0 = time.time()
        ctx.scope(scope, rule=rule, exhaustive=exhaustive)
        for res in K.run_chunks(eval_case, items, chunk=chunk):
            rep.add(res)
        ctx.note("scope %s: %d evaluations in %.1f s" % (scope, ctx.scopes[scope]["evaluations"], time.time() - t0))

    alpha = _alphabet()
    L = 2
    run("histories<=%d" % L,
        "every sequence of <=%d operations from {add_tree, append, insert@0/mid/-1} + {update, extend, +=, +, reversed +} x "
        "sub-collection built by {add_tree, explicit is_rooted_trees, from_tree_list, read [&R]/[&U], read forced rooting} x "
        "block size {0,1,2} (%d operations), pool trees consumed in order, x master {implicit, explicit rooting} x "
        "{unrooted, rooted with tree weights, rooted ultrametric with node ages}; audited after every step; non-trivial = >=2 ops with a merge"
        % (L, len(alpha)), True, gen_histories(L, alpha, "histories<=%d" % L, _configs(quick)))
    small = [a for a in alpha if (a[0] == "single" and a[1] in (["add_tree"], ["insert", "0"]))
             or (a[0] == "merge" and a[2] in ("add", "explicit", "read") and a[3] <= 1)]
    singles = [a for a in alpha if a[0] == "single"]
    part = [(True, "partial", "none", {})]
    ls = 4 if quick else 5
    run("leafsets,singles<=%d" % ls, "rooted pool whose trees carry different SUBSETS of the namespace (A-D, B-E, all, ABDE, ACDE): every "
        "schedule of <=%d accessions by add_tree / append / insert@0 / insert@mid / insert@-1 x master {implicit, explicit}; the i-th "
        "leafset bitmask, the scores / argmax / maximum-credibility tree and every other audit against per-tree oracles" % ls, True,
        gen_histories(ls, singles, "leafsets,singles<=%d" % ls, part))
    la = small if quick else alpha
    run("leafsets,merges<=2", "same pool, every history of 1-2 operations over the %s alphabet (%d operations incl. the 5 merges)"
        % ("reduced" if quick else "full", len(la)), True, gen_histories(2, la, "leafsets,merges<=2", part))
    combos = [(True, "ultra", "none", {"ignore_edge_lengths": True, "ignore_node_ages": False}),
              (True, "ultra", "none", {"ignore_edge_lengths": True, "ignore_node_ages": True}),
              (True, "ultra", "none", {"ignore_edge_lengths": False, "ignore_node_ages": True}),
              (True, "plain", "mixed", {"use_tree_weights": False}), (False, "plain", "mixed", {"use_tree_weights": False}),
              # tip-dated collections: what is added to a merged collection (also to a sum a + b) is aged under the operands' settings
              (True, "tipdated", "none", {"ignore_node_ages": False, "taxon_label_age_map": TIP_AGES})]
    run("settings<=2", "rooted ultrametric pool under the option combinations (ignore_edge_lengths, ignore_node_ages) = (T,F), (T,T), (F,T) "
        "[(F,F) is in histories<=2], the weighted pools with use_tree_weights=False, and the tip-dated pool: every history of 1-2 operations over the %s alphabet (%d operations); per-split node-age multisets "
        "and the age summaries on the consensus tree against the per-tree oracle" % ("reduced" if quick else "full", len(la)), True,
        gen_histories(2, la, "settings<=2", combos))
    if not quick:
        small = [a for a in alpha if (a[0] == "single" and a[1] in (["add_tree"], ["insert", "0"]))
                 or (a[0] == "merge" and a[2] in ("add", "explicit", "read") and a[3] <= 1)]
        run("histories=3,reduced", "every sequence of exactly 3 operations over the reduced alphabet {add_tree, insert@0} + 5 merges x "
            "{add_tree, explicit, read} x block size {0,1} (%d operations), same configurations" % len(small), True,
            (h for h in gen_histories(3, small, "histories=3,reduced", _configs(quick)) if len(h["case"]["ops"]) == 3))
    run("histories-random", "seeded random histories of %s operations over 8 configurations (undefined rooting, tree weights, "
        "ignore_edge_lengths, node ages)" % ("3-4" if quick else "4-5"), False,
        gen_random_histories(rng_for(ctx, 61), 1500 if quick else 20000, alpha, "histories-random", 3 if quick else 4, 4 if quick else 5))
    kmax = 3 if quick else 4
    run("partitions<=%d" % kmax, "every ordered partition of 1..%d trees into blocks with 0-2 empty blocks at every position, merged "
        "into an empty master by update / extend / += / +, blocks and master with implicit or explicit rooting, both rootings; "
        "non-trivial = >=2 blocks" % kmax, True, gen_partitions(kmax, "partitions<=%d" % kmax))
    run("sumtrees-sched", "real collation loop + real worker run() under a deterministic scheduler: 3 files x N in {2,3,5} workers, every "
        "file->worker assignment x every arrival order (N=5: seeded sample), 7 rooting configurations (annotated/unannotated sources, "
        "implicit/forced rooting), log_frequency 0/1", False, gen_sched(quick, rng_for(ctx, 62), "sumtrees-sched"), chunk=10)
    run("sumtrees-cli", "the real command line, -m 1/2/3/5 against the serial run, with forced rooting (3 source configurations; "
        "smoke: outcomes with implicit rooting depend on OS scheduling on the unchanged tree and are covered by sumtrees-sched)", False, gen_cli("sumtrees-cli"), chunk=1)
    nexus_files_scope(ctx)
    rep.finish()


def replay(ctx, rec):
    if rec.get("witness", {}).get("scope") == "files@nexus-translate":
        class _C(object):
            hits = []

            def scope(self, *a, **k):
                pass

            def case(self, *a, **k):
                pass

            def fail(self, name, wit, detail=None):
                if name == rec["obligation"] and wit.get("key") == rec["witness"].get("key"):
                    self.hits.append(detail)
        c = _C()
        nexus_files_scope(c)
        for h in c.hits:
            print("  " + str(h))
        return not c.hits
    case = rec["witness"]["case"]
    fails = run_case(case)
    for m, d, k, c in fails:
        print("  %s :: %s" % (m, d))
    return not any(m == rec["obligation"] for m, d, k, c in fails if m != "NOTE")
