"""C16 -- parsimony scores are minimal change counts and pure functions of tree and matrix.

Bounded stand-in (T2).  The real `dendropy.model.parsimony.parsimony_score` (also reached as
`dendropy.calculate.treescore.parsimony_score`) and `fitch_down_pass` are run on trees built
through the Node API and matrices built with `from_dict`; the oracle is /verif/specs/parsimony.py:
IUPAC symbol tables written down independently, Sankoff's dynamic programme with unit costs for
the minimum number of changes (cross-checked against brute-force enumeration of all internal
assignments in this run), weights applied per column.

Scopes
  min@1col            every ordered binary shape with 2..4 leaves (root of degree 2) and every basal-polytomy
                      form of the same unrooted trees (DendroPy's unrooted representation, root of degree 3)
                      x EVERY one-column DNA matrix over the full symbol set (A C G T, 11 ambiguity codes, gap,
                      missing; quick: 9 symbols at 4 leaves) x gaps_as_missing in {True, False}: score = minimum,
                      per-character list = [minimum], its sum = score.  All leaf labellings are covered because
                      all matrices are.
  weights@2col        every two-column matrix over {A,C,R,-} on the 3-leaf shapes x weight vectors {None,(2,3),
                      (0,0.5),(0.25,4)} x both gap modes: score = sum w_c * min_c, list[c] = w_c * min_c.
  types@random        seeded random cases for every discrete type (DNA, RNA, protein, standard, restriction
                      sites): 2..7 leaves, 1..4 columns over the type's full symbol set, weights (None / ints /
                      dyadic floats / zeros), both gap modes, namespaces with extra taxa and matrices with extra
                      rows, leaves in an order different from the namespace; parsimony_score and
                      fitch_down_pass(state_sets_attr_name=None) must both give the weighted minimum.
  rooting@unrooted    for every binary shape with 4..5 (thorough ..6) leaves x random two-column matrices: the score
                      on every rooting (every edge; every internal node as a basal trifurcation) and under child-order
                      flips equals the score on the base tree and the oracle minimum.
  history@pairs       one tree object scored twice/three times: every ordered pair of one-column matrices over
                      {A,C,R,-} (thorough {A,C,G,R,-,?}) on the 3-leaf shapes, and sampled pairs on 4 leaves, with every
                      combination of gap modes.  The k-th call must return what the same call on a freshly built tree
                      returns (the relational clause of the statement; minimality is the business of the other scopes).
                      Separate monitors (classified against the first call on the object): a repeat of the first call,
                      the first matrix with the other gap mode, another matrix; and the same for fitch_down_pass without
                      node attributes.

Every evaluation outside `history@pairs` uses a freshly built tree, so the known history dependence
(leaf state sets cached on the nodes) cannot leak into the other monitors.

Left out: fitch_up_pass (the statement says nothing about final state sets), polytomies other than the basal
trifurcation (statement: fully bifurcating trees), negative weights, float weights that are not dyadic (sums would
depend on rounding order), taxa of the tree without a matrix row (KeyError, not covered by the statement).

Failures are de-duplicated: per monitor the 3 smallest witnesses are reported; totals go to the notes."""
import itertools

from bounded.common import *  # noqa
from specs import parsimony as P

import dendropy
from dendropy.datamodel.treemodel import Node, Tree
from dendropy.datamodel.taxonmodel import TaxonNamespace
from dendropy.model import parsimony as DP
from dendropy.calculate import treescore as TS

MAX_REPORT = 3
LEAF_LABELS = ["t1", "t2", "t3", "t4", "t5", "t6", "t7", "t8"]

MATRIX_CLASS = {
    "dna": dendropy.DnaCharacterMatrix,
    "rna": dendropy.RnaCharacterMatrix,
    "protein": dendropy.ProteinCharacterMatrix,
    "standard": dendropy.StandardCharacterMatrix,
    "restriction": dendropy.RestrictionSitesCharacterMatrix,
}


# ----------------------------------------------------------------------------- building inputs
def build(t, taxa, rooted=None, internal_taxa=()):
    """DendroPy tree of a labelled nested tuple; taxa: label -> Taxon.  internal_taxa: labels of taxa put on internal nodes
    (in preorder) -- the score is a minimum over ALL assignments to internal nodes whatever taxa these nodes carry"""
    pool = list(internal_taxa)

    def mk(x):
        nd = Node()
        if P.is_leaf(x):
            nd.taxon = taxa[x]
        else:
            if pool:
                nd.taxon = taxa[pool.pop(0)]
            for c in x:
                nd.add_child(mk(c))
        return nd

    tr = Tree(seed_node=mk(t), taxon_namespace=taxa["__ns__"])
    tr.is_rooted = rooted
    return tr


def make_ns(labels):
    ns = TaxonNamespace(list(labels))
    taxa = dict((t.label, t) for t in ns)
    taxa["__ns__"] = ns
    return taxa


def make_matrix(dtype, rows, taxa):
    cls = MATRIX_CLASS[dtype]
    return cls.from_dict(dict((taxa[k], v) for k, v in rows.items()), taxon_namespace=taxa["__ns__"])


def rows_str(rows):
    return ",".join("%s:%s" % (k, rows[k]) for k in sorted(rows))


def parse_rows(s):
    return dict(kv.split(":", 1) for kv in s.split(",")) if s else {}


def w_str(w):
    return "None" if w is None else "[" + " ".join(repr(x) for x in w) + "]"


def case_key(api, dtype, gap, tstr, rows, weights):
    return "%s|%s|gap_missing=%d|tree=%s|rows=%s|w=%s" % (api, dtype, gap, tstr, rows_str(rows), w_str(weights))


class Acc(object):
    """per-task accumulator returned (as a dict) to the parent"""

    def __init__(self):
        self.evals = 0
        self.nontriv = 0
        self.sample = None
        self.fails = {}
        self.nfails = {}

    def case(self, key, nontrivial):
        self.evals += 1
        if nontrivial:
            self.nontriv += 1
        if self.sample is None:
            self.sample = key

    def fail(self, monitor, key, detail, witness, size):
        self.nfails[monitor] = self.nfails.get(monitor, 0) + 1
        lst = self.fails.setdefault(monitor, [])
        if len(lst) < MAX_REPORT:
            lst.append((size, key, detail, witness))

    def out(self):
        return dict(evals=self.evals, nontriv=self.nontriv, sample=self.sample, fails=self.fails, nfails=self.nfails)


def score_once(acc, api, t, tstr, taxa, dtype, rows, gap, weights, minima, size, rooted=None, tree=None, mon_prefix=None):
    """one real call on a fresh tree (or on `tree`) and its comparison with the oracle;
    returns the score (None if the call raised)"""
    want = P.weighted_score(minima, weights)
    key = case_key(api, dtype, gap, tstr, rows, weights)
    witness = dict(api=api, dtype=dtype, gap=gap, tree=tstr, rows=rows_str(rows), weights=weights, calls=None)
    m = make_matrix(dtype, rows, taxa)
    tr = tree if tree is not None else build(t, taxa, rooted)
    pre = mon_prefix or api
    try:
        if api == "parsimony_score":
            sbc = []
            got = DP.parsimony_score(tr, m, gaps_as_missing=gap, weights=weights, score_by_character_list=sbc)
        elif api == "treescore.parsimony_score":
            sbc = []
            got = TS.parsimony_score(tr, m, gaps_as_missing=gap, weights=weights, score_by_character_list=sbc)
        elif api == "parsimony_score[no_list]":
            sbc = None
            got = DP.parsimony_score(tr, m, gaps_as_missing=gap, weights=weights)
        elif api == "fitch_down_pass[no_attr]":
            sbc = []
            got = DP.fitch_down_pass(tr.postorder_node_iter(), state_sets_attr_name=None,
                                     taxon_state_sets_map=m.taxon_state_sets_map(gaps_as_missing=gap),
                                     weights=weights, score_by_character_list=sbc)
        elif api == "fitch_down_pass[attr]":
            # the documented call: the state sets are kept on the nodes of a FRESH tree under the default attribute name
            sbc = []
            got = DP.fitch_down_pass(tr.postorder_node_iter(), taxon_state_sets_map=m.taxon_state_sets_map(gaps_as_missing=gap),
                                     weights=weights, score_by_character_list=sbc)
        else:
            raise KeyError(api)
    except Exception as e:
        acc.fail(pre + ".raises", key, "%s: %s" % (type(e).__name__, e), witness, size)
        return None
    if got != want:
        acc.fail(pre + ".minimum", key,
                 "score %r, minimum number of changes per column %r with weights %s gives %r" % (got, minima, w_str(weights), want),
                 witness, size)
    if sbc is not None:
        if sum(sbc) != got:
            acc.fail(pre + ".per_character_sum", key, "per-character scores %r sum to %r, total score %r" % (sbc, sum(sbc), got), witness, size)
        each = [mi * (1 if weights is None else weights[i]) for i, mi in enumerate(minima)]
        if list(sbc) != each and got == want:
            acc.fail(pre + ".per_character_each", key, "per-character scores %r, required %r" % (sbc, each), witness, size)
    return got


# ----------------------------------------------------------------------------- scope workers
def forms_for(n):
    """[(description, labelled tree)]: every ordered binary shape with n leaves labelled left to right,
    and the basal-polytomy forms of their unrooted trees (deduplicated)"""
    out = []
    seen = set()
    for s in binary_shapes(n):
        t = P.label_shape(s, LEAF_LABELS[:n])
        out.append(("binary", t))
        seen.add(P.tree_str(t))
    for s in binary_shapes(n):
        t = P.label_shape(s, LEAF_LABELS[:n])
        for kind, r in P.rootings(t):
            if kind == "node" and P.tree_str(r) not in seen:
                seen.add(P.tree_str(r))
                out.append(("basal-polytomy", r))
    return out


def _w_min1col(task):
    n, syms, first = task
    acc = Acc()
    labels = LEAF_LABELS[:n]
    taxa = make_ns(labels)
    forms = forms_for(n)
    apis = ("parsimony_score", "treescore.parsimony_score", "parsimony_score[no_list]", "fitch_down_pass[no_attr]")
    k = 0
    for rest in itertools.product(syms, repeat=n - 1):
        col = (first,) + rest
        rows = dict((lab, col[i]) for i, lab in enumerate(labels))
        for gap in (True, False):
            for fi, (kind, t) in enumerate(forms):
                minima = P.column_minima(t, rows, "dna", gap)
                api = apis[k % 4] if k % 3 else "parsimony_score"
                k += 1
                tstr = P.tree_str(t)
                acc.case(None, minima[0] >= 1)
                score_once(acc, api, t, tstr, taxa, "dna", rows, gap, None, minima, size=n, rooted=(None, True, False)[k % 3])
    return acc.out()


def _w_weights(task):
    syms, first = task
    acc = Acc()
    n = 3
    labels = LEAF_LABELS[:n]
    taxa = make_ns(labels)
    forms = forms_for(n)
    WEIGHTS = (None, (2, 3), (0, 0.5), (0.25, 4))
    k = 0
    for rest in itertools.product(syms, repeat=2 * n - 1):
        cells = (first,) + rest
        rows = dict((lab, cells[2 * i] + cells[2 * i + 1]) for i, lab in enumerate(labels))
        for gap in (True, False):
            for kind, t in forms:
                minima = P.column_minima(t, rows, "dna", gap)
                for w in WEIGHTS:
                    api = ("parsimony_score", "fitch_down_pass[no_attr]", "treescore.parsimony_score")[k % 3]
                    k += 1
                    acc.case(None, minima[0] != minima[1])
                    score_once(acc, api, t, P.tree_str(t), taxa, "dna", rows, gap, list(w) if w else None, minima, size=n)
    return acc.out()


def random_binary(rng, labels):
    """random rooted binary tree on the labels (random joins)"""
    parts = list(labels)
    rng.shuffle(parts)
    while len(parts) > 1:
        i = rng.randrange(len(parts))
        a = parts.pop(i)
        j = rng.randrange(len(parts))
        b = parts.pop(j)
        parts.append((a, b))
    return parts[0]


def random_rows(rng, dtype, labels, ncol, p_special=0.35):
    fund, amb, gm = P.DATATYPES[dtype]
    special = sorted(amb) + ([P.GAP, P.MISSING] if gm else [])
    pool = list(fund)[: max(2, min(len(fund), 4))]   # few states -> ties and zero-change columns happen
    rows = {}
    for lab in labels:
        s = []
        for _ in range(ncol):
            if special and rng.random() < p_special:
                s.append(special[rng.randrange(len(special))])
            elif rng.random() < 0.15:
                s.append(fund[rng.randrange(len(fund))])
            else:
                s.append(pool[rng.randrange(len(pool))])
        rows[lab] = "".join(s)
    return rows


def _w_types(task):
    seed, dtype, count = task
    import random
    rng = random.Random(seed)
    acc = Acc()
    for _ in range(count):
        n = rng.randrange(2, 8)
        labels = LEAF_LABELS[:n]
        extra = ["x1", "x2"][: rng.randrange(0, 3)]
        nslabels = labels + extra
        rng.shuffle(nslabels)
        taxa = make_ns(nslabels)
        t = random_binary(rng, labels)
        if rng.random() < 0.3:
            # DendroPy's unrooted form of the same tree
            nodes = [r for kind, r in P.rootings(t) if kind == "node"]
            if nodes:
                t = nodes[rng.randrange(len(nodes))]
        ncol = rng.randrange(1, 5)
        rows = random_rows(rng, dtype, labels + [e for e in extra if rng.random() < 0.5], ncol)
        gap = rng.random() < 0.5
        wkind = rng.randrange(4)
        if wkind == 0:
            w = None
        elif wkind == 1:
            w = [rng.randrange(0, 4) for _ in range(ncol)]
        elif wkind == 2:
            w = [rng.choice([0.5, 0.25, 1.5, 2.0, 0.0]) for _ in range(ncol)]
        else:
            w = [0] * ncol
        minima = P.column_minima(t, rows, dtype, gap)
        itax = list(extra) if (extra and rng.random() < 0.5) else []
        for api in ("parsimony_score", "fitch_down_pass[no_attr]", "fitch_down_pass[attr]"):
            key = case_key(api, dtype, gap, P.tree_str(t), rows, w) + ("|internal-taxa=%s" % ",".join(itax) if itax else "")
            acc.case(key, sum(minima) >= 1)
            score_once(acc, api, t, P.tree_str(t), taxa, dtype, rows, gap, w, minima, size=100 + n,
                       tree=(build(t, taxa, internal_taxa=itax) if itax else None), mon_prefix=None)
    return acc.out()


def _w_rooting(task):
    seed, n, si, nmat = task
    import random
    rng = random.Random(seed)
    acc = Acc()
    labels = LEAF_LABELS[:n]
    taxa = make_ns(labels)
    base = P.label_shape(binary_shapes(n)[si], labels)
    roots = P.rootings(base)
    for _ in range(nmat):
        rows = random_rows(rng, "dna", labels, 2, p_special=0.3)
        gap = rng.random() < 0.5
        w = [1, 2] if rng.random() < 0.5 else None
        minima = P.column_minima(base, rows, "dna", gap)
        want = P.weighted_score(minima, w)
        for kind, r in roots:
            ni = P.n_internal(r)
            masks = range(1 << ni) if ni <= 3 else [0, (1 << ni) - 1, rng.randrange(1 << ni), rng.randrange(1 << ni)]
            for mask in masks:
                v = P.flip(r, mask)
                vm = P.column_minima(v, rows, "dna", gap)
                if P.weighted_score(vm, w) != want:
                    raise RuntimeError("oracle: minimum differs between rootings of one unrooted tree: %s vs %s" % (P.tree_str(base), P.tree_str(v)))
                key = case_key("parsimony_score", "dna", gap, P.tree_str(v), rows, w)
                acc.case(key, want >= 1)
                got = score_once(acc, "parsimony_score", v, P.tree_str(v), taxa, "dna", rows, gap, w, vm, size=n,
                                 mon_prefix="parsimony_score.rooting[%s]" % kind)
    return acc.out()


def history_monitor(api, calls, k):
    """name of the clause the k-th call (k >= 1) of a call sequence tests, classified against the FIRST call on the
    tree object (the one whose leaf state sets a caching implementation would have kept)"""
    (r0, g0) = calls[0]
    (rk, gk) = calls[k]
    base = "%s.history" % api
    if rk == r0 and gk == g0:
        return base + ".repeat_of_first_call"
    if rk == r0:
        return base + ".first_matrix_other_gap_mode"
    return base + ".other_matrix"


def run_history(acc, api, t, taxa, dtype, calls, size):
    """calls: [(rows, gap)], all on ONE tree object"""
    tstr = P.tree_str(t)
    tree = build(t, taxa)
    mats = {}
    for k, (rows, gap) in enumerate(calls):
        minima = P.column_minima(t, rows, dtype, gap)
        want = sum(minima)
        # one matrix OBJECT per distinct content: a matrix scored again (under the same or the other gap mode) is the same object,
        # as in user code -- the score must be a function of the tree and matrix passed in, not of what was asked of them before
        mk = rows_str(rows)
        if mk not in mats:
            mats[mk] = make_matrix(dtype, rows, taxa)
        m = mats[mk]
        key = "%s|%s|tree=%s|calls=%s" % (api, dtype, tstr, ";".join("%s/gap_missing=%d" % (rows_str(r), g) for r, g in calls[: k + 1]))
        witness = dict(api=api, dtype=dtype, tree=tstr, calls=[[rows_str(r), bool(g)] for r, g in calls[: k + 1]], history=True)
        mon = ("%s.minimum" % api) if k == 0 else history_monitor(api, calls, k)
        try:
            if api == "parsimony_score":
                got = DP.parsimony_score(tree, m, gaps_as_missing=gap)
            else:
                got = DP.fitch_down_pass(tree.postorder_node_iter(), state_sets_attr_name=None,
                                         taxon_state_sets_map=m.taxon_state_sets_map(gaps_as_missing=gap))
        except Exception as e:
            acc.fail(mon + ".raises" if k else "%s.raises" % api, key, "%s: %s" % (type(e).__name__, e), witness, size + k)
            return
        if k == 0:
            continue        # an ordinary fresh-tree evaluation: minimality is reported by the other scopes
        acc.case(key, want != sum(P.column_minima(t, calls[k - 1][0], dtype, calls[k - 1][1])))
        fresh = fresh_score(api, t, taxa, dtype, rows, gap)
        if isinstance(fresh, str):
            continue        # the fresh call itself raises: reported by the .raises monitors
        if got != fresh:
            acc.fail(mon, key, "call %d on the same tree object returns %r; the same call on a freshly built tree returns %r "
                     "(minimum number of changes %r)" % (k + 1, got, fresh, want), witness, size + k)


def fresh_score(api, t, taxa, dtype, rows, gap):
    try:
        m = make_matrix(dtype, rows, taxa)
        tr = build(t, taxa)
        if api == "parsimony_score":
            return DP.parsimony_score(tr, m, gaps_as_missing=gap)
        return DP.fitch_down_pass(tr.postorder_node_iter(), state_sets_attr_name=None,
                                  taxon_state_sets_map=m.taxon_state_sets_map(gaps_as_missing=gap))
    except Exception as e:
        return "%s: %s" % (type(e).__name__, e)


def _w_history(task):
    syms, first_cells = task
    acc = Acc()
    n = 3
    labels = LEAF_LABELS[:n]
    taxa = make_ns(labels)
    forms = [t for kind, t in forms_for(n)]
    cols = list(itertools.product(syms, repeat=n))
    r1 = dict((lab, first_cells[i]) for i, lab in enumerate(labels))
    for c2 in cols:
        r2 = dict((lab, c2[i]) for i, lab in enumerate(labels))
        for g1 in (True, False):
            for g2 in (True, False):
                for t in forms:
                    run_history(acc, "parsimony_score", t, taxa, "dna", [(r1, g1), (r2, g2), (r1, g1)], size=n)
        # the attribute-free route once per pair
        run_history(acc, "fitch_down_pass[no_attr]", forms[0], taxa, "dna", [(r1, True), (r2, True), (r1, False)], size=n)
        # one matrix object under both gap treatments, in both orders
        for g1 in (True, False):
            run_history(acc, "parsimony_score", forms[0], taxa, "dna", [(r2, g1), (r2, not g1), (r2, g1)], size=n)
    return acc.out()


def _w_history_random(task):
    seed, count = task
    import random
    rng = random.Random(seed)
    acc = Acc()
    for _ in range(count):
        n = rng.randrange(4, 7)
        labels = LEAF_LABELS[:n]
        taxa = make_ns(labels)
        t = random_binary(rng, labels)
        dtype = rng.choice(["dna", "dna", "standard", "protein"])
        ncol = rng.randrange(1, 4)
        calls = []
        for _k in range(rng.randrange(2, 5)):
            if calls and rng.random() < 0.25:
                calls.append((calls[rng.randrange(len(calls))][0], rng.random() < 0.5))
            else:
                calls.append((random_rows(rng, dtype, labels, ncol), rng.random() < 0.5))
        run_history(acc, "parsimony_score", t, taxa, dtype, calls, size=100 + n)
    return acc.out()


# ----------------------------------------------------------------------------- user-defined alphabets
# fundamental symbols 0,1,2; P = {0,1} (ambiguous); Q = {P,2} (ambiguous, defined from another code: {0,1,2});
# R = {2,P} (polymorphic, nested); W = {1,2} (polymorphic, flat); `?` and `-` as in every standard alphabet
CUSTOM_CODES = {"P": "01", "Q": "012", "R": "012", "W": "12"}


def custom_alphabet(fundamental="012", codes=True):
    sa = dendropy.new_standard_state_alphabet(fundamental)
    if codes:
        p = sa.new_ambiguous_state("P", member_state_symbols="01")
        # (member_states is documented as an iterable: a generator and an iterator here, lists elsewhere)
        sa.new_ambiguous_state("Q", member_states=(x for x in [p, sa["2"]]))
        sa.new_polymorphic_state("R", member_states=iter([sa["2"], p]))
        sa.new_polymorphic_state("W", member_state_symbols="12")
    sa.compile_lookup_mappings()
    return sa


def custom_set(sym, fundamental, gap):
    if sym in CUSTOM_CODES:
        return set(CUSTOM_CODES[sym])
    if sym == "?":
        return set(fundamental) | (set() if gap else {"-"})
    if sym == "-":
        return set(fundamental) if gap else {"-"}
    return {sym}


def custom_min(t, rows, fundamental, gap):
    labs = P.leaf_labels(t)
    space = set(fundamental) | (set() if gap else {"-"})
    return [P.sankoff_min(t, dict((lab, custom_set(rows[lab][c], fundamental, gap)) for lab in labs), space) for c in range(len(rows[labs[0]]))]


def _custom_score(tree, taxa, rows, sa, gap, weights=None):
    m = dendropy.StandardCharacterMatrix.from_dict(dict((taxa[k], v) for k, v in rows.items()), taxon_namespace=taxa["__ns__"], default_state_alphabet=sa)
    sbc = []
    got = DP.parsimony_score(tree, m, gaps_as_missing=gap, weights=weights, score_by_character_list=sbc)
    return got, sbc


def _w_custom(task):
    """(a) every one-column matrix over the user-defined alphabet; (b) an alphabet that GROWS between two scoring calls"""
    first, syms = task
    acc = Acc()
    n = 3
    labels = LEAF_LABELS[:n]
    taxa = make_ns(labels)
    forms = forms_for(n)
    sa = custom_alphabet()
    for rest in itertools.product(syms, repeat=n - 1):
        col = (first,) + rest
        rows = dict((lab, col[i]) for i, lab in enumerate(labels))
        for gap in (True, False):
            for kind, t in forms:
                tstr = P.tree_str(t)
                want = custom_min(t, rows, "012", gap)
                key = "custom-alphabet|gap_missing=%d|tree=%s|rows=%s" % (gap, tstr, rows_str(rows))
                witness = dict(custom="codes", gap=gap, tree=tstr, rows=rows_str(rows))
                acc.case(key, want[0] >= 1)
                try:
                    got, sbc = _custom_score(build(t, taxa), taxa, rows, sa, gap)
                except Exception as e:
                    acc.fail("parsimony_score[user-alphabet].raises", key, "%s: %s" % (type(e).__name__, e), witness, n)
                    continue
                if got != sum(want) or list(sbc) != want:
                    acc.fail("parsimony_score[user-alphabet].minimum", key, "score %r (per character %r); with P={0,1}, Q={P,2}, R={2,P}, W={1,2} the minimum "
                             "number of changes is %r" % (got, sbc, want), witness, n)
    # (c) the two-state alphabets built with their options: BinaryStateAlphabet / RestrictionSitesStateAlphabet / InfiniteSitesStateAlphabet
    #     x allow_gaps x allow_missing (a gap without a missing-data state included), every column over the symbols the alphabet then has
    from dendropy.datamodel import charstatemodel as CSM
    for cname in ("BinaryStateAlphabet", "RestrictionSitesStateAlphabet", "InfiniteSitesStateAlphabet"):
        for ag in (False, True):
            for am in (False, True):
                have = "01" + ("-" if ag else "") + ("?" if am else "")
                if first not in have:
                    continue
                try:
                    sa3 = getattr(CSM, cname)(allow_gaps=ag, allow_missing=am)
                except Exception as e:
                    acc.fail("parsimony_score[two-state-alphabet].raises", "%s(allow_gaps=%r, allow_missing=%r)" % (cname, ag, am), "%s: %s" % (type(e).__name__, e),
                             dict(custom="two-state", cls=cname, allow_gaps=ag, allow_missing=am), n)
                    continue
                for rest in itertools.product(have, repeat=n - 1):
                    col = (first,) + rest
                    rows = dict((lab, col[i]) for i, lab in enumerate(labels))
                    for gap in (True, False):
                        kind, t = forms[(ag + 2 * am + gap) % len(forms)]
                        tstr = P.tree_str(t)
                        want = custom_min(t, rows, "01", gap)
                        key = "two-state|%s(gaps=%d,missing=%d)|gap_missing=%d|tree=%s|rows=%s" % (cname, ag, am, gap, tstr, rows_str(rows))
                        witness = dict(custom="two-state", cls=cname, allow_gaps=ag, allow_missing=am, gap=gap, tree=tstr, rows=rows_str(rows))
                        acc.case(key, want[0] >= 1)
                        try:
                            got, sbc = _custom_score(build(t, taxa), taxa, rows, sa3, gap)
                        except Exception as e:
                            acc.fail("parsimony_score[two-state-alphabet].raises", key, "%s: %s" % (type(e).__name__, e), witness, n)
                            continue
                        if got != sum(want) or list(sbc) != want:
                            acc.fail("parsimony_score[two-state-alphabet].minimum", key, "%s(allow_gaps=%r, allow_missing=%r), gaps_as_missing=%r: score %r (per character %r); "
                                     "the minimum number of changes is %r" % (cname, ag, am, gap, got, sbc, want), witness, n)
    # (d) a two-state alphabet with a gap and NO missing-data state that grows: the gap read as missing stands for the states the alphabet has NOW
    if first in "012-":
        for rest in itertools.product("012-", repeat=n - 1):
            col2 = (first,) + rest
            rows2 = dict((lab, col2[i]) for i, lab in enumerate(labels))
            rows1 = dict((lab, "0-1"[i % 3]) for i, lab in enumerate(labels))
            for gap in (True, False):
                kind, t = forms[0]
                tstr = P.tree_str(t)
                key = "grown-gap-only-alphabet|gap_missing=%d|tree=%s|first=%s|then=%s" % (gap, tstr, rows_str(rows1), rows_str(rows2))
                witness = dict(custom="grown-gap-only", gap=gap, tree=tstr, rows=rows_str(rows2), first=rows_str(rows1))
                want = custom_min(t, rows2, "012", gap)
                acc.case(key, want[0] >= 1)
                try:
                    sa4 = CSM.BinaryStateAlphabet(allow_gaps=True, allow_missing=False)
                    tree = build(t, taxa)
                    _custom_score(tree, taxa, rows1, sa4, gap)
                    sa4.new_fundamental_state("2")
                    sa4.compile_lookup_mappings()
                    got, sbc = _custom_score(tree, taxa, rows2, sa4, gap)
                except Exception as e:
                    acc.fail("parsimony_score[grown-alphabet].raises", key, "%s: %s" % (type(e).__name__, e), witness, n)
                    continue
                if got != sum(want):
                    acc.fail("parsimony_score[grown-alphabet].history", key, "a two-state alphabet with a gap and no missing-data state: after scoring %s and adding the state 2, "
                             "%s scores %r; the minimum number of changes (with - = %s) is %r" % (rows_str(rows1), rows_str(rows2), got, "any of 0,1,2" if gap else "a state of its own", want), witness, n)
    # (b) one tree, one alphabet object: score over {0,1,?}, add the fundamental state 2, score a matrix that uses 2 and ?
    for rest in itertools.product("012?-", repeat=n - 1):
        if first not in "012?-":
            break
        col2 = (first,) + rest
        rows2 = dict((lab, col2[i]) for i, lab in enumerate(labels))
        rows1 = dict((lab, "0-?"[i % 3]) for i, lab in enumerate(labels))   # the first scoring call sees a gap and a missing cell
        for gap in (True, False):
            kind, t = forms[0]
            tstr = P.tree_str(t)
            key = "grown-alphabet|gap_missing=%d|tree=%s|first=%s|then=%s" % (gap, tstr, rows_str(rows1), rows_str(rows2))
            witness = dict(custom="grown", gap=gap, tree=tstr, rows=rows_str(rows2), first=rows_str(rows1))
            want = custom_min(t, rows2, "012", gap)
            acc.case(key, want[0] >= 1)
            try:
                sa2 = custom_alphabet("01", codes=False)
                tree = build(t, taxa)
                _custom_score(tree, taxa, rows1, sa2, gap)
                sa2.new_fundamental_state("2")
                sa2.compile_lookup_mappings()
                got, sbc = _custom_score(tree, taxa, rows2, sa2, gap)
            except Exception as e:
                acc.fail("parsimony_score[grown-alphabet].raises", key, "%s: %s" % (type(e).__name__, e), witness, n)
                continue
            if got != sum(want):
                acc.fail("parsimony_score[grown-alphabet].history", key, "after scoring %s and adding the state 2 to the alphabet, %s scores %r; the minimum number of "
                         "changes (with ? = any of 0,1,2%s) is %r" % (rows_str(rows1), rows_str(rows2), got, "" if gap else ",-", want), witness, n)
    return acc.out()


# ----------------------------------------------------------------------------- driver
def oracle_selfcheck():
    """Sankoff == brute force: every 1-column DNA matrix over 7 symbols on the 3-leaf forms and over 4 symbols
    on three 4-leaf forms, both gap modes"""
    cnt = 0
    for (forms, syms) in ((forms_for(3), "ACR-?NY"), (forms_for(4)[:2] + forms_for(4)[-1:], "AR-?")):
        for kind, t in forms:
            labs = P.leaf_labels(t)
            for col in itertools.product(syms, repeat=len(labs)):
                for gap in (True, False):
                    ls = dict((lab, P.state_set(col[i], "dna", gap)) for i, lab in enumerate(labs))
                    sp = P.state_space("dna", gap)
                    cnt += 1
                    a, b = P.sankoff_min(t, ls, sp), P.brute_min(t, ls, sp)
                    if a != b:
                        raise RuntimeError("oracle self-check: Sankoff %r != brute force %r on %s %r" % (a, b, P.tree_str(t), col))
    return cnt


def _gather(ctx, sc, tasks, results, cand, nf):
    for ti, r in enumerate(results):
        for i in range(r["evals"]):
            ctx.case(sc, key="%s#%d#%d" % (sc, ti, i), nontrivial=(i < r["nontriv"]), sample=r["sample"] or repr(tasks[ti])[:200])
        for mon, c in r["nfails"].items():
            nf[mon] = nf.get(mon, 0) + c
        for mon, lst in r["fails"].items():
            for (size, key, detail, witness) in lst:
                cand.setdefault(mon, []).append((size, len(key), key, detail, witness))


def t2(ctx):
    quick = ctx.tier == "quick"
    if TS.parsimony_score is not DP.parsimony_score:
        ctx.note("treescore.parsimony_score is a different object from model.parsimony.parsimony_score")
    n_self = oracle_selfcheck()
    ctx.note("oracle self-check: Sankoff = brute force on %d (tree, column) pairs" % n_self)
    cand, nf = {}, {}
    FULL = P.symbols("dna")                      # 17 symbols
    SMALL = list("ACGTRYN-?")

    sc = "min@1col"
    ctx.scope(sc, rule="every binary shape and basal-polytomy form with 2..4 leaves x every one-column DNA matrix over %s "
                       "x gaps_as_missing in {T,F}; non-trivial = the column needs >= 1 change"
                       % ("17 symbols (9 symbols at 4 leaves)" if quick else "all 17 symbols"), exhaustive=True)
    tasks = []
    for n in (2, 3, 4):
        syms = FULL if (n < 4 or not quick) else SMALL
        for first in syms:
            tasks.append((n, tuple(syms), first))
    _gather(ctx, sc, tasks, pmap(_w_min1col, tasks, chunksize=1), cand, nf)

    sc = "weights@2col"
    ctx.scope(sc, rule="every two-column DNA matrix over {A,C,R,-} on 3 leaves x 4 forms x both gap modes x weights "
                       "{None,(2,3),(0,0.5),(0.25,4)}; non-trivial = the two columns need different numbers of changes",
              exhaustive=True)
    tasks = [(tuple("ACR-"), f) for f in "ACR-"]
    # split further for parallelism: first cell x second cell handled inside (4 tasks of 1024 matrices)
    _gather(ctx, sc, tasks, pmap(_w_weights, tasks, chunksize=1), cand, nf)

    sc = "types@random"
    per = 150 if quick else 2500
    ctx.scope(sc, rule="%d seeded random cases per discrete type (dna, rna, protein, standard, restriction) x 2 routes: 2..7 "
                       "leaves, 1..4 columns over the full symbol set, weights, gap modes, larger namespaces, basal "
                       "polytomy in 30%%; non-trivial = some column needs a change" % per, exhaustive=False)
    rng = rng_for(ctx, 16)
    tasks = []
    for dtype in sorted(P.DATATYPES):
        for chunk in range(10):
            tasks.append((rng.randrange(1 << 30), dtype, per // 10))
    _gather(ctx, sc, tasks, pmap(_w_types, tasks, chunksize=1), cand, nf)

    sc = "rooting@unrooted"
    sizes = (4, 5) if quick else (4, 5, 6)
    nmat = 6 if quick else 25
    ctx.scope(sc, rule="every binary shape with %s leaves x %d seeded random two-column DNA matrices x every rooting (edge and "
                       "basal node) x child-order flips (all for <= 3 internal nodes, else 4); non-trivial = score >= 1"
                       % ("/".join(map(str, sizes)), nmat), exhaustive=False)
    tasks = []
    for n in sizes:
        for si in range(len(binary_shapes(n))):
            tasks.append((rng.randrange(1 << 30), n, si, nmat))
    _gather(ctx, sc, tasks, pmap(_w_rooting, tasks, chunksize=1), cand, nf)

    sc = "history@pairs"
    hs = tuple("ACR-") if quick else tuple("ACGR-?")
    ctx.scope(sc, rule="one tree object scored 3 times (m1, m2, m1): every ordered pair of one-column DNA matrices over {%s} on "
                       "3 leaves x 4 forms x 4 gap-mode combinations, plus fitch_down_pass without node attributes; one "
                       "evaluation = one repeated call (2nd or 3rd) compared with a fresh tree; non-trivial = the call's "
                       "expected score differs from the previous call's" % ",".join(hs), exhaustive=True)
    tasks = [(hs, c) for c in itertools.product(hs, repeat=3)]
    _gather(ctx, sc, tasks, pmap(_w_history, tasks, chunksize=2), cand, nf)

    sc = "history@random"
    cnt = 300 if quick else 4000
    ctx.scope(sc, rule="%d seeded random call sequences (2..4 calls, repeats and gap-mode changes included) on one tree object, "
                       "4..6 leaves, dna/standard/protein, 1..3 columns; non-trivial as above" % cnt, exhaustive=False)
    tasks = [(rng.randrange(1 << 30), cnt // 20) for _ in range(20)]
    _gather(ctx, sc, tasks, pmap(_w_history_random, tasks, chunksize=1), cand, nf)

    sc = "alphabets@user-defined"
    cs = tuple("012PQRW?-")
    ctx.scope(sc, rule="a standard alphabet with user-defined codes, two of them defined from ANOTHER code (P={0,1}, Q={P,2}, R={2,P} polymorphic, "
                       "W={1,2}): every one-column matrix over {%s} on 3 leaves x 4 forms x both gap modes; and an alphabet object that grows "
                       "(new fundamental state + compile_lookup_mappings) between two scoring calls on one tree: every column over {0,1,2,?}; "
                       "the two-state alphabets (binary, restriction sites, infinite sites) built with allow_gaps x allow_missing: every column over "
                       "the symbols the alphabet then has, both gap modes; "
                       "non-trivial = the column needs >= 1 change" % ",".join(cs), exhaustive=True)
    tasks = [(c, cs) for c in cs]
    _gather(ctx, sc, tasks, pmap(_w_custom, tasks, chunksize=1), cand, nf)

    for mon in sorted(cand):
        lst = sorted(cand[mon], key=lambda c: (c[0], c[1], c[2]))
        seen, k = set(), 0
        for (size, _, key, detail, witness) in lst:
            if key in seen:
                continue
            seen.add(key)
            w = {"key": key}
            w.update(witness)
            ctx.fail(mon, w, detail=detail)
            k += 1
            if k >= MAX_REPORT:
                break
        ctx.note("%s: %d failing evaluations in total (%d reported)" % (mon, nf.get(mon, 0), k))


def replay(ctx, rec):
    w = rec["witness"]
    acc = Acc()
    t = P.parse_tree(w["tree"])
    labels = P.leaf_labels(t)
    if w.get("custom"):
        rows = parse_rows(w["rows"])
        taxa = make_ns(sorted(set(labels) | set(rows)))
        want = custom_min(t, rows, "012", w["gap"])
        if w["custom"] == "codes":
            got, sbc = _custom_score(build(t, taxa), taxa, rows, custom_alphabet(), w["gap"])
        elif w["custom"] == "grown-gap-only":
            from dendropy.datamodel import charstatemodel as CSM
            sa4 = CSM.BinaryStateAlphabet(allow_gaps=True, allow_missing=False)
            tree = build(t, taxa)
            _custom_score(tree, taxa, parse_rows(w["first"]), sa4, w["gap"])
            sa4.new_fundamental_state("2")
            sa4.compile_lookup_mappings()
            got, sbc = _custom_score(tree, taxa, rows, sa4, w["gap"])
        elif w["custom"] == "two-state":
            from dendropy.datamodel import charstatemodel as CSM
            want = custom_min(t, rows, "01", w["gap"])
            got, sbc = _custom_score(build(t, taxa), taxa, rows, getattr(CSM, w["cls"])(allow_gaps=w["allow_gaps"], allow_missing=w["allow_missing"]), w["gap"])
        else:
            sa2 = custom_alphabet("01", codes=False)
            tree = build(t, taxa)
            _custom_score(tree, taxa, parse_rows(w["first"]), sa2, w["gap"])
            sa2.new_fundamental_state("2")
            sa2.compile_lookup_mappings()
            got, sbc = _custom_score(tree, taxa, rows, sa2, w["gap"])
        print("  %s: score %r, minimum number of changes %r" % (w["key"], got, sum(want)))
        return got == sum(want)
    if w.get("history"):
        calls = [(parse_rows(r), g) for r, g in w["calls"]]
        allabs = sorted(set(labels) | set(k for r, _ in calls for k in r))
        taxa = make_ns(allabs)
        run_history(acc, w["api"], t, taxa, w["dtype"], calls, 0)
    else:
        rows = parse_rows(w["rows"])
        taxa = make_ns(sorted(set(labels) | set(rows)))
        minima = P.column_minima(t, rows, w["dtype"], w["gap"])
        prefix = rec["obligation"].rsplit(".", 1)[0]
        score_once(acc, w["api"], t, w["tree"], taxa, w["dtype"], rows, w["gap"], w["weights"], minima, 0, mon_prefix=prefix)
    hit = [f for mon, lst in acc.fails.items() if mon == rec["obligation"] for f in lst if f[1] == w["key"]]
    for f in hit[:1]:
        print("  %s :: %s" % (f[1], f[2]))
    return not hit
