"""C12 (T2) -- copies are equal to their source and independent of it at the documented depth.

One evaluation = build a subject from a JSON recipe through the public API (tree / tree list /
character matrix / taxon namespace; optionally decorated with labels, comments, plain, nested and
attribute-bound annotations, extra attributes, encoded bipartitions, character subsets/types),
copy it through ONE route, then
  <route>.raises                        any exception from the copy route
  <route>.source_unchanged              the canonical dump of the source is the same after the copy
  <route>.equal                         canonical dump of the copy == dump of the source
                                        (thin dump for extract_tree, which also must carry no annotations/comments)
  <route>.wiring                        parent/edge/annotation-target pointers of the copy point into the copy
  <route>.separation                    objects reachable from both (specs.copies.reach): none for a deep copy /
                                        a copy into another namespace; only the namespace and what hangs from it
                                        for namespace-scoped copies and extracted trees; the namespace must be shared there
  <route>.independent_after_mutating_copy / _source
                                        a fixed mutation battery (labels, lengths, comments, annotation values and
                                        additions, extra attributes, rooting, weight, structure edits, re-encoding of
                                        bipartitions; rows/cells/subsets for matrices; membership for namespaces and
                                        lists) on one side leaves the other side's dump unchanged
  <route>.bound_annotations_follow      after the battery every attribute-bound annotation of the mutated object reads
                                        the *current* attribute of its own holder
Depths, as documented (DataObject.clone, the class docstrings):
  deep   : copy.deepcopy, clone(2)
  scoped : Tree(t), TreeList(l), Matrix(m), clone(1), taxon_namespace_scoped_copy(); copy.copy/clone(0) of a Tree
  newns  : copy constructor with taxon_namespace=<other namespace> (taxa mapped by label; shares nothing)
  thin   : extract_tree() (structure, lengths, labels, taxa, rooting/weight/label only; the documented
           `extraction_source` back-reference is not followed by the separation walk; a second variant switches it off)
  shallow: copy.copy/clone(0) of TreeList, CharacterMatrix, TaxonNamespace and TaxonNamespace(ns): documented as
           "member objects are references": only the container, its label and its annotations must be independent;
           clone(1) of a namespace is documented to be the namespace itself.
Scope "chains": the subject is itself a copy (copy of a copy), i.e. histories of two copy routes.
Not covered: DataSet (documented as not copyable), StateAlphabet/StateIdentity objects (deepcopy returns self by
design; they are not in the property's list of mutable parts), character subsets/types of the *shallow* matrix copy."""
import copy
import itertools
import json

from bounded.common import (shapes_exact, with_unifurcations, n_leaves, build_tree, length_patterns, time_limit, Timeout, pmap, rng_for)
from specs import copies as C
from specs import charmatrix as CM

import dendropy
from dendropy import Tree, TreeList, TaxonNamespace, Taxon, Node
from dendropy.datamodel import charmatrixmodel as _cmm

LABELS = ["A", "B", "C", "D", "E", "F", "G", "H"]
MTYPES = {
    "dna": ("DnaCharacterMatrix", "ACGTNRYMWSKVHDB-?"),
    "rna": ("RnaCharacterMatrix", "ACGUNRYMWSKVHDB-?"),
    "nucleotide": ("NucleotideCharacterMatrix", "ACGTUNRYMWSKVHDB-?"),
    "protein": ("ProteinCharacterMatrix", "ACDEFGHIKLMNPQRSTVWY*BZX-?"),
    "standard": ("StandardCharacterMatrix", "0123456789-?"),
    "restriction": ("RestrictionSitesCharacterMatrix", "10"),
    "infinite": ("InfiniteSitesCharacterMatrix", "10"),
    "continuous": ("ContinuousCharacterMatrix", None),
}
CONT = [0.0, 1.5, -2.25, 0.001, 3.0, 100.0, -0.5, 7.0]


def tup(x):
    return tuple(tup(c) for c in x)


def shape_str(s):
    return "(" + ",".join(shape_str(c) for c in s) + ")" if s else "."


# ============================================================================= building
def decorate_annotable(o, tag, level, bound_attr=None):
    if level >= 1:
        if isinstance(o.__dict__.get("comments"), list):
            o.comments.append("comment-" + tag)
        o.annotations.add_new("plain", "v-" + tag)
        o.annotations.add_new("listval", [1, 2, tag])
    if level >= 2:
        a = o.annotations.add_new("outer", "o-" + tag, datatype_hint="xsd:string")
        a.annotations.add_new("inner", "i-" + tag)
        if bound_attr is not None:
            o.annotations.add_bound_attribute(bound_attr)


def build_ns(n, extra=0, removed=False, deco=0):
    labels = LABELS[:n] + ["x%d" % i for i in range(extra)]
    ns = TaxonNamespace(labels, label="ns" if deco else None)
    if removed and len(ns) > 0:
        # a namespace with history: one taxon added and removed again (accession indices have a gap)
        t = ns.new_taxon("gone")
        ns.new_taxon("late")
        ns.remove_taxon(t)
    if deco:
        decorate_annotable(ns, "ns", deco, "label")
        for i, t in enumerate(ns._taxa):
            decorate_annotable(t, "tx%d" % i, deco, "label")
    return ns


def build_tree_subject(r):
    shape = tup(r["shape"])
    nl = n_leaves(shape)
    ns = build_ns(nl, extra=r.get("nsx", 0), deco=r.get("deco", 0))
    lengths = length_patterns()[r.get("len", "none")]
    t = build_tree(shape, ns=ns, leaf_taxa=list(ns._taxa)[:nl], lengths=lengths, rooted=r.get("rooted"), internal_labels=True)
    if r.get("itax"):
        # a taxon of the namespace on an internal node (trees read with suppress_internal_node_taxa=False look like this)
        inner = [n for n in C._pre(t._seed_node) if n._child_nodes and n is not t._seed_node] + [t._seed_node]
        for n, tx in zip(inner[:1], list(ns._taxa)[nl:nl + 1]):
            n.taxon = tx
    deco = r.get("deco", 0)
    if deco:
        t.label = "tree"
        t.weight = 0.5
        t.length_type = "substitutions"
        t.extra = {"k": [1, 2]}
        decorate_annotable(t, "tree", deco, "weight")
        for i, n in enumerate(C._pre(t._seed_node)):
            decorate_annotable(n, "n%d" % i, deco, "label")
            decorate_annotable(n._edge, "e%d" % i, deco, "length")
            n._edge.label = "edge%d" % i
            n.extra = [i, "x"]
        if deco >= 2:
            t.annotations.add_bound_attribute("label", annotation_name="seedlabel", owner_instance=t._seed_node)
        if len(ns._taxa) > nl:
            # a taxon of the namespace that is on no node but referenced by the tree: an attribute and an annotation value
            t.reference_taxon = ns._taxa[-1]
            t.annotations.add_new("reference", ns._taxa[-1])
    if r.get("enc"):
        t.encode_bipartitions(suppress_unifurcations=False, collapse_unrooted_basal_bifurcation=False)
        t.bipartition_edge_map
        t.split_bitmask_edge_map
    return t


def build_treelist_subject(r):
    deco = r.get("deco", 0)
    shapes = [tup(s) for s in r["shapes"]]
    nl = max([n_leaves(s) for s in shapes] or [0])
    ns = build_ns(nl, extra=r.get("nsx", 0), deco=deco)
    tl = TreeList(taxon_namespace=ns, label="list" if deco else None)
    pats = list(length_patterns().items())
    for k, s in enumerate(shapes):
        t = build_tree(s, ns=ns, leaf_taxa=list(ns._taxa)[:n_leaves(s)], lengths=pats[(k + 1) % len(pats)][1],
                       rooted=[None, True, False][k % 3], internal_labels=True)
        if deco:
            t.label = "t%d" % k
            decorate_annotable(t, "t%d" % k, deco, "label")
            for i, n in enumerate(C._pre(t._seed_node)):
                decorate_annotable(n, "t%dn%d" % (k, i), deco, "label")
                decorate_annotable(n._edge, "t%de%d" % (k, i), deco, "length")
        if r.get("enc"):
            t.encode_bipartitions(suppress_unifurcations=False, collapse_unrooted_basal_bifurcation=False)
        tl.append(t)
    if deco:
        decorate_annotable(tl, "list", deco, "label")
    return tl


def mseq(tp, i, width, salt=1):
    pool = MTYPES[tp][1]
    if pool is None:
        return [CONT[(salt * 5 + i * 7 + j * 3) % len(CONT)] for j in range(width)]
    return "".join(pool[(salt * 5 + i * 7 + j * 3) % len(pool)] for j in range(width))


def build_matrix_subject(r):
    deco = r.get("deco", 0)
    tp = r["type"]
    lens = r["lens"]
    ns = build_ns(len(lens), extra=r.get("nsx", 0), deco=deco)
    cls = getattr(_cmm, MTYPES[tp][0])
    m = cls(taxon_namespace=ns, label="matrix" if deco else None)
    for i, w in enumerate(lens):
        if w is None:
            continue
        seq = mseq(tp, i, w)
        if isinstance(seq, str):
            sa = m.default_state_alphabet
            m[ns._taxa[i]] = [sa[ch] for ch in seq]
        else:
            m[ns._taxa[i]] = list(seq)
    if deco:
        decorate_annotable(m, "matrix", deco, "label")
        width = max([w for w in lens if w is not None] or [0])
        if width:
            cs = m.new_character_subset(label="first", character_indices=[0])
            decorate_annotable(cs, "cs", deco, "label")
            m.new_character_subset(label="all", character_indices=list(range(width)))
        ct = m.new_character_type(label="ctype", state_alphabet=None if tp == "continuous" else m.default_state_alphabet)
        m.character_types.append(ct)
        for i, (t, s) in enumerate(m._taxon_sequence_map.items()):
            s.annotations.add_new("seqnote", "s%d" % i)
            if len(s) > 0:
                if deco == 2:
                    s.set_character_type_at(0, ct)
                # deco 3: the cell's annotation set is created while the cell has no character type
                ca = s.annotations_at(0)
                ca.add_new("cellnote", "c%d" % i)
                ca.add_new("celllist", [i, "c%d" % i])   # a mutable value: must not be shared with a copy
                if deco == 2:
                    ca.add_bound_attribute("label", annotation_name="column")   # bound to the cell's character type (the set's owner)
    return m


def build_ns_subject(r):
    return build_ns(r["n"], extra=0, removed=r.get("removed", False), deco=r.get("deco", 0))


BUILDERS = {"tree": build_tree_subject, "treelist": build_treelist_subject, "matrix": build_matrix_subject, "ns": build_ns_subject}


# ============================================================================= routes
def _other_ns(src_ns, partial):
    ns2 = TaxonNamespace()
    if partial and len(src_ns._taxa) > 0:
        ns2.new_taxon(src_ns._taxa[0]._label)
        ns2.new_taxon("unrelated")
    return ns2


ROUTES = {
    "tree": {
        "deepcopy": ("deep", lambda t: copy.deepcopy(t)),
        "clone2": ("deep", lambda t: t.clone(2)),
        "ctor": ("scoped", lambda t: Tree(t)),
        "clone1": ("scoped", lambda t: t.clone(1)),
        "scoped_copy": ("scoped", lambda t: t.taxon_namespace_scoped_copy()),
        "copy": ("scoped", lambda t: copy.copy(t)),
        "clone0": ("scoped", lambda t: t.clone(0)),
        "ctor_newns": ("newns", lambda t: Tree(t, taxon_namespace=_other_ns(t._taxon_namespace, False))),
        "ctor_newns_partial": ("newns", lambda t: Tree(t, taxon_namespace=_other_ns(t._taxon_namespace, True))),
        "extract": ("thin", lambda t: t.extract_tree()),
        "extract_noattr": ("thin", lambda t: t.extract_tree(extraction_source_reference_attr_name=None)),
        "extract_keepunif": ("thin", lambda t: t.extract_tree(suppress_unifurcations=False)),
        # the caller names the factories (plain classes here): what is copied may not depend on who builds the objects
        "extract_factories": ("thin", lambda t: t.extract_tree(tree_factory=dendropy.Tree, node_factory=dendropy.Node)),
    },
    "treelist": {
        "deepcopy": ("deep", lambda x: copy.deepcopy(x)),
        "clone2": ("deep", lambda x: x.clone(2)),
        "ctor": ("scoped", lambda x: TreeList(x)),
        "clone1": ("scoped", lambda x: x.clone(1)),
        "scoped_copy": ("scoped", lambda x: x.taxon_namespace_scoped_copy()),
        "copy": ("shallow", lambda x: copy.copy(x)),
        "clone0": ("shallow", lambda x: x.clone(0)),
        "ctor_newns": ("newns", lambda x: TreeList(x, taxon_namespace=_other_ns(x._taxon_namespace, False))),
        "ctor_newns_partial": ("newns", lambda x: TreeList(x, taxon_namespace=_other_ns(x._taxon_namespace, True))),
    },
    "matrix": {
        "deepcopy": ("deep", lambda x: copy.deepcopy(x)),
        "clone2": ("deep", lambda x: x.clone(2)),
        "ctor": ("scoped", lambda x: type(x)(x)),
        "clone1": ("scoped", lambda x: x.clone(1)),
        "scoped_copy": ("scoped", lambda x: x.taxon_namespace_scoped_copy()),
        "copy": ("shallow", lambda x: copy.copy(x)),
        "clone0": ("shallow", lambda x: x.clone(0)),
        "ctor_newns": ("newns", lambda x: type(x)(x, taxon_namespace=_other_ns(x._taxon_namespace, False))),
        "ctor_newns_partial": ("newns", lambda x: type(x)(x, taxon_namespace=_other_ns(x._taxon_namespace, True))),
    },
    "ns": {
        "deepcopy": ("deep", lambda x: copy.deepcopy(x)),
        "clone2": ("deep", lambda x: x.clone(2)),
        "ctor": ("shallow", lambda x: TaxonNamespace(x)),
        "copy": ("shallow", lambda x: copy.copy(x)),
        "clone0": ("shallow", lambda x: x.clone(0)),
        "clone1": ("identity", lambda x: x.clone(1)),
    },
}
MON = {"tree": "Tree", "treelist": "TreeList", "matrix": "CharacterMatrix", "ns": "TaxonNamespace"}


def monitor(kind, route, clause, recipe=None):
    """<Class>.<route>[+input class].<clause>; copies of copies and matrices whose per-cell annotation sets were created
    while the cell had no character type get names of their own (so that a finding can be pinned by name)"""
    tag = ""
    if recipe is not None:
        if recipe.get("via"):
            tag = "+after-%s" % recipe["via"]
        elif recipe.get("kind") == "matrix" and recipe.get("deco") == 3:
            tag = "+untyped-cell-annotations"
    return "%s.%s%s.%s" % (MON[kind], route, tag, clause)


# ============================================================================= dumps
def ns_of(kind, x):
    return x if kind == "ns" else x._taxon_namespace


def dump(kind, x, depth):
    """canonical dump; taxa by identity when the namespace is shared by design, by label otherwise"""
    by_id = depth in ("scoped", "thin", "shallow")
    tk = (lambda t: None if t is None else id(t)) if by_id else None
    if kind == "tree":
        if depth == "thin":
            return C.tree_dump(x, thin=True, taxon_key=tk)
        return C.tree_dump(x, taxon_key=tk)
    if kind == "treelist":
        if depth == "shallow":
            return [x._label, C.ann_dump(x), [id(t) for t in x._trees]]
        return C.treelist_dump(x, taxon_key=tk)
    if kind == "matrix":
        if depth == "shallow":
            return [type(x).__name__, x._label, C.ann_dump(x),
                    sorted((id(t), id(s)) for t, s in x._taxon_sequence_map.items())]
        return C.matrix_dump(x, taxon_key=tk, positional=(depth != "newns"))
    if kind == "ns":
        if depth == "shallow":
            d = C.ns_dump(x, with_taxa=False)
            return d + [[id(t) for t in x._taxa]]
        return C.ns_dump(x)
    raise ValueError(kind)


def full_state(kind, x, depth):
    """dump of the object plus (when it is not shared by design) of its namespace"""
    d = [dump(kind, x, depth)]
    if kind != "ns":
        d.append(C.ns_dump(x._taxon_namespace))
    return d


def diff(a, b, path=""):
    """first difference between two dumps, for the report"""
    if type(a) is not type(b):
        return "%s: %r != %r" % (path or "/", a, b)
    if isinstance(a, (list, tuple)):
        if len(a) != len(b):
            return "%s: length %d != %d (%r | %r)" % (path or "/", len(a), len(b), _cut(a), _cut(b))
        for i, (x, y) in enumerate(zip(a, b)):
            d = diff(x, y, "%s/%d" % (path, i))
            if d:
                return d
        return None
    if isinstance(a, dict):
        if sorted(a) != sorted(b):
            return "%s: keys %r != %r" % (path, sorted(a), sorted(b))
        for k in a:
            d = diff(a[k], b[k], "%s/%s" % (path, k))
            if d:
                return d
        return None
    return None if a == b else "%s: %r != %r" % (path or "/", a, b)


def _cut(x, n=120):
    s = repr(x)
    return s if len(s) <= n else s[:n] + "..."


# ============================================================================= holders & mutation battery
def tree_holders(t):
    out = [(t, "weight" if "weight" in t.__dict__ else None)]
    for n in C._pre(t._seed_node):
        out.append((n, "label"))
        out.append((n._edge, "length"))
    return out


def holders(kind, x, deep):
    """annotation holders of x (objects whose attribute-bound annotations must read themselves)"""
    hs = []
    if kind == "tree":
        hs += [h for h, _ in tree_holders(x)]
    elif kind == "treelist":
        hs.append(x)
        for t in x._trees:
            hs += [h for h, _ in tree_holders(t)]
    elif kind == "matrix":
        hs.append(x)
        for k in list(x.character_subsets._ordered_keys):
            hs.append(dict.__getitem__(x.character_subsets, k.lower()))
    if kind == "ns":
        hs.append(x)
        hs += list(x._taxa)
    elif deep:
        ns = x._taxon_namespace
        hs.append(ns)
        hs += list(ns._taxa)
    return hs


def bound_follow_errors(kind, x, deep):
    errs = []
    for h in holders(kind, x, deep):
        aset = h.__dict__.get("_annotations")
        if aset is None:
            continue
        for a in list(aset._item_list):
            if not a.is_attribute:
                continue
            attr = a._value[1]
            owner = h
            if a.name == "seedlabel" and kind == "tree":
                owner = x._seed_node
            want = getattr(owner, attr)
            got = a.value
            if got != want or type(got) is not type(want):
                errs.append("%s annotation %r bound to %r reads %r, the holder's attribute is %r" % (C.describe(h), a.name, attr, got, want))
    return errs


def _mutate_annotable(o, tag, inplace_values=True):
    if isinstance(o.__dict__.get("comments"), list):
        o.comments.append("mut-" + tag)
    aset = o.__dict__.get("_annotations")
    if aset is not None:
        for a in list(aset._item_list):
            if not a.is_attribute:
                if isinstance(a._value, list) and inplace_values:
                    a._value.append("mutated")
                else:
                    a.value = "mut-%s" % (a._value,)
            sub = a.__dict__.get("_annotations")
            if sub is not None:
                for b in list(sub._item_list):
                    b.value = "mutsub"
    o.annotations.add_new("added", tag)


def mutate_tree(t, deep, tag="m"):
    t.label = "L-" + tag
    t.weight = 7.25
    t.is_rooted = not bool(t._is_rooted)
    if isinstance(t.__dict__.get("extra"), dict):
        t.extra["k"].append(99)
        t.extra["new"] = 1
    _mutate_annotable(t, tag)
    nodes = C._pre(t._seed_node)
    for i, n in enumerate(nodes):
        n.label = "%s%d" % (tag, i)
        n._edge.length = 100.0 + i
        n._edge.label = "%se%d" % (tag, i)
        if isinstance(n.__dict__.get("extra"), list):
            n.extra.append("mut")
        _mutate_annotable(n, tag)
        _mutate_annotable(n._edge, tag)
        b = n._edge._bipartition
        if b is not None:
            b.is_mutable = True
            b._split_bitmask = 0
            b._leafset_bitmask = 0


def restructure_tree(t):
    root = t._seed_node
    if len(root._child_nodes) >= 2:
        root.remove_child(root._child_nodes[0])
    root._child_nodes.reverse()
    nd = Node(label="grafted")
    nd._edge.length = 42.0
    root.add_child(nd)
    enc = t.__dict__.get("bipartition_encoding")
    if enc is not None:
        del enc[:]
    t.encode_bipartitions(suppress_unifurcations=False, collapse_unrooted_basal_bifurcation=False)
    t.__dict__["_split_bitmask_edge_map"] = None
    t.__dict__["_bipartition_edge_map"] = None


def mutate_ns(ns, tag="m"):
    ns.label = "NS-" + tag
    _mutate_annotable(ns, tag)
    for i, tx in enumerate(list(ns._taxa)):
        tx.label = "%s-%s" % (tag, tx._label)
        _mutate_annotable(tx, tag)
    ns.new_taxon("fresh-" + tag)
    if len(ns._taxa) > 1:
        ns.remove_taxon(ns._taxa[0])


def mutate_ns_container(ns, tag="m"):
    """for copies that share the Taxon objects by design"""
    ns.label = "NS-" + tag
    _mutate_annotable(ns, tag, inplace_values=False)
    ns.new_taxon("fresh-" + tag)
    if len(ns._taxa) > 1:
        ns.remove_taxon(ns._taxa[0])


def mutate(kind, x, depth, tag="m"):
    """the battery; depth = how much of x is private to x"""
    deep = depth in ("deep", "newns")
    errs = []
    if kind == "tree":
        mutate_tree(x, deep, tag)
        errs = bound_follow_errors(kind, x, False)
        restructure_tree(x)
        if deep:
            mutate_ns(x._taxon_namespace, tag)
            errs += bound_follow_errors("ns", x._taxon_namespace, True)
    elif kind == "treelist":
        x.label = "L-" + tag
        _mutate_annotable(x, tag, inplace_values=(depth != "shallow"))
        if depth != "shallow":
            for t in x._trees:
                mutate_tree(t, deep, tag)
            errs = bound_follow_errors(kind, x, False)
            for t in x._trees:
                restructure_tree(t)
        else:
            errs = [e for e in bound_follow_errors(kind, x, False) if e.startswith("TreeList")]
        if x._trees:
            x._trees.pop(0)
        x.append(Tree(taxon_namespace=x._taxon_namespace, label="appended"))
        if deep:
            mutate_ns(x._taxon_namespace, tag)
    elif kind == "matrix":
        x.label = "M-" + tag
        _mutate_annotable(x, tag, inplace_values=(depth != "shallow"))
        errs = [e for e in bound_follow_errors(kind, x, False) if depth != "shallow" or "CharacterMatrix" in e.split(" annotation")[0]]
        ns = x._taxon_namespace
        if depth != "shallow":
            pool = MTYPES[[k for k, v in MTYPES.items() if v[0] == type(x).__name__][0]][1]
            for t, s in list(x._taxon_sequence_map.items()):
                newv = 55.5 if pool is None else x.default_state_alphabet[pool[-1] if len(s) == 0 or C.cell_token(s._character_values[0]) != pool[-1] else pool[0]]
                if len(s) > 0:
                    s[0] = newv
                    if s._character_annotations[0] is not None:
                        s._character_annotations[0].add_new("cellmut", 1)
                s.append(newv)
                s.annotations.add_new("seqmut", tag)
                for a in list(s.annotations._item_list):
                    if not a.is_attribute and a.name != "seqmut":
                        a.value = "mut"
            for k in list(x.character_subsets._ordered_keys):
                cs = dict.__getitem__(x.character_subsets, k.lower())
                cs.character_indices.add(99)
                _mutate_annotable(cs, tag)
            x.new_character_subset(label="added", character_indices=[1])
            for ct in x.character_types:
                if ct is not None:
                    ct.label = "ctmut"
            x.character_types.append(None)
        present = list(x._taxon_sequence_map.keys())
        if present:
            del x._taxon_sequence_map[present[0]]
        missing = [t for t in ns._taxa if t not in x._taxon_sequence_map]
        if missing:
            x[missing[0]] = []
        if deep:
            mutate_ns(ns, tag)
    elif kind == "ns":
        if depth == "deep":
            mutate_ns(x, tag)
            errs = bound_follow_errors("ns", x, True)
        else:
            mutate_ns_container(x, tag)
            errs = [e for e in bound_follow_errors("ns", x, True) if e.startswith("TaxonNamespace")]
    return errs


# ============================================================================= evaluation
def wiring_errors(kind, x):
    errs = []
    trees = [x] if kind == "tree" else (list(x._trees) if kind == "treelist" else [])
    for t in trees:
        errs += C.wiring_errors(t)
        if kind == "treelist" and t._taxon_namespace is not x._taxon_namespace:
            errs.append("member tree over another namespace than its list")
        nsids = set(map(id, t._taxon_namespace._taxa))
        for n in C._pre(t._seed_node):
            if n.taxon is not None and id(n.taxon) not in nsids:
                errs.append("node taxon %r is not a member of the copy's namespace" % (n.taxon._label,))
    if kind == "matrix":
        nsids = set(map(id, x._taxon_namespace._taxa))
        for t in x._taxon_sequence_map:
            if id(t) not in nsids:
                errs.append("row taxon %r is not a member of the copy's namespace" % (t._label,))
    if kind in ("tree", "treelist", "matrix"):
        # whatever the object refers to (attributes, annotation values, ...): a Taxon it can reach is a member of ITS namespace --
        # a copy never carries a private duplicate of a taxon
        from dendropy.datamodel.taxonmodel import Taxon
        nsids = set(map(id, x._taxon_namespace._taxa))
        skip = ("extraction_source",)
        for o in C.reach(x, skip_attrs=skip).values():
            if isinstance(o, Taxon) and id(o) not in nsids:
                errs.append("a Taxon labelled %r reachable from the object is not a member of its namespace" % (o._label,))
                break
    for h in holders(kind, x, True):
        if not C.ann_target_ok(h) and not (h is x and h.__dict__["_annotations"].target.__dict__ is x.__dict__):
            errs.append("annotation set of %s targets another object" % C.describe(h))
    return errs


def make_subject(recipe):
    x = BUILDERS[recipe["kind"]](recipe)
    via = recipe.get("via")
    if via:
        for step in via.split("+"):       # "clone1+deepcopy": a scoped copy, then a deep copy of that
            x = ROUTES[recipe["kind"]][step][1](x)
    return x


def job_key(job):
    r = job["recipe"]
    k = r["kind"]
    if k == "tree":
        body = "shape=%s|len=%s|rooted=%s|deco=%d|enc=%d|nsx=%d" % (shape_str(tup(r["shape"])), r.get("len", "none"), r.get("rooted"),
                                                                    r.get("deco", 0), int(bool(r.get("enc"))), r.get("nsx", 0)) + ("|itax" if r.get("itax") else "")
    elif k == "treelist":
        body = "shapes=[%s]|deco=%d|enc=%d|nsx=%d" % (" ".join(shape_str(tup(s)) for s in r["shapes"]), r.get("deco", 0), int(bool(r.get("enc"))), r.get("nsx", 0))
    elif k == "matrix":
        body = "type=%s|lens=%s|deco=%d|nsx=%d" % (r["type"], ",".join("-" if w is None else str(w) for w in r["lens"]), r.get("deco", 0), r.get("nsx", 0))
    else:
        body = "n=%d|removed=%d|deco=%d" % (r["n"], int(bool(r.get("removed"))), r.get("deco", 0))
    return "%s|%s|via=%s|route=%s" % (k, body, r.get("via") or "-", job["route"])


def eval_job(job):
    """-> list of [clause, detail]"""
    recipe, route = job["recipe"], job["route"]
    kind = recipe["kind"]
    depth, fn = ROUTES[kind][route]
    out = []
    try:
        src = make_subject(recipe)
    except Exception as ex:  # the subject itself is a copy (chains): its failure is reported by the single-route case
        if recipe.get("via"):
            return [["skipped", "subject route %s raised %s" % (recipe["via"], type(ex).__name__)]]
        raise
    before = full_state(kind, src, "deep")
    try:
        with time_limit(20):
            cp = fn(src)
    except Timeout:
        return [["raises", "no return within 20 s"]]
    except Exception as ex:  # noqa
        return [["raises", "%s: %s" % (type(ex).__name__, ex)]]
    after = full_state(kind, src, "deep")
    if after != before:
        out.append(["source_unchanged", diff(before, after)])
    if depth == "identity":
        if cp is not src:
            out.append(["equal", "clone(1) of a namespace is documented to return the namespace itself"])
        return out
    if cp is src or type(cp) is not type(src):
        out.append(["equal", "result is %s" % ("the source itself" if cp is src else type(cp).__name__)])
        return out
    # ---- equality
    unif = kind == "tree" and depth == "thin" and route != "extract_keepunif" and _has_unifurcation(tup(recipe["shape"]))
    d_src, d_cp = dump(kind, src, depth), dump(kind, cp, depth)
    # An unfiltered extract_tree() with the default suppress_unifurcations=True also removes
    # out-degree-1 nodes that were already in the source.  C08 states that single-child nodes are
    # suppressed unless suppression is declined, so this is NOT demanded here (clause left out);
    # the same shapes are compared exactly on the route extract_keepunif (suppress_unifurcations=False).
    if d_src != d_cp and not unif:
        out.append(["equal", diff(d_src, d_cp)])
    if kind != "ns":
        sns, cns = src._taxon_namespace, cp._taxon_namespace
        if depth in ("scoped", "thin", "shallow"):
            if cns is not sns:
                out.append(["separation", "the copy is over another namespace object; a scoped copy shares the namespace"])
        elif depth == "deep":
            if cns is sns:
                out.append(["separation", "deep copy shares the namespace object"])
            elif C.ns_dump(sns) != C.ns_dump(cns):
                out.append(["equal", "namespace: " + str(diff(C.ns_dump(sns), C.ns_dump(cns)))])
        elif depth == "newns":
            if cns is sns:
                out.append(["separation", "copy into another namespace kept the source namespace"])
            else:
                have = [t._label for t in cns._taxa]
                for t in sns._taxa:
                    if have.count(t._label) != 1:
                        out.append(["equal", "label %r occurs %d times in the target namespace" % (t._label, have.count(t._label))])
                        break
    if depth == "thin":
        junk = []
        for n in C._pre(cp._seed_node):
            if n.__dict__.get("_annotations") or n.comments or n._edge.__dict__.get("_annotations") or n._edge.comments:
                junk.append(n._label)
        if cp.__dict__.get("_annotations") or cp.comments or junk:
            out.append(["equal", "extracted tree carries annotations/comments (nodes %r)" % (junk,)])
    w = wiring_errors(kind, cp)
    if w:
        out.append(["wiring", "; ".join(sorted(set(w)))[:400]])
    # ---- heap separation
    skip = ("extraction_source",) if route in ("extract", "extract_keepunif", "extract_factories") else ()
    r_src = C.reach(src)
    r_cp = C.reach(cp, skip_attrs=skip)
    shared = [r_src[i] for i in r_src if i in r_cp]
    if depth in ("deep", "newns"):
        bad = shared
    elif depth in ("scoped", "thin"):
        r_ns = C.reach(ns_of(kind, src))
        bad = [o for o in shared if id(o) not in r_ns]
    else:  # shallow: the container and its annotations are private, members are shared by design
        private = [cp, cp.__dict__.get("_annotations")]
        if kind == "treelist":
            private.append(cp._trees)
        elif kind == "matrix":
            private.append(cp._taxon_sequence_map)
        else:
            private += [cp._taxa, cp._accession_index_taxon_map, cp._taxon_accession_index_map, cp._taxon_bitmask_map]
        from dendropy.datamodel.basemodel import Annotation, AnnotationSet
        r_ann = C.reach(cp.__dict__.get("_annotations"), stop=[cp]) if cp.__dict__.get("_annotations") is not None else {}
        bad = [o for o in shared if (any(o is p for p in private if p is not None)
                                     or (id(o) in r_ann and isinstance(o, (Annotation, AnnotationSet))))]
    if bad:
        names = sorted(set(C.describe(o) for o in bad))
        out.append(["separation", "%d mutable object(s) reachable from both source and copy: %s" % (len(bad), ", ".join(names)[:300])])
    # ---- mutate the copy, look at the source
    s_shape = _shallow_shape(kind, src) if depth == "shallow" else None
    try:
        errs = mutate(kind, cp, depth, "c")
    except Exception as ex:  # noqa
        out.append(["independent_after_mutating_copy", "mutating the copy raised %s: %s" % (type(ex).__name__, ex)])
        errs = []
    if errs:
        out.append(["bound_annotations_follow", "; ".join(errs)[:500]])
    if depth != "shallow":
        after2 = full_state(kind, src, "deep")
        if after2 != before:
            out.append(["independent_after_mutating_copy", diff(before, after2)])
    else:
        # members are shared by design: only the container, its label and its annotations are compared
        if _shallow_shape(kind, src) != s_shape:
            out.append(["independent_after_mutating_copy", "source container changed: %s" % diff(s_shape, _shallow_shape(kind, src))])
    # ---- mutate the source, look at the copy (fresh pair)
    src3 = make_subject(recipe)
    try:
        with time_limit(20):
            cp3 = fn(src3)
    except Exception:  # already reported above if systematic
        return out
    if depth == "shallow":
        c_before = _shallow_shape(kind, cp3)
    else:
        c_before = full_state(kind, cp3, "deep") if depth in ("deep", "newns") else [dump(kind, cp3, depth)]
    try:
        errs = mutate(kind, src3, depth, "s")
    except Exception as ex:  # noqa
        out.append(["independent_after_mutating_source", "mutating the source raised %s: %s" % (type(ex).__name__, ex)])
        errs = []
    if errs:
        out.append(["bound_annotations_follow", "on the source after the copy: " + "; ".join(errs)[:500]])
    if depth == "shallow":
        c_after = _shallow_shape(kind, cp3)
    else:
        c_after = full_state(kind, cp3, "deep") if depth in ("deep", "newns") else [dump(kind, cp3, depth)]
    if c_after != c_before:
        out.append(["independent_after_mutating_source", diff(c_before, c_after)])
    return out


def _shallow_shape(kind, x):
    """container-level view used for shallow copies: label, comments, annotations, member identities by position"""
    if kind == "treelist":
        return [x._label, C.ann_dump(x), [id(t) for t in x._trees]]
    if kind == "matrix":
        return [x._label, C.ann_dump(x), sorted(id(t) for t in x._taxon_sequence_map)]
    return [x._label, C.ann_dump(x), [id(t) for t in x._taxa], x._current_accession_count,
            sorted(x._accession_index_taxon_map), sorted(x._taxon_accession_index_map.values()), sorted(x._taxon_bitmask_map.values())]


def _has_unifurcation(s):
    return len(s) == 1 or any(_has_unifurcation(c) for c in s)


def _work(item):
    scope, job, nontrivial = item
    return eval_job(job)


# ============================================================================= scopes
def tree_shapes(tier):
    nmax = 4 if tier == "quick" else 5
    umax = 3 if tier == "quick" else 4
    out = []
    for n in range(1, nmax + 1):
        out.extend(shapes_exact(n))
    seen = set(out)
    for n in range(1, umax + 1):
        for s in shapes_exact(n):
            for u in with_unifurcations(s):
                if u not in seen:
                    seen.add(u)
                    out.append(u)
    return out


def jobs_trees(tier):
    out = []
    shapes = tree_shapes(tier)
    pats = list(length_patterns())
    rootings = [None, True, False]
    k = 0
    for s in shapes:
        for pat in pats:
            for deco, enc in ((0, 0), (2, 0), (0, 1), (2, 1), (1, 0)):
                k += 1
                recipe = {"kind": "tree", "shape": s, "len": pat, "rooted": rootings[k % 3], "deco": deco, "enc": enc, "nsx": (k // 3) % 3,
                          "itax": (k // 3) % 3 == 2 and k % 2 == 0}
                if tier != "quick":
                    variants = [dict(recipe, rooted=r) for r in rootings]
                else:
                    variants = [recipe]
                for r in variants:
                    for route in ROUTES["tree"]:
                        out.append(("trees@shapes", {"recipe": r, "route": route}, n_leaves(s) >= 3 and (deco > 0 or enc)))
    return out


def jobs_treelists(tier):
    out = []
    base = [(), ((), ()), ((), ((), ())), ((), (), ()), (((), ()), ((), ())), (((),), ())]
    lists = [[], [base[1]], [base[2], base[3]], [base[4], base[2], base[0]], [base[5], base[4]]]
    if tier != "quick":
        lists += [[base[3]] * 3, [base[4], base[4], base[2], base[1]]]
    for L in lists:
        for deco, enc in ((0, 0), (2, 0), (0, 1), (2, 1)):
            for nsx in (0, 2):
                r = {"kind": "treelist", "shapes": L, "deco": deco, "enc": enc, "nsx": nsx}
                for route in ROUTES["treelist"]:
                    out.append(("treelists", {"recipe": r, "route": route}, len(L) >= 2 and (deco > 0 or enc)))
    return out


def jobs_matrices(tier):
    out = []
    shapes = [[4, 4, 4], [None, 4, None], [1, 1, 1], [4, 2, 0], [3, None, 4], [None, None]]
    for tp in MTYPES:
        for lens in shapes:
            for deco in (0, 2, 3):
                if deco == 3 and not (lens == [4, 2, 0] and tp in ("dna", "continuous")):
                    continue
                for nsx in ((0,) if tier == "quick" else (0, 2)):
                    r = {"kind": "matrix", "type": tp, "lens": lens, "deco": deco, "nsx": nsx}
                    for route in ROUTES["matrix"]:
                        out.append(("matrices", {"recipe": r, "route": route}, sum(1 for w in lens if w) >= 2))
    return out


def jobs_namespaces(tier):
    out = []
    for n in (0, 1, 3, 5):
        for removed in (False, True):
            for deco in (0, 2):
                r = {"kind": "ns", "n": n, "removed": removed, "deco": deco}
                for route in ROUTES["ns"]:
                    out.append(("namespaces", {"recipe": r, "route": route}, n >= 3))
    return out


def jobs_chains(tier):
    """copy of a copy: the subject is produced by a first route"""
    out = []
    tshapes = [((), ((), ())), (((), ()), ((), ()))] if tier == "quick" else [((), ((), ())), (((), ()), ((), ())), ((), (), ()), (((),), ())]
    for s in tshapes:
        for deco, enc in ((2, 0), (2, 1), (0, 1)):
            for via in ("ctor", "clone1", "deepcopy", "copy", "ctor_newns", "extract_noattr", "clone1+deepcopy"):
                r = {"kind": "tree", "shape": s, "len": "dyadic", "rooted": True, "deco": deco, "enc": enc, "nsx": 1, "via": via}
                for route in ROUTES["tree"]:
                    out.append(("chains", {"recipe": r, "route": route}, True))
    for L in ([((), ()), ((), ((), ()))],):
        for deco in (2, 0):
            for via in ("ctor", "clone1", "deepcopy", "copy", "ctor_newns", "clone1+deepcopy"):
                r = {"kind": "treelist", "shapes": L, "deco": deco, "enc": 1, "nsx": 0, "via": via}
                for route in ROUTES["treelist"]:
                    out.append(("chains", {"recipe": r, "route": route}, True))
    for tp in ("dna", "standard", "continuous"):
        for deco in (2, 0):
            for via in ("ctor", "clone1", "deepcopy", "copy", "ctor_newns", "clone1+deepcopy"):
                r = {"kind": "matrix", "type": tp, "lens": [3, 3, None], "deco": deco, "nsx": 0, "via": via}
                for route in ROUTES["matrix"]:
                    out.append(("chains", {"recipe": r, "route": route}, True))
    for via in ("ctor", "deepcopy", "copy"):
        r = {"kind": "ns", "n": 3, "removed": True, "deco": 2, "via": via}
        for route in ROUTES["ns"]:
            out.append(("chains", {"recipe": r, "route": route}, True))
    return out


SCOPES = {
    "trees@shapes": ("every ordered tree shape with <= 4 leaves (thorough 5) plus every single-unifurcation variant of the shapes with "
                     "<= 3 (4) leaves x 5 length patterns x {plain, decorated, encoded, decorated+encoded, lightly decorated} x 12 copy "
                     "routes; rooting state and namespace surplus (0-2 extra taxa) cycle with the case index (thorough: all 3 rooting "
                     "states); non-trivial = >= 3 leaves and decorated or encoded", True),
    "treelists": ("5 (thorough 7) lists of 0-4 trees x {plain, decorated, encoded, both} x namespace surplus {0,2} x 9 routes; "
                  "non-trivial = >= 2 trees, decorated or encoded", True),
    "matrices": ("8 data types x 6 row-length shapes (3x4, 1x4, 3x1, ragged, a taxon absent, empty) x {plain, decorated: labels, "
                 "annotations on matrix/sequences/cells/subsets, character subsets and types} x 9 routes; non-trivial = >= 2 non-empty rows", True),
    "namespaces": ("namespaces of 0,1,3,5 taxa x with/without a removed taxon x {plain, decorated} x 6 routes; non-trivial = >= 3 taxa", True),
    "annotation-copies": ("`copy_annotations_from` with its default mapping on 7 annotable classes x 0-2 plain annotations beside one bound to `label`: "
                          "the copy's bound annotation follows the copy, annotation objects are new, the source keeps its own", True),
    "chains": ("copies of copies: subject produced by one of 5-6 first routes, then every route again (trees, tree lists, 3 matrix types, "
               "namespaces)", True),
}


def all_jobs(tier):
    return jobs_trees(tier) + jobs_treelists(tier) + jobs_matrices(tier) + jobs_namespaces(tier) + jobs_chains(tier)


def t2(ctx):
    items = all_jobs(ctx.tier)
    for nm, (rule, exh) in SCOPES.items():
        ctx.scope(nm, rule=rule, exhaustive=exh)
    results = pmap(_work, items, chunksize=16)
    for (scope, job, nontrivial), res in zip(items, results):
        key = job_key(job)
        kind = job["recipe"]["kind"]
        if res and res[0][0] == "skipped":
            ctx.case(scope, key, nontrivial=False, sample=key)
            continue
        ctx.case(scope, key, nontrivial=nontrivial, sample=key)
        seen = set()
        for clause, det in res:
            if clause in seen:
                continue
            seen.add(clause)
            ctx.fail(monitor(kind, job["route"], clause, job["recipe"]), {"key": key, "job": job, "scope": scope}, detail="%s: %s" % (key, det))
    for clsname in ANNOT_OWNERS:
        for nplain in (0, 1, 2):
            key = "annotation-copy|%s|plain=%d" % (clsname, nplain)
            ctx.case("annotation-copies", key, nontrivial=True, sample=key)
            for clause, det in eval_annotation_copy(clsname, nplain):
                ctx.fail("%s.copy_annotations_from.%s" % (clsname, clause), {"key": key, "job": {"annot_copy": clsname, "nplain": nplain}, "scope": "annotation-copies"},
                         detail="%s: %s" % (key, det))


ANNOT_OWNERS = ("Tree", "TreeList", "DnaCharacterMatrix", "TaxonNamespace", "Taxon", "Node", "Edge")


def eval_annotation_copy(clsname, nplain):
    """`dst.copy_annotations_from(src)` with the documented default mapping (references to the source become references to the copy):
    every attribute-bound annotation of the copy follows the COPY's attribute, the annotation objects are new ones, the source keeps its own"""
    cls = getattr(dendropy, clsname)
    src, dst = cls(), cls()
    src.label = "source"
    dst.label = "copy"
    for i in range(nplain):
        src.annotations.add_new("plain%d" % i, [i])
    src.annotations.add_bound_attribute("label")
    before = [(a.name, a.is_attribute) for a in src.annotations]
    dst.copy_annotations_from(src)
    out = []
    src.label = "source-changed"
    dst.label = "copy-changed"
    got = sorted((a.name, a.value if a.is_attribute else tuple(a.value)) for a in dst.annotations)
    want = sorted([("plain%d" % i, (i,)) for i in range(nplain)] + [("label", "copy-changed")])
    if got != want:
        out.append(["bound-follows-copy", "after relabelling both, the copy's annotations read %r, required %r" % (got, want)])
    if any(a is b for a in src.annotations for b in dst.annotations):
        out.append(["separation", "an Annotation object is shared between source and copy"])
    srcv = sorted((a.name, a.value if a.is_attribute else tuple(a.value)) for a in src.annotations)
    if [(a.name, a.is_attribute) for a in src.annotations] != before or ("label", "source-changed") not in srcv:
        out.append(["source-unchanged", "the source's annotations read %r" % (srcv,)])
    return out


def replay(ctx, rec):
    w = rec["witness"]
    job = w["job"]
    if "annot_copy" in job:
        res = eval_annotation_copy(job["annot_copy"], job["nplain"])
        for clause, det in res:
            print("  replay: %s.copy_annotations_from.%s: %s" % (job["annot_copy"], clause, det))
        return not any("%s.copy_annotations_from.%s" % (job["annot_copy"], c) == rec["obligation"] for c, _ in res)
    res = eval_job(job)
    kind = job["recipe"]["kind"]
    hit = False
    for clause, det in res:
        name = monitor(kind, job["route"], clause, job["recipe"])
        print("  replay: %s: %s" % (name, det))
        if name == rec["obligation"]:
            hit = True
    return not hit
