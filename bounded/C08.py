"""C08 (T2): pruning, retaining and extracting yield exactly the induced subtree.

Oracle: specs/induced.py (restriction of the source tree computed from raw
pointers) and specs/bipart.py (what a current encoding must hold).

Monitors (name = <api variant>.<clause>):
  .raises            the real call raised although >= 1 leaf survives (class Hang: no result within the wall-clock guard)
  .wellformed        result is a single arborescence (specs.trees.arborescence_errors)
  .leafset           surviving leaf labels = requested survivors
  .clades            clades = non-empty restrictions of the source clades
  .structure         unordered tree with every edge length = the spec tree (suppression merges lengths
                     into the child, or keeps the unifurcations when suppression is declined)
  .path_lengths      leaf-to-leaf path sums between survivors unchanged (exact: dyadic lengths)
  .single_survivor   one survivor -> the tree is that leaf with the accumulated length
  .removed_reported  nodes returned by filter_leaf_nodes / prune_leaves_without_taxa = nodes the spec removes
  .bipartitions_fresh   update_bipartitions=True -> edges and encoding list are current
  .source_unchanged / .extraction_source / .is_copy / .rooting_copied    extraction clauses
  variants.agree     all API variants with the same request and options give the same tree
  extract_wrapper.suppress_unifurcations_forwarded
                     the four extract_tree_with(out)_taxa(_labels) wrappers with suppress_unifurcations=False
                     (kept as its own monitor: known defect, DESIGN.md section 8)

Deliberately left out / allowed (so that nothing fires that the statement does not demand):
  * update_bipartitions=True re-encodes with Tree.encode_bipartitions(), which (documented there) collapses the
    basal bifurcation of a not-rooted tree: for a tree that is not rooted the oracle compares unrooted
    splits + path lengths + "clades are a subset of the spec clades with at most one missing" instead of the
    exact rooted structure.  (Until 40665ae3 the re-encoding also ran with its default suppress_unifurcations=True
    whatever the caller had asked for, and the oracle accepted either tree for suppress_unifurcations=False;
    the property quantifies over both settings of both options and says "unless suppression is declined", so
    this was a genuine defect: repaired, and STRICT_DECLINED_WITH_UPDATE is on.)
  * Child order is not compared (the statement speaks of the induced tree, not of an ordering).
  * prune_taxa & co. on trees with taxon-less leaves that were not asked to be removed (they are removed by the
    trailing prune_leaves_without_taxa, the extraction variants keep them): outside the quantifier
    ("subsets of taxa"); prune_leaves_without_taxa itself is driven over such trees.
  * Requests that leave no leaf (SeedNodeDeletionException etc.): outside the quantifier.
  * Pre-existing unifurcations of the source: only clades, path lengths, well-formedness and variant agreement
    are compared there (the statement does not say whether they are "left with a single child").
"""
import itertools
import json

from bounded.common import *  # noqa: F401,F403
from bounded.common import build_tree, shapes_exact, shapes_upto, length_patterns, pmap, rng_for, n_leaves, LABELS, with_unifurcations, time_limit, Timeout
from specs import trees as S
from bounded.guard import cpu_limit, CpuTimeout
from specs import induced as I
from specs import bipart as BP

import dendropy
from dendropy.datamodel.taxonmodel import TaxonNamespace, Taxon
from dendropy.datamodel.treemodel import Node, Tree

STRICT_DECLINED_WITH_UPDATE = True
MAX_REPORT_PER_MONITOR = 12
HANG_SECONDS = 3
HANG_LIMIT = 3      # per worker process and variant: afterwards the variant is reported without being run
_HANGS = {}


class Hang(Exception):
    pass


def guarded(variant, fn):
    """run fn() under a wall-clock guard; a hang is reported as <variant>.raises with class Hang"""
    if _HANGS.get(variant, 0) >= HANG_LIMIT:
        raise Hang("not run: this variant already hung %d times in this worker" % HANG_LIMIT)
    try:
        with cpu_limit(HANG_SECONDS):
            return fn()
    except CpuTimeout:
        _HANGS[variant] = _HANGS.get(variant, 0) + 1
        raise Hang("no result after %s s of CPU time" % HANG_SECONDS)

PATS = length_patterns()
PATS["zeros"] = lambda i, leaf: (0.0 if i % 2 else 1.5)
PATS["leafmissing"] = lambda i, leaf: (None if leaf else [0.5, 2.0, 1.25][i % 3])
PAT_NAMES = ["none", "ones", "ints", "dyadic", "onemissing", "zeros", "leafmissing"]

INPLACE = ["prune_taxa", "prune_taxa_with_labels", "retain_taxa", "retain_taxa_with_labels", "filter_leaf_nodes",
           "prune_leaves_without_taxa"]
EXTRACT = ["extract_tree", "extract_tree_with_taxa", "extract_tree_with_taxa_labels", "extract_tree_without_taxa",
           "extract_tree_without_taxa_labels"]
WRAPPERS = EXTRACT[1:]


# ----------------------------------------------------------------------------- construction
def make_ns(n, kind):
    """-> (namespace, leaf taxa left-to-right, bitof)"""
    labs = LABELS[:n]
    if kind == "exact":
        ns = TaxonNamespace(labs)
        taxa = list(ns)
    elif kind == "extra":
        ns = TaxonNamespace(["X0"] + labs + ["X1"])
        taxa = list(ns)[1:-1]
    elif kind == "removed":
        ns = TaxonNamespace(["X0"] + labs[:1] + ["X1"] + labs[1:])
        taxa = [t for t in ns if not t.label.startswith("X")]
        bit0 = {t: i for i, t in enumerate(ns)}
        ns.remove_taxon(ns.get_taxon("X0"))
        ns.remove_taxon(ns.get_taxon("X1"))
        return ns, taxa, {t: bit0[t] for t in ns}
    elif kind == "reversed":
        ns = TaxonNamespace(list(reversed(labs)))
        taxa = list(reversed(list(ns)))
    elif kind == "case":
        # two taxa whose labels differ in case only (default, case-insensitive namespace): a label names both of them
        labs = list(labs)
        if n >= 3:
            labs[2] = labs[1].lower()
        ns = TaxonNamespace(labs)
        taxa = list(ns)
    else:
        raise ValueError(kind)
    return ns, taxa, {t: i for i, t in enumerate(ns)}


def mk(spec):
    """spec = dict(shape, pat, rooted, ns) -> (tree, bitof)"""
    shape = _tup(spec["shape"])
    ns, taxa, bitof = make_ns(n_leaves(shape), spec.get("ns", "exact"))
    t = build_tree(shape, ns=ns, leaf_taxa=taxa, lengths=PATS[spec["pat"]], rooted=spec.get("rooted"))
    rl = spec.get("rootlen")
    if rl is not None:
        t._seed_node._edge.length = rl
    return t, bitof


def _tup(x):
    return tuple(_tup(c) for c in x)


def shape_str(s):
    return "()" if s == () else "(" + "".join(shape_str(c) for c in s) + ")"


def spec_key(spec):
    k = "%s|%s|r=%s" % (shape_str(_tup(spec["shape"])), spec["pat"], {None: "N", True: "R", False: "U"}[spec.get("rooted")])
    if spec.get("ns", "exact") != "exact":
        k += "|ns=" + spec["ns"]
    if spec.get("rootlen") is not None:
        k += "|rootlen=%s" % spec["rootlen"]
    return k


# ----------------------------------------------------------------------------- measurements on a real tree (raw pointers)
def leaf_labels(root):
    return sorted((l.taxon.label if l.taxon is not None else "<no taxon>") for l in S.leaves(root))


def node_clades(root):
    return frozenset(S.clade_labels(n) for n in S.pre(root))


def unrooted(clades, full):
    return frozenset(frozenset([a, full - a]) for a in clades)


def has_unifurcation(root):
    return any(len(n._child_nodes) == 1 for n in S.pre(root))


def E_has_unifurcation(e):
    return any(len(x.children) == 1 for x in I.E_nodes(e))


class Failures(object):
    def __init__(self):
        self.items = []

    def add(self, name, key, detail, **w):
        d = dict(key=key)
        d.update(w)
        self.items.append((name, d, detail))


# ----------------------------------------------------------------------------- one request on one source
def run_inplace(variant, tree, keep, sup, upd):
    """keep: set of Taxon to survive.  Returns reported-removed list or None."""
    ns = tree.taxon_namespace
    leaf_taxa = [l.taxon for l in S.leaves(tree._seed_node) if l.taxon is not None]
    rem = [t for t in leaf_taxa if t not in keep]
    if variant == "prune_taxa":
        tree.prune_taxa(rem, update_bipartitions=upd, suppress_unifurcations=sup)
    elif variant == "prune_taxa_with_labels":
        tree.prune_taxa_with_labels([t.label for t in rem], update_bipartitions=upd, suppress_unifurcations=sup)
    elif variant == "retain_taxa":
        tree.retain_taxa(set(keep), update_bipartitions=upd, suppress_unifurcations=sup)
    elif variant == "retain_taxa_with_labels":
        tree.retain_taxa_with_labels([t.label for t in keep], update_bipartitions=upd, suppress_unifurcations=sup)
    elif variant == "filter_leaf_nodes":
        return tree.filter_leaf_nodes(lambda nd: nd.taxon in keep, update_bipartitions=upd, suppress_unifurcations=sup)
    elif variant == "prune_leaves_without_taxa":
        for l in S.leaves(tree._seed_node):
            if l.taxon not in keep:
                l.taxon = None
        return tree.prune_leaves_without_taxa(update_bipartitions=upd, suppress_unifurcations=sup)
    else:
        raise ValueError(variant)
    return None


def run_extract(variant, tree, keep, sup):
    leaf_taxa = [l.taxon for l in S.leaves(tree._seed_node) if l.taxon is not None]
    rem = [t for t in leaf_taxa if t not in keep]
    if variant == "extract_tree":
        return tree.extract_tree(node_filter_fn=lambda nd: nd.taxon in keep, suppress_unifurcations=sup)
    if variant == "extract_tree_with_taxa":
        return tree.extract_tree_with_taxa(list(keep), suppress_unifurcations=sup)
    if variant == "extract_tree_with_taxa_labels":
        return tree.extract_tree_with_taxa_labels([t.label for t in keep], suppress_unifurcations=sup)
    if variant == "extract_tree_without_taxa":
        return tree.extract_tree_without_taxa(rem, suppress_unifurcations=sup)
    if variant == "extract_tree_without_taxa_labels":
        return tree.extract_tree_without_taxa_labels([t.label for t in rem], suppress_unifurcations=sup)
    raise ValueError(variant)


def check_result(F, variant, key, base, root, tree, exp_sup, exp_nosup, sup, upd, keep_labels, src_paths, src_has_unif,
                 bitof=None, strict_name=None):
    """Compare the real result (root/tree) with the spec.  exp_sup / exp_nosup: spec trees with and
    without suppression.  Returns the canonical form of the result (for variant agreement)."""
    name = lambda c: "%s.%s" % (variant, c)
    errs = S.arborescence_errors(tree)
    if errs:
        F.add(name("wellformed"), key, "result is not an arborescence: %s" % "; ".join(errs[:3]), **base)
        return None
    got_leaves = leaf_labels(root)
    want = sorted(keep_labels)
    if got_leaves != want:
        F.add(name("leafset"), key, "surviving leaves %r, required %r" % (got_leaves, want), **base)
        return None
    got_canon = I.canon_node(root)
    exp = exp_sup if sup else exp_nosup
    full = frozenset(keep_labels)
    got_clades = node_clades(root)
    want_clades = I.E_clades(exp)
    rooted_exact = (not upd) or bool(tree._is_rooted)
    if rooted_exact:
        if got_clades != want_clades:
            F.add(name("clades"), key, "clades %s, required (restrictions of the source clades) %s"
                  % (_fmt_clades(got_clades), _fmt_clades(want_clades)), **base)
    else:
        if unrooted(got_clades, full) != unrooted(want_clades, full):
            F.add(name("clades"), key, "unrooted splits %s, required %s" % (_fmt_clades(got_clades), _fmt_clades(want_clades)), **base)
        elif not (got_clades <= want_clades and len(want_clades - got_clades) <= 1):
            F.add(name("clades"), key, "clades %s are not the spec clades %s minus at most the collapsed basal one"
                  % (_fmt_clades(got_clades), _fmt_clades(want_clades)), **base)
    # structure with lengths
    if not src_has_unif:
        if not upd:
            if got_canon != I.canon_E(exp):
                F.add(strict_name or name("structure"), key, "result %s, required %s" % (S.newick(root), I.E_newick(exp)), **base)
        else:
            if tree._is_rooted:
                ok = got_canon == I.canon_E(exp_sup)
                if not sup:
                    ok = (got_canon == I.canon_E(exp_nosup)) or (not STRICT_DECLINED_WITH_UPDATE and got_canon == I.canon_E(exp_sup))
                if not ok:
                    F.add(name("structure"), key, "result %s, required %s" % (S.newick(root), I.E_newick(exp)), **base)
            if sup and has_unifurcation(root):
                F.add(name("structure"), key, "a node with one child is left although suppression was requested: %s" % S.newick(root), **base)
            if (not sup) and STRICT_DECLINED_WITH_UPDATE and E_has_unifurcation(exp_nosup) and not has_unifurcation(root):
                F.add(name("unifurcations_kept_when_declined"), key,
                      "suppress_unifurcations=False, update_bipartitions=True: result %s, required %s" % (S.newick(root), I.E_newick(exp_nosup)), **base)
    # path lengths
    got_paths = I.leaf_path_lengths(root)
    want_paths = {k: v for k, v in src_paths.items() if k <= full}
    if got_paths != want_paths:
        bad = sorted("%s: %r (source %r)" % ("-".join(sorted(k)), got_paths.get(k), want_paths.get(k))
                     for k in set(got_paths) | set(want_paths) if got_paths.get(k) != want_paths.get(k))
        nm = name("path_lengths")
        if upd and not tree._is_rooted and (_basal_one_length_missing(exp_sup) or _basal_one_length_missing(exp_nosup)):
            # input class with a defect of its own on the unchanged tree (collapse_basal_bifurcation drops the removed
            # basal edge's length when the kept basal edge has none): same strict check, separate monitor name
            nm = "update_bipartitions.basal_collapse_keeps_length"
        F.add(nm, key, "path lengths between survivors changed: %s" % "; ".join(bad[:4]), **base)
    # single survivor
    if len(keep_labels) == 1 and sup and not src_has_unif:
        if root._child_nodes or root.taxon is None or root.taxon.label != want[0] or root._edge.length != exp_sup.length:
            F.add(name("single_survivor"), key, "one survivor: result %s, required the leaf %s" % (S.newick(root), I.E_newick(exp_sup)), **base)
    if upd and bitof is not None:
        e = BP.encoding_errors(tree, bitof, S.pre(root))
        if e:
            F.add(name("bipartitions_fresh"), key, "after update_bipartitions=True: %s" % "; ".join(e[:3]), **base)
    return got_canon


def _basal_one_length_missing(e):
    return len(e.children) == 2 and (e.children[0].length is None) != (e.children[1].length is None)


def _fmt_clades(cl):
    return "{" + ",".join(sorted("".join(sorted(str(x) for x in c)) for c in cl)) + "}"


def eval_source(spec, quick_subsets=None, variants_inplace=INPLACE, variants_extract=EXTRACT, upds=(False, True), sups=(True, False)):
    """All requests on one source.  Returns dict(n=evaluations, nontrivial=[bool...], fails=[...])."""
    F = Failures()
    flags = []
    src, bitof = mk(spec)
    src_leaves = S.leaves(src._seed_node)
    labels = [l.taxon.label for l in src_leaves]
    n = len(labels)
    src_paths = I.leaf_path_lengths(src._seed_node)
    src_has_unif = has_unifurcation(src._seed_node)
    skey = spec_key(spec)
    subsets = quick_subsets if quick_subsets is not None else [c for r in range(1, n + 1) for c in itertools.combinations(range(n), r)]
    if spec.get("ns") == "case":
        # requests that keep (or drop) case variants of one label TOGETHER: then "the taxa with these labels" means the same under either
        # reading, and the label routes have to agree with the taxon routes
        low = [l.lower() for l in labels]
        subsets = [c for c in subsets if all((low[i] in set(low[j] for j in c)) == (i in c) for i in range(n))]
    for sub in subsets:
        keep_labels = [labels[i] for i in sub]
        ks = frozenset(keep_labels)
        dropped = lambda nd: (not nd._child_nodes) and (nd.taxon is None or nd.taxon.label not in ks)
        exp_sup = I.restrict(src._seed_node, dropped, True)
        exp_nosup = I.restrict(src._seed_node, dropped, False)
        want_removed = _removed_nodes_spec(src._seed_node, dropped)
        nontriv = n >= 3 and len(sub) < n
        for sup in sups:
            canon_by_variant = {}
            for upd in upds:
                for v in variants_inplace:
                    key = "%s|%s|keep=%s|sup=%d|upd=%d" % (skey, v, "".join(keep_labels), sup, upd)
                    base = dict(spec=spec, keep=keep_labels, sup=sup, upd=upd, variant=v)
                    flags.append(nontriv)
                    t, bo = mk(spec)
                    keep = set(x for x in t.taxon_namespace if x.label in ks)
                    before_nodes = S.pre(t._seed_node)
                    if upd:
                        t.encode_bipartitions(suppress_unifurcations=False, collapse_unrooted_basal_bifurcation=False)
                    try:
                        rep = guarded(v, lambda: run_inplace(v, t, keep, sup, upd))
                    except Exception as ex:
                        F.add("%s.raises" % v, key, "%s: %s" % (type(ex).__name__, ex), **base)
                        continue
                    c = check_result(F, v, key, base, t._seed_node, t, exp_sup, exp_nosup, sup, upd, keep_labels, src_paths, src_has_unif, bitof=bo)
                    if rep is not None:
                        # positions in the pristine preorder identify nodes across the two builds
                        idx = {id(nd): i for i, nd in enumerate(before_nodes)}
                        got = sorted(idx.get(id(nd), -1) for nd in rep)
                        if got != want_removed:
                            F.add("%s.removed_reported" % v, key, "reported removed (preorder indices) %r, spec removes %r" % (got, want_removed), **base)
                    if c is not None:
                        canon_by_variant.setdefault(("inplace", upd, bool(t._is_rooted)), []).append((v, c))
                if upd:
                    continue
                for v in variants_extract:
                    key = "%s|%s|keep=%s|sup=%d" % (skey, v, "".join(keep_labels), sup)
                    base = dict(spec=spec, keep=keep_labels, sup=sup, variant=v)
                    flags.append(nontriv)
                    keep = set(x for x in src.taxon_namespace if x.label in ks)
                    snap = I.snapshot(src)
                    try:
                        new = guarded(v, lambda: run_extract(v, src, keep, sup))
                    except Exception as ex:
                        F.add("%s.raises" % v, key, "%s: %s" % (type(ex).__name__, ex), **base)
                        continue
                    if I.snapshot(src) != snap:
                        F.add("%s.source_unchanged" % v, key, "the source tree was altered by the extraction", **base)
                        src, bitof = mk(spec)
                        src_leaves = S.leaves(src._seed_node)
                        continue
                    strict = None
                    if v in WRAPPERS and not sup:
                        strict = "extract_wrapper.suppress_unifurcations_forwarded"
                    c = check_result(F, v, key, base, new._seed_node, new, exp_sup, exp_nosup, sup, False, keep_labels, src_paths, src_has_unif,
                                     strict_name=strict)
                    if c is None:
                        continue
                    not_forwarded = bool(strict) and c != I.canon_E(exp_nosup)  # already reported under its own monitor
                    e = extraction_errors(src, new, ks, sup or not_forwarded)
                    if e:
                        F.add("%s.%s" % (v, e[0]), key, e[1], **base)
                    if not not_forwarded:
                        canon_by_variant.setdefault(("inplace", False, bool(src._is_rooted)), []).append((v, c))
            for grp, lst in canon_by_variant.items():
                if len(set(repr(c) for _, c in lst)) > 1:
                    key = "%s|keep=%s|sup=%d|upd=%d" % (skey, "".join(keep_labels), sup, grp[1])
                    F.add("variants.agree", key, "API variants disagree: " + "; ".join("%s -> %s" % (v, _canon_str(c)) for v, c in lst[:6]),
                          spec=spec, keep=keep_labels, sup=sup, upd=grp[1], variant="*")
    return dict(n=len(flags), nontrivial=flags, fails=F.items)


def _canon_str(c):
    lab, ln, ch = c
    s = ""
    if ch:
        s = "(" + ",".join(_canon_str(x) for x in ch) + ")"
    if lab is not None:
        s += str(lab)
    if ln is not None:
        s += ":%s" % ln
    return s


def _removed_nodes_spec(root, dropped):
    """preorder indices of the nodes a recursive leaf removal takes away: dropped leaves, and
    internal nodes all of whose children are taken away (suppressed nodes are not 'removed leaves')"""
    order = S.pre(root)
    idx = {id(nd): i for i, nd in enumerate(order)}
    out = []

    def rec(n):
        if not n._child_nodes:
            if dropped(n):
                out.append(idx[id(n)])
                return True
            return False
        rs = [rec(c) for c in n._child_nodes]
        if all(rs):
            out.append(idx[id(n)])
            return True
        return False

    rec(root)
    return sorted(out)


def extraction_errors(src, new, keep_labels, sup, attr="extraction_source"):
    """(clause, text) or None.  Every new node maps back to a distinct source node whose restricted
    clade is the new node's clade, taxa are shared, no node object is shared, the map commutes with
    parent (exactly when nothing is suppressed, up to ancestors otherwise)."""
    src_nodes = S.pre(src._seed_node)
    src_ids = set(id(x) for x in src_nodes)
    seen = set()
    for nd in S.pre(new._seed_node):
        if id(nd) in src_ids or id(nd._edge) in set(id(x._edge) for x in src_nodes):
            return ("is_copy", "the extracted tree shares a node or edge object with its source")
        if not hasattr(nd, attr):
            return ("extraction_source", "node %s has no %s" % (S.newick(nd), attr))
        s = getattr(nd, attr)
        if id(s) not in src_ids:
            return ("extraction_source", "%s of %s is not a node of the source tree" % (attr, S.newick(nd)))
        if id(s) in seen:
            return ("extraction_source", "two new nodes map to the same source node")
        seen.add(id(s))
        if s.taxon is not nd.taxon:
            return ("extraction_source", "node %s maps to a source node with another taxon" % S.newick(nd))
        if (S.clade_labels(s) & keep_labels) != S.clade_labels(nd):
            return ("extraction_source", "node with clade %s maps to the source node with clade %s"
                    % ("".join(sorted(S.clade_labels(nd))), "".join(sorted(S.clade_labels(s)))))
        if s._edge.length != nd._edge.length and not sup:
            return ("extraction_source", "node %s maps to a source node with edge length %r" % (S.newick(nd), s._edge.length))
        p = nd._parent_node
        if p is not None and hasattr(p, attr):
            ps = getattr(p, attr)
            if sup:
                a = s._parent_node
                while a is not None and a is not ps:
                    a = a._parent_node
                if a is None:
                    return ("extraction_source", "parent of %s does not map to an ancestor of its source node" % S.newick(nd))
            elif ps is not s._parent_node:
                return ("extraction_source", "parent of %s does not map to the parent of its source node" % S.newick(nd))
    if new._is_rooted != src._is_rooted:
        return ("rooting_copied", "extracted tree is_rooted=%r, source is_rooted=%r" % (new._is_rooted, src._is_rooted))
    if new.taxon_namespace is not src.taxon_namespace:
        return ("rooting_copied", "extracted tree has another taxon namespace")
    return None


# ----------------------------------------------------------------------------- prune_subtree
def eval_prune_subtree(spec):
    F = Failures()
    flags = []
    src, _ = mk(spec)
    order = S.pre(src._seed_node)
    src_paths = I.leaf_path_lengths(src._seed_node)
    skey = spec_key(spec)
    for ti in range(1, len(order)):
        target = order[ti]
        gone = set(id(x) for x in S.pre(target))
        dropped = lambda nd: id(nd) in gone
        exp_sup = I.restrict(src._seed_node, dropped, True)
        exp_nosup = I.restrict(src._seed_node, dropped, False)
        if exp_sup is None:
            continue
        keep_labels = sorted(l.taxon.label for l in I.E_leaves(exp_sup))
        for sup in (True, False):
            for upd in (False, True):
                key = "%s|prune_subtree@%d|sup=%d|upd=%d" % (skey, ti, sup, upd)
                base = dict(spec=spec, target=ti, sup=sup, upd=upd, variant="prune_subtree")
                flags.append(len(order) >= 4)
                t, bo = mk(spec)
                if upd:
                    t.encode_bipartitions(suppress_unifurcations=False, collapse_unrooted_basal_bifurcation=False)
                nd = S.pre(t._seed_node)[ti]
                try:
                    guarded("prune_subtree", lambda: t.prune_subtree(nd, update_bipartitions=upd, suppress_unifurcations=sup))
                except Exception as ex:
                    F.add("prune_subtree.raises", key, "%s: %s" % (type(ex).__name__, ex), **base)
                    continue
                # prune_subtree removes exactly the subtree: a parent left without children stays as a (taxon-less) leaf;
                # the induced-tree clauses are compared when no such node is left (the parent kept another child)
                par_left_empty = len(target._parent_node._child_nodes) == 1
                if par_left_empty:
                    errs = S.arborescence_errors(t)
                    if errs:
                        F.add("prune_subtree.wellformed", key, "; ".join(errs[:3]), **base)
                    continue
                check_result(F, "prune_subtree", key, base, t._seed_node, t, exp_sup, exp_nosup, sup, upd, keep_labels, src_paths,
                             has_unifurcation(src._seed_node), bitof=bo)
    # documented errors
    t, _ = mk(spec)
    flags.append(False)
    key = "%s|prune_subtree@root" % skey
    try:
        t.prune_subtree(t._seed_node)
        F.add("prune_subtree.root_refused", key, "pruning the seed node did not raise", spec=spec, variant="prune_subtree_root")
    except TypeError:
        if S.arborescence_errors(t) or I.canon_node(t._seed_node) != I.canon_node(mk(spec)[0]._seed_node):
            F.add("prune_subtree.root_refused", key, "tree changed by the refused call", spec=spec, variant="prune_subtree_root")
    except Exception as ex:
        F.add("prune_subtree.root_refused", key, "raised %s instead of the documented TypeError" % type(ex).__name__, spec=spec, variant="prune_subtree_root")
    return dict(n=len(flags), nontrivial=flags, fails=F.items)


# ----------------------------------------------------------------------------- arbitrary filter predicates
def eval_filters(spec):
    """extract_tree / filter_leaf_nodes with every predicate (= subset of the nodes, by preorder index)."""
    F = Failures()
    flags = []
    src, _ = mk(spec)
    order = S.pre(src._seed_node)
    m = len(order)
    src_paths = I.leaf_path_lengths(src._seed_node)
    skey = spec_key(spec)
    idx = {id(nd): i for i, nd in enumerate(order)}
    for mask in range(1 << m):
        acc = lambda nd, mask=mask: bool((mask >> idx[id(nd)]) & 1)
        for app_leaf, app_int in ((True, False), (True, True), (False, True), (False, False)):
            dropped = lambda nd: ((app_int and bool(nd._child_nodes)) or (app_leaf and not nd._child_nodes)) and not acc(nd)
            for sup in (True, False):
                exp = I.restrict(src._seed_node, dropped, sup)
                if exp is None:
                    continue
                exp_sup = exp if sup else I.restrict(src._seed_node, dropped, True)
                exp_nosup = exp if not sup else I.restrict(src._seed_node, dropped, False)
                keep_labels = sorted(l.taxon.label for l in I.E_leaves(exp))
                key = "%s|extract_tree|mask=%s|leaf=%d|int=%d|sup=%d" % (skey, format(mask, "0%db" % m)[::-1], app_leaf, app_int, sup)
                base = dict(spec=spec, mask=mask, app_leaf=app_leaf, app_int=app_int, sup=sup, variant="extract_tree.filter")
                flags.append(m >= 4)
                snap = I.snapshot(src)
                try:
                    new = guarded("extract_tree", lambda: src.extract_tree(node_filter_fn=acc, suppress_unifurcations=sup,
                                                                           is_apply_filter_to_leaf_nodes=app_leaf, is_apply_filter_to_internal_nodes=app_int))
                except Exception as ex:
                    F.add("extract_tree.raises", key, "%s: %s" % (type(ex).__name__, ex), **base)
                    continue
                if I.snapshot(src) != snap:
                    F.add("extract_tree.source_unchanged", key, "the source tree was altered by the extraction", **base)
                    return dict(n=len(flags), nontrivial=flags, fails=F.items)
                c = check_result(F, "extract_tree", key, base, new._seed_node, new, exp_sup, exp_nosup, sup, False, keep_labels, src_paths, False)
                if c is not None:
                    e = extraction_errors(src, new, frozenset(keep_labels), sup)
                    if e:
                        F.add("extract_tree.%s" % e[0], key, e[1], **base)
        # filter_leaf_nodes(filter_fn over every node, recursive or not)
        for recursive in (True, False):
            direct = lambda nd: (not nd._child_nodes) and not acc(nd)
            stays = lambda nd: (not recursive) or acc(nd)
            for sup in (True, False):
                exp = I.restrict_general(src._seed_node, direct, stays, sup)
                if exp is None or not any(l.taxon is not None for l in I.E_leaves(exp)):
                    continue
                key = "%s|filter_leaf_nodes|mask=%s|rec=%d|sup=%d" % (skey, format(mask, "0%db" % m)[::-1], recursive, sup)
                base = dict(spec=spec, mask=mask, recursive=recursive, sup=sup, variant="filter_leaf_nodes.filter")
                flags.append(m >= 4)
                t, _ = mk(spec)
                order_t = S.pre(t._seed_node)
                idx_t = {id(nd): i for i, nd in enumerate(order_t)}
                acc_t = lambda nd, mask=mask: bool((mask >> idx_t[id(nd)]) & 1)
                try:
                    rep = guarded("filter_leaf_nodes", lambda: t.filter_leaf_nodes(acc_t, recursive=recursive, suppress_unifurcations=sup))
                except Exception as ex:
                    F.add("filter_leaf_nodes.raises", key, "%s: %s" % (type(ex).__name__, ex), **base)
                    continue
                errs = S.arborescence_errors(t)
                if errs:
                    F.add("filter_leaf_nodes.wellformed", key, "; ".join(errs[:3]), **base)
                    continue
                if I.canon_node(t._seed_node) != I.canon_E(exp):
                    F.add("filter_leaf_nodes.structure", key, "result %s, required %s" % (S.newick(t._seed_node), I.E_newick(exp)), **base)
                want = _removed_general(src._seed_node, direct, stays)
                got = sorted(idx_t.get(id(nd), -1) for nd in rep)
                if got != want:
                    F.add("filter_leaf_nodes.removed_reported", key, "reported removed (preorder indices) %r, spec removes %r" % (got, want), **base)
    # prune_leaves_without_taxa(recursive or not) with the taxon taken off every subset of the leaves
    leaf_idx = [i for i, nd in enumerate(order) if not nd._child_nodes]
    for r in range(0, len(leaf_idx)):
        for sub in itertools.combinations(leaf_idx, r):
            off = set(sub)
            for recursive in (True, False):
                direct = lambda nd: (not nd._child_nodes) and idx[id(nd)] in off
                stays = lambda nd: not recursive
                for sup in (True, False):
                    exp = I.restrict_general(src._seed_node, direct, stays, sup)
                    if exp is None or not any(l.taxon is not None for l in I.E_leaves(exp)):
                        continue
                    key = "%s|prune_leaves_without_taxa|off=%s|rec=%d|sup=%d" % (skey, ",".join(map(str, sub)), recursive, sup)
                    base = dict(spec=spec, off=list(sub), recursive=recursive, sup=sup, variant="prune_leaves_without_taxa.filter")
                    flags.append(m >= 4)
                    t, _ = mk(spec)
                    order_t = S.pre(t._seed_node)
                    idx_t = {id(nd): i for i, nd in enumerate(order_t)}
                    for i in sub:
                        order_t[i].taxon = None
                    try:
                        rep = guarded("prune_leaves_without_taxa", lambda: t.prune_leaves_without_taxa(recursive=recursive, suppress_unifurcations=sup))
                    except Exception as ex:
                        F.add("prune_leaves_without_taxa.raises", key, "%s: %s" % (type(ex).__name__, ex), **base)
                        continue
                    errs = S.arborescence_errors(t)
                    if errs:
                        F.add("prune_leaves_without_taxa.wellformed", key, "; ".join(errs[:3]), **base)
                        continue
                    if I.canon_node(t._seed_node) != I.canon_E(exp):
                        F.add("prune_leaves_without_taxa.structure", key, "result %s, required %s" % (S.newick(t._seed_node), I.E_newick(exp)), **base)
                    want = _removed_general(src._seed_node, direct, stays)
                    got = sorted(idx_t.get(id(nd), -1) for nd in rep)
                    if got != want:
                        F.add("prune_leaves_without_taxa.removed_reported", key, "reported removed (preorder indices) %r, spec removes %r" % (got, want), **base)
    return dict(n=len(flags), nontrivial=flags, fails=F.items)


def _removed_general(root, direct, stays):
    order = S.pre(root)
    idx = {id(nd): i for i, nd in enumerate(order)}
    out = []

    def rec(n):
        if not n._child_nodes:
            if direct(n):
                out.append(idx[id(n)])
                return True
            return False
        rs = [rec(c) for c in n._child_nodes]
        if all(rs) and not stays(n):
            out.append(idx[id(n)])
            return True
        return False

    rec(root)
    return sorted(out)


# ----------------------------------------------------------------------------- prune_taxa flags with taxa on internal nodes
def mk_internal_taxa(spec):
    shape = _tup(spec["shape"])
    nl = n_leaves(shape)
    t = build_tree(shape, lengths=PATS[spec["pat"]], rooted=spec.get("rooted"))
    k = 0
    for i, nd in enumerate(S.pre(t._seed_node)):
        if nd._child_nodes and nd._parent_node is not None:
            nd.taxon = t.taxon_namespace.require_taxon(label="i%d" % k)
            k += 1
    return t


def _ambiguous_internal(root, direct, sel):
    def gone(n):
        if direct(n):
            return True
        if not n._child_nodes:
            return False
        return all(gone(c) for c in n._child_nodes) and n.taxon is None

    for n in S.pre(root):
        if n._child_nodes and n.taxon is not None and n.taxon.label in sel and all(gone(c) for c in n._child_nodes):
            return True
    return False


def eval_prune_flags(spec):
    F = Failures()
    flags = []
    src = mk_internal_taxa(spec)
    order = S.pre(src._seed_node)
    tax_nodes = [i for i, nd in enumerate(order) if nd.taxon is not None]
    skey = spec_key(spec) + "|internal-taxa"
    for r in range(1, len(tax_nodes) + 1):
        for sub in itertools.combinations(tax_nodes, r):
            sel = set(order[i].taxon.label for i in sub)
            for app_leaf, app_int in ((True, False), (True, True), (False, True)):
                direct = lambda nd: ((app_int and bool(nd._child_nodes)) or (app_leaf and not nd._child_nodes)) and nd.taxon is not None and nd.taxon.label in sel
                stays = lambda nd: nd.taxon is not None
                if _ambiguous_internal(src._seed_node, direct, sel):
                    # an internal node whose taxon is selected and which loses all its children during the call:
                    # whether it then counts as a leaf or as an internal node for the two is_apply_filter flags is not
                    # settled by the statement -> not evaluated
                    continue
                for sup in (True, False):
                    exp = I.restrict_general(src._seed_node, direct, stays, sup)
                    if exp is None:
                        continue
                    for v in ("prune_taxa", "prune_taxa_with_labels"):
                        key = "%s|%s|sel=%s|leaf=%d|int=%d|sup=%d" % (skey, v, ",".join(sorted(sel)), app_leaf, app_int, sup)
                        base = dict(spec=spec, sel=sorted(sel), app_leaf=app_leaf, app_int=app_int, sup=sup, variant=v + ".flags")
                        flags.append(len(order) >= 4)
                        t = mk_internal_taxa(spec)
                        try:
                            if v == "prune_taxa":
                                guarded(v, lambda: t.prune_taxa([x for x in t.taxon_namespace if x.label in sel], suppress_unifurcations=sup,
                                                                is_apply_filter_to_leaf_nodes=app_leaf, is_apply_filter_to_internal_nodes=app_int))
                            else:
                                guarded(v, lambda: t.prune_taxa_with_labels(sorted(sel), suppress_unifurcations=sup,
                                                                            is_apply_filter_to_leaf_nodes=app_leaf, is_apply_filter_to_internal_nodes=app_int))
                        except Exception as ex:
                            F.add("%s.raises" % v, key, "%s: %s" % (type(ex).__name__, ex), **base)
                            continue
                        errs = S.arborescence_errors(t)
                        if errs:
                            F.add("%s.wellformed" % v, key, "; ".join(errs[:3]), **base)
                        elif I.canon_node(t._seed_node) != I.canon_E(exp):
                            F.add("%s.structure" % v, key, "result %s, required %s" % (S.newick(t._seed_node), I.E_newick(exp)), **base)
    return dict(n=len(flags), nontrivial=flags, fails=F.items)


# ----------------------------------------------------------------------------- attribute name option
def eval_attr(spec):
    F = Failures()
    flags = []
    src, _ = mk(spec)
    labels = [l.taxon.label for l in S.leaves(src._seed_node)]
    skey = spec_key(spec)
    keep = frozenset(labels[:-1]) if len(labels) > 1 else frozenset(labels)
    for v in EXTRACT:
        for attr in ("src_ref", None):
            key = "%s|%s|attr=%s" % (skey, v, attr)
            base = dict(spec=spec, attr=attr, variant=v + ".attr", keep=sorted(keep))
            flags.append(len(labels) >= 3)
            ks = set(x for x in src.taxon_namespace if x.label in keep)
            rem = [x for x in src.taxon_namespace if x.label not in keep]
            try:
                if v == "extract_tree":
                    new = src.extract_tree(extraction_source_reference_attr_name=attr, node_filter_fn=lambda nd: nd.taxon in ks)
                elif v == "extract_tree_with_taxa":
                    new = src.extract_tree_with_taxa(ks, extraction_source_reference_attr_name=attr)
                elif v == "extract_tree_with_taxa_labels":
                    new = src.extract_tree_with_taxa_labels(sorted(keep), extraction_source_reference_attr_name=attr)
                elif v == "extract_tree_without_taxa":
                    new = src.extract_tree_without_taxa(rem, extraction_source_reference_attr_name=attr)
                else:
                    new = src.extract_tree_without_taxa_labels([x.label for x in rem], extraction_source_reference_attr_name=attr)
            except Exception as ex:
                F.add("%s.raises" % v, key, "%s: %s" % (type(ex).__name__, ex), **base)
                continue
            if attr is None:
                if any(hasattr(nd, "extraction_source") for nd in S.pre(new._seed_node)):
                    F.add("%s.extraction_source" % v, key, "reference attribute created although the name is None", **base)
            else:
                e = extraction_errors(src, new, keep, True, attr=attr)
                if e:
                    F.add("%s.%s" % (v, e[0]), key, e[1], **base)
    return dict(n=len(flags), nontrivial=flags, fails=F.items)


# ----------------------------------------------------------------------------- worker dispatch
def _work(item):
    kind, spec, extra = item
    if kind == "subsets":
        return eval_source(spec, **(extra or {}))
    if kind == "subtree":
        return eval_prune_subtree(spec)
    if kind == "filters":
        return eval_filters(spec)
    if kind == "flags":
        return eval_prune_flags(spec)
    if kind == "attr":
        return eval_attr(spec)
    raise ValueError(kind)


def _specs(nmax, pats, rootings, nss=("exact",), nmin=1, shapes=None):
    out = []
    for s in (shapes if shapes is not None else shapes_upto(nmax, nmin)):
        for p in pats:
            for r in rootings:
                for k in nss:
                    out.append(dict(shape=s, pat=p, rooted=r, ns=k))
    return out


def hash_str(s):
    import zlib
    return zlib.crc32(s.encode("utf8")) | (zlib.adler32(s.encode("utf8")) << 32)


def _run_scope(ctx, sc, rule, exhaustive, items, reported):
    import time
    t0 = time.time()
    ctx.scope(sc, rule=rule, exhaustive=exhaustive)
    res = pmap(_work, items, chunksize=2)
    t1 = time.time()
    for (kind, spec, extra), r in zip(items, res):
        k0 = spec_key(spec)
        kh = "%x" % (hash_str(k0),)
        for i, nt in enumerate(r["nontrivial"]):
            ctx.case(sc, key="%s#%d" % (kh, i), nontrivial=nt, sample=(k0 if i < 3 else ""))
        for name, w, detail in r["fails"]:
            w = dict(w)
            w["scope"] = sc
            w["kind"] = kind
            cnt = reported.get(name, 0)
            reported[name] = cnt + 1
            if cnt < MAX_REPORT_PER_MONITOR:
                ctx.fail(name, w, detail=detail)
    ctx.note("%s: %d items, workers %.1fs, accounting %.1fs" % (sc, len(items), t1 - t0, time.time() - t1))


def t2(ctx):
    thorough = ctx.tier == "thorough"
    reported = {}
    R3 = (None, True, False)
    N = 6 if thorough else 5
    # 1. every subset of every small shape
    sp = _specs(N, PAT_NAMES, (None,)) + _specs(N, ["dyadic", "onemissing", "leafmissing"], (True, False))
    items = [("subsets", s, None) for s in sp]
    _run_scope(ctx, "induced@subsets<=%d" % N,
               "every ordered shape with <=%d leaves (internal out-degree >=2) x (7 length patterns with rooting undefined + %d "
               "patterns with rooted and unrooted) x every non-empty "
               "subset of leaves to keep x suppress_unifurcations x update_bipartitions x 6 in-place variants, and x 5 extraction variants; "
               "non-trivial = source with >=3 leaves and a proper subset" % (N, 3), True, items, reported)
    if thorough:
        items = [("subsets", s, dict(upds=(False,))) for s in _specs(7, ["dyadic"], (None,), nmin=7)]
        _run_scope(ctx, "induced@subsets=7", "every ordered shape with 7 leaves x dyadic lengths x every non-empty subset x "
                   "suppress_unifurcations x 11 variants (update_bipartitions=False); non-trivial = proper subset", True, items, reported)
    # 2. namespaces larger than the leaf set / with removed taxa / reversed, and a root edge length
    n2 = 5 if thorough else 4
    sp = _specs(n2, ["dyadic", "onemissing"], R3, nss=("extra", "removed", "reversed"))
    for s in _specs(n2, ["dyadic", "none"], (None, True)):
        s = dict(s)
        s["rootlen"] = 0.125
        sp.append(s)
    sp += _specs(n2, ["dyadic"], (None, True), nss=("case",), nmin=3)
    _run_scope(ctx, "induced@namespaces<=%d" % n2,
               "shapes <=%d leaves x {dyadic, onemissing} x 3 rooting states x namespaces {two extra taxa, two removed taxa, reversed} "
               "plus sources whose seed edge has a length, x every subset x options x 11 variants; non-trivial = >=3 leaves and proper subset" % n2,
               True, [("subsets", s, None) for s in sp], reported)
    # 3. sources that already have unifurcations
    shp = []
    for s in shapes_upto(4 if not thorough else 5, 2):
        for u in with_unifurcations(s):
            shp.append(u)
    items = [("subsets", s, None) for s in _specs(0, ["dyadic", "onemissing"], (None,), shapes=shp) + _specs(0, ["dyadic", "none"], (True,), shapes=shp)]
    _run_scope(ctx, "induced@unifurcated-sources",
               "shapes with 2..%d leaves with a unifurcation inserted above one node (every position, root included) x ({dyadic, onemissing} with rooting "
               "undefined + {dyadic, none} rooted) x every subset x options x 11 variants (clades, path lengths, well-formedness, agreement)" % (5 if thorough else 4),
               True, items, reported)
    # 4. prune_subtree at every node
    items = [("subtree", s, None) for s in _specs(N, ["dyadic", "onemissing", "none", "ints"], R3, nmin=2)]
    _run_scope(ctx, "prune_subtree@targets<=%d" % N, "shapes with 2..%d leaves x 4 length patterns x 3 rooting states x every non-seed node x "
               "suppress_unifurcations x update_bipartitions, plus the refused call on the seed node; non-trivial = >=4 nodes" % N, True, items, reported)
    # 5. arbitrary predicates
    n5 = 5 if thorough else 4
    items = [("filters", s, None) for s in _specs(n5, ["dyadic", "onemissing"] if not thorough else ["dyadic"], (None,), nmin=2)]
    _run_scope(ctx, "filters@predicates<=%d" % n5, "shapes with 2..%d leaves x every predicate on the nodes (every subset of nodes accepted) x "
               "is_apply_filter_to_leaf_nodes x is_apply_filter_to_internal_nodes x suppress_unifurcations for extract_tree, and x recursive x "
               "suppress_unifurcations for filter_leaf_nodes, and prune_leaves_without_taxa x recursive x suppress_unifurcations with the taxon "
               "taken off every proper subset of the leaves; requests that keep no leaf are skipped; non-trivial = >=4 nodes" % n5, True, items, reported)
    # 6. prune_taxa flags with taxa on internal nodes
    items = [("flags", s, None) for s in _specs(n5, ["dyadic", "none"], (None,), nmin=2)]
    _run_scope(ctx, "prune_taxa-flags@internal-taxa<=%d" % n5, "shapes with 2..%d leaves, a taxon on every non-seed internal node, every non-empty "
               "set of taxa x the two is_apply_filter flags x suppress_unifurcations x {prune_taxa, prune_taxa_with_labels}" % n5, True, items, reported)
    # 7. attribute name option
    items = [("attr", s, None) for s in _specs(4, ["dyadic"], (None,))]
    _run_scope(ctx, "extraction_source@attr-name", "shapes <=4 leaves x 5 extraction variants x {custom name, None}", True, items, reported)
    # 8. random larger sources
    rng = rng_for(ctx, 8)
    items = []
    for i in range(48 if not thorough else 400):
        n = rng.randint(8, 12)
        shape = random_shape(rng, n)
        subs = []
        for _ in range(6):
            k = rng.choice([1, 2, n - 1, n, rng.randint(1, n)])
            subs.append(tuple(sorted(rng.sample(range(n), k))))
        items.append(("subsets", dict(shape=shape, pat=rng.choice(PAT_NAMES), rooted=rng.choice(R3), ns=rng.choice(["exact", "extra", "removed"])),
                      dict(quick_subsets=subs)))
    _run_scope(ctx, "induced@random8-12", "seeded random shapes with 8..12 leaves (polytomies allowed) x random pattern/rooting/namespace x 6 random "
               "subsets (sizes 1, 2, n-1, n, random) x options x 11 variants", False, items, reported)
    for name, cnt in sorted(reported.items()):
        if cnt > MAX_REPORT_PER_MONITOR:
            ctx.note("%s: %d failing evaluations, first %d reported" % (name, cnt, MAX_REPORT_PER_MONITOR))


def random_shape(rng, n):
    if n == 1:
        return ()
    k = 2 if rng.random() < 0.7 else rng.randint(2, min(4, n))
    cuts = sorted(rng.sample(range(1, n), k - 1))
    parts = [b - a for a, b in zip([0] + cuts, cuts + [n])]
    return tuple(random_shape(rng, p) for p in parts)


# ----------------------------------------------------------------------------- replay
def replay(ctx, rec):
    w = rec["witness"]
    name = rec["obligation"]
    kind = w.get("kind")
    spec = w["spec"]
    spec["shape"] = _tup(spec["shape"])
    if kind == "subsets":
        labels = [l.taxon.label for l in S.leaves(mk(spec)[0]._seed_node)]
        sub = tuple(labels.index(x) for x in w["keep"])
        v = w.get("variant")
        kw = dict(quick_subsets=[sub], sups=(bool(w["sup"]),))
        if v in INPLACE:
            kw.update(variants_inplace=[v], variants_extract=[], upds=(bool(w.get("upd")),))
        elif v in EXTRACT:
            kw.update(variants_inplace=[], variants_extract=[v], upds=(False,))
        else:
            kw.update(upds=(bool(w.get("upd")),) if w.get("upd") else (False,))
        r = eval_source(spec, **kw)
    else:
        r = _work((kind, spec, None))
    hits = [(nm, ww, d) for nm, ww, d in r["fails"] if nm == name and ww.get("key") == w.get("key")]
    for nm, ww, d in hits[:3]:
        print("  %s :: %s" % (nm, d))
    return not hits
