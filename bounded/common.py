"""Enumerators and builders shared by the bounded (T2) drivers.

T2 = the bounded stand-in of DESIGN.md: run-time contracts (independent spec
functions from /verif/specs as oracles) around the real functions, driven over
exhaustively enumerated small scopes.  Never counted as proved."""
import itertools
import os
import random
import signal
import sys
from functools import lru_cache

import dendropy
from dendropy.datamodel.treemodel import Node, Tree
from dendropy.datamodel.taxonmodel import TaxonNamespace, Taxon

from specs import trees as S


# ----------------------------------------------------------------------------- shapes
@lru_cache(maxsize=None)
def _compositions(n, kmin):
    """ordered compositions of n into >= kmin positive parts"""
    out = []

    def rec(rem, parts):
        if rem == 0:
            if len(parts) >= kmin:
                out.append(tuple(parts))
            return
        for p in range(1, rem + 1):
            rec(rem - p, parts + [p])

    rec(n, [])
    return tuple(out)


@lru_cache(maxsize=None)
def shapes_exact(n):
    """Every ordered rooted tree with exactly n leaves whose internal nodes have
    out-degree >= 2, as nested tuples; a leaf is ().  Counts 1,1,3,11,45,197,903."""
    if n == 1:
        return ((),)
    out = []
    for comp in _compositions(n, 2):
        for combo in itertools.product(*[shapes_exact(p) for p in comp]):
            out.append(tuple(combo))
    return tuple(out)


def shapes_upto(n, nmin=1):
    for k in range(nmin, n + 1):
        for s in shapes_exact(k):
            yield s


def binary_shapes(n):
    return tuple(s for s in shapes_exact(n) if _is_binary(s))


def _is_binary(s):
    if s == ():
        return True
    return len(s) == 2 and all(_is_binary(c) for c in s)


def with_unifurcations(shape, max_extra=1):
    """shape variants with a unifurcation inserted above one node (including the root)."""
    out = []

    def positions(s, path):
        yield path
        for i, c in enumerate(s):
            for p in positions(c, path + (i,)):
                yield p

    def insert(s, path):
        if not path:
            return (s,)
        i = path[0]
        return tuple(insert(c, path[1:]) if j == i else c for j, c in enumerate(s))

    for p in positions(shape, ()):
        out.append(insert(shape, p))
    return out


def n_leaves(shape):
    return 1 if shape == () else sum(n_leaves(c) for c in shape)


def n_nodes(shape):
    return 1 + sum(n_nodes(c) for c in shape)


@lru_cache(maxsize=None)
def all_ordered_trees(n_nodes_):
    """Every ordered rooted tree with exactly n nodes (unifurcations allowed)."""
    if n_nodes_ == 1:
        return ((),)
    out = []
    # first child has k nodes, rest is a tree of n-k nodes whose root we reuse
    for k in range(1, n_nodes_):
        for first in all_ordered_trees(k):
            for rest in all_ordered_trees(n_nodes_ - k):
                out.append((first,) + rest)
    return tuple(out)


# ----------------------------------------------------------------------------- building
LABELS = ["A", "B", "C", "D", "E", "F", "G", "H", "I", "J", "K", "L"]


def make_ns(n, labels=None):
    labels = labels or LABELS[:n]
    return TaxonNamespace(labels)


def build_tree(shape, ns=None, leaf_taxa=None, lengths=None, rooted=None, internal_labels=False, taxa_on_internal=False):
    """Build a Tree from a shape through the Node API (no parser involved).

    leaf_taxa: list of Taxon for leaves left-to-right (default: ns in order);
    lengths: None | number | callable(index_in_preorder, is_leaf) -> length or None."""
    if ns is None:
        ns = make_ns(n_leaves(shape))
    if leaf_taxa is None:
        leaf_taxa = list(ns)[: n_leaves(shape)]
    it = iter(leaf_taxa)
    counter = [0]

    def mk(s, is_root):
        idx = counter[0]
        counter[0] += 1
        nd = Node()
        if s == ():
            nd.taxon = next(it)
        elif internal_labels:
            nd.label = "n%d" % idx
        if lengths is not None and not is_root:
            nd.edge.length = lengths(idx, s == ()) if callable(lengths) else lengths
        for c in s:
            nd.add_child(mk(c, False))
        return nd

    root = mk(shape, True)
    t = Tree(seed_node=root, taxon_namespace=ns)
    t.is_rooted = rooted
    return t


def length_patterns(quick=True):
    """name -> lengths argument of build_tree.  Dyadic values keep float sums exact."""
    pats = {
        "none": None,
        "ones": 1.0,
        "ints": lambda i, leaf: float((i * 7) % 4),
        "dyadic": lambda i, leaf: [0.5, 1.25, 2.0, 0.75, 3.5, 1.0, 0.25][i % 7],
        "onemissing": lambda i, leaf: (None if i == 2 else float(1 + i % 3)),
    }
    return pats


# ----------------------------------------------------------------------------- misc
class Timeout(Exception):
    pass


class time_limit(object):
    """guard for calls that may hang: `seconds` of CPU time of this process (ITIMER_PROF), so that a verdict does
    not depend on how busy the machine is; a wall-clock backstop at 8x + 5 s catches a call that blocks without
    burning CPU"""

    def __init__(self, seconds):
        self.seconds = seconds

    def _h(self, signum, frame):
        raise Timeout()

    def __enter__(self):
        self._old_prof = signal.signal(signal.SIGPROF, self._h)
        self._old = signal.signal(signal.SIGALRM, self._h)
        signal.setitimer(signal.ITIMER_PROF, self.seconds)
        signal.setitimer(signal.ITIMER_REAL, self.seconds * 8 + 5)

    def __exit__(self, *a):
        signal.setitimer(signal.ITIMER_PROF, 0)
        signal.setitimer(signal.ITIMER_REAL, 0)
        signal.signal(signal.SIGPROF, self._old_prof)
        signal.signal(signal.SIGALRM, self._old)
        return False


def rng_for(ctx, salt=0):
    return random.Random((int(ctx.seed) * 1000003 + salt) & 0xFFFFFFFF)


def pmap(fn, items, procs=None, chunksize=8):
    """Parallel map over a fork pool (workers inherit the imported /repo code).
    fn must return JSON-able results."""
    items = list(items)
    procs = procs or min(16, os.cpu_count() or 1)
    if len(items) < 4 or procs <= 1 or os.environ.get("DPVC_SERIAL"):
        return [fn(x) for x in items]
    import multiprocessing as mp

    ctxm = mp.get_context("fork")
    with ctxm.Pool(procs) as pool:
        return pool.map(fn, items, chunksize=chunksize)
