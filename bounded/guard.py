"""CPU-time guard for calls that may loop forever.

bounded.common.time_limit counts wall-clock time (ITIMER_REAL); on a machine that is
heavily oversubscribed a worker can be descheduled for seconds, and a microsecond call
is then reported as a hang.  A non-terminating tree operation burns CPU, so the drivers
of C03/C07/C08 bound the CPU time of the process instead (ITIMER_PROF = user + system)."""
import signal


class CpuTimeout(Exception):
    pass


class cpu_limit(object):
    def __init__(self, seconds):
        self.seconds = seconds

    def _h(self, signum, frame):
        raise CpuTimeout()

    def __enter__(self):
        self._old = signal.signal(signal.SIGPROF, self._h)
        signal.setitimer(signal.ITIMER_PROF, self.seconds)

    def __exit__(self, *a):
        signal.setitimer(signal.ITIMER_PROF, 0)
        signal.signal(signal.SIGPROF, self._old)
        return False
