"""Helpers shared by the C05 / C06 / C11 bounded drivers: JSON-able tree specs,
labelled-topology enumeration, a case/witness protocol and a de-duplicating
reporter.

A *tree spec* is a nested list  [label_or_None, length_or_None, [child specs]]
and is the only thing stored in witnesses; trees are built from it through the
Node API (no parser involved).

A *case* is a JSON-able dict that fully describes one evaluation; a driver
exposes run_case(case) -> [(monitor, detail), ...] which both t2 and replay use."""
import itertools
import json

from dendropy.datamodel.treemodel import Node, Tree
from dendropy.datamodel.taxonmodel import TaxonNamespace

from bounded.common import shapes_exact, n_leaves, pmap

LAB = ["A", "B", "C", "D", "E", "F", "G", "H", "I", "J"]


# ----------------------------------------------------------------------------- specs
def spec_from_shape(shape, labels, lengths=None, _ctr=None, _root=True):
    """shape: nested tuples (leaf = ()); labels: iterator/list of leaf labels left to
    right; lengths: None | number | callable(preorder index, is_leaf)"""
    if _ctr is None:
        _ctr = [0, iter(labels)]
    idx = _ctr[0]
    _ctr[0] += 1
    leaf = shape == ()
    lab = next(_ctr[1]) if leaf else None
    ln = None
    if lengths is not None and not _root:
        ln = lengths(idx, leaf) if callable(lengths) else lengths
    return [lab, ln, [spec_from_shape(c, None, lengths, _ctr, False) for c in shape]]


def spec_newick(sp, top=True):
    s = ""
    if sp[2]:
        s = "(" + ",".join(spec_newick(c, False) for c in sp[2]) + ")"
    if sp[0] is not None:
        s += str(sp[0])
    if sp[1] is not None:
        s += ":%s" % _num(sp[1])
    return s + (";" if top else "")


def _num(x):
    if isinstance(x, float) and x == int(x):
        return str(int(x))
    return repr(x)


def spec_leaves(sp):
    if not sp[2]:
        return [sp[0]]
    out = []
    for c in sp[2]:
        out.extend(spec_leaves(c))
    return out


def spec_clades(sp, acc=None):
    """set of clades (frozensets of labels) of a spec -- used only to de-duplicate
    labelled topologies when enumerating, never as an oracle"""
    if acc is None:
        acc = set()
    if not sp[2]:
        c = frozenset([sp[0]])
    else:
        c = frozenset().union(*[spec_clades(x, acc)[1] for x in sp[2]])
    acc.add(c)
    return acc, c


def make_namespace(labels, removed=()):
    """namespace over `labels` (in that order) from which `removed` are then removed,
    so that bit positions have gaps"""
    ns = TaxonNamespace(list(labels))
    for r in removed:
        ns.remove_taxon(_find(ns, r))
    return ns


def _find(ns, label):
    for t in ns._taxa:
        if t.label == label:
            return t
    raise KeyError(label)


def build(sp, ns, rooted=None, weight=None, taxa=None):
    """Tree from a spec through the Node API; label -> taxon of ns by exact label"""
    if taxa is None:
        taxa = dict((t.label, t) for t in ns._taxa)

    def mk(s):
        nd = Node()
        if s[0] is not None:
            nd.taxon = taxa[s[0]]
        if s[1] is not None:
            nd.edge.length = s[1]
        for c in s[2]:
            nd.add_child(mk(c))
        return nd

    t = Tree(seed_node=mk(sp), taxon_namespace=ns)
    t.is_rooted = rooted
    t.weight = weight
    return t


# ----------------------------------------------------------------------------- topologies
_TOPO_CACHE = {}


def labelled_topologies(n, unifurcations=False):
    """Every rooted labelled topology on the leaves LAB[:n] (internal out-degree >= 2),
    one ordered representative each, as specs without lengths.  n=3: 4, n=4: 26, n=5: 236."""
    key = (n, unifurcations)
    if key in _TOPO_CACHE:
        return _TOPO_CACHE[key]
    seen = {}
    for sh in shapes_exact(n):
        for perm in itertools.permutations(LAB[:n]):
            sp = spec_from_shape(sh, perm)
            k = frozenset(spec_clades(sp)[0])
            if k not in seen:
                seen[k] = sp
    out = [seen[k] for k in sorted(seen, key=lambda k: sorted(sorted(c) for c in k))]
    _TOPO_CACHE[key] = out
    return out


def with_lengths(sp, lengths, _ctr=None, _root=True):
    """copy of a spec with lengths from callable(preorder index, is_leaf) / number / None"""
    if _ctr is None:
        _ctr = [0]
    idx = _ctr[0]
    _ctr[0] += 1
    ln = None
    if lengths is not None and not _root:
        ln = lengths(idx, not sp[2]) if callable(lengths) else lengths
    return [sp[0], ln, [with_lengths(c, lengths, _ctr, False) for c in sp[2]]]


def relabel(sp, mapping):
    return [mapping.get(sp[0], sp[0]) if sp[0] is not None else None, sp[1], [relabel(c, mapping) for c in sp[2]]]


def deroot(sp):
    """unrooted reading: merge a basal bifurcation (the first internal root child is
    dissolved, its length goes to the sibling); other specs are returned unchanged"""
    if len(sp[2]) != 2:
        return sp
    a, b = sp[2]
    if a[2]:
        c, o = a, b
    elif b[2]:
        c, o = b, a
    else:
        return sp
    ol = o[1] if c[1] is None else (c[1] if o[1] is None else o[1] + c[1])
    return [sp[0], sp[1], list(c[2]) + [[o[0], ol, o[2]]]]


def random_spec(rng, labels, p_poly=0.3, p_unif=0.0, lengths=None, unif_min_depth=0):
    """random labelled tree by random agglomeration; polytomies with prob p_poly per join"""
    items = [[l, None, []] for l in labels]
    rng.shuffle(items)
    if len(items) == 1:
        root = items[0]
    else:
        while len(items) > 1:
            k = 2
            while k < len(items) and rng.random() < p_poly:
                k += 1
            picks = [items.pop(rng.randrange(len(items))) for _ in range(k)]
            nd = [None, None, picks]
            if len(items) == 0:
                items = [nd]
                break
            items.append(nd)
        root = items[0]
    if p_unif:
        root = _add_unif(rng, root, p_unif, 0, unif_min_depth)
    if lengths is not None:
        root = with_lengths(root, lengths)
    return root


def _add_unif(rng, sp, p, depth, min_depth):
    """insert a unifurcation above nodes of depth >= min_depth with probability p"""
    sp = [sp[0], sp[1], [_add_unif(rng, c, p, depth + 1, min_depth) for c in sp[2]]]
    if depth >= min_depth and rng.random() < p:
        return [None, None, [sp]]
    return sp


# ----------------------------------------------------------------------------- reporting
class Reporter(object):
    """Registers worker results with ctx: every result is
       dict(scope, key, nontrivial, sample, fails=[(monitor, detail)], case)
    One ctx.fail per distinct (monitor, key); at most `cap` per monitor name are
    written (in order of arrival, which is the deterministic enumeration order),
    the rest are counted in a note."""

    def __init__(self, ctx, cap=40):
        self.ctx = ctx
        self.cap = cap
        self.seen = set()
        self.per = {}
        self.over = {}

    def add(self, res):
        ctx = self.ctx
        ctx.case(res["scope"], res["key"], nontrivial=res.get("nontrivial", True), sample=res.get("sample") or res["key"])
        for mon, detail in res.get("fails", ()):
            tag = (mon, res["key"])
            if tag in self.seen:
                continue
            self.seen.add(tag)
            n = self.per.get(mon, 0)
            if n >= self.cap:
                self.over[mon] = self.over.get(mon, 0) + 1
                continue
            self.per[mon] = n + 1
            ctx.fail(mon, {"key": res["key"], "scope": res["scope"], "case": res["case"]}, detail=detail)

    def finish(self):
        for mon, k in sorted(self.over.items()):
            self.ctx.note("monitor %s: %d further failing witnesses not written (cap %d per monitor)" % (mon, k, self.cap))


def run_chunks(fn, cases, chunk=25):
    """pmap over chunks of cases; fn(case) -> result dict or list of result dicts"""
    cases = list(cases)
    chunks = [cases[i:i + chunk] for i in range(0, len(cases), chunk)]

    out = []
    for part in pmap(_Chunk(fn), chunks, chunksize=1):
        out.extend(part)
    return out


class _Chunk(object):
    def __init__(self, fn):
        self.fn = fn

    def __call__(self, chunk):
        out = []
        for c in chunk:
            r = self.fn(c)
            if isinstance(r, dict):
                out.append(r)
            else:
                out.extend(r)
        return out


def jkey(x):
    return json.dumps(x, sort_keys=True, separators=(",", ":"))
