"""C19 (T2) -- character-matrix row/column operations select exactly what they name; terminate.

Every evaluation builds a small environment (one namespace, a second "foreign" namespace
with the same labels, a pool of matrices of one data type built through the public API),
runs ONE real operation (or a short history of them) under a wall-clock guard and compares
every matrix of the environment with the model of specs/charmatrix.py (row maps compared by
cell identity; continuous values by type and ==).

Monitors (name = <operation>.<clause>):
  <op>.rows              target/result rows are exactly what the documentation names
  <op>.subsets           concatenate: one recorded subset per source matrix covering its columns
  <op>.result            result is a new matrix of the same class over the same namespace object
  <op>.args_unchanged    every other matrix (and the namespaces) is unchanged, also after an error
  <op>.refuses_foreign_namespace   must raise ValueError/TaxonNamespaceIdentityError, target unchanged
  <op>.raises            any exception that the documentation does not allow
  <op>.terminates        wall-clock guard expired twice (0.25 s, then 4x) on matrices of <= 4x4 cells
                         (concatenate with colliding subset labels -- equal, case-variant, or equal to an automatic
                         "locusNNN" name -- is the scope concatenate@labels; x.extend_matrix(x)/x.extend_sequences(x)
                         is rowops@self)
  concatenate_from_streams.{rows,subsets,result,raises,terminates}

Allowed outcomes (from the documentation, so not violations):
  * concatenate: ValueError when a matrix does not hold one equally long sequence for every
    taxon of the namespace (documented precondition).  If it returns in that case only the
    rows are checked.
  * remove_sequences: KeyError when a listed taxon has no sequence (incl. listed twice).
Left out on purpose (stated here, not silently): matrices over an EMPTY namespace
(concatenate raises IndexError there: not clearly inside the statement), negative column
indices, subset *labels* chosen by concatenate (only count and index sets are demanded),
the return value of fill(), the parallel character_type/annotation lists of a sequence, rows
keyed by a taxon that was removed from the namespace.
In the random histories the matrices carry no labels and an operation never gets its own
target as `other` -- those two input classes have dedicated exhaustive scopes
(concatenate@labels, rowops@self), so a hang there is reported once with a small witness."""
import itertools
import json

from bounded.common import *          # noqa: F401,F403
from bounded.common import time_limit, Timeout, pmap, rng_for
from specs import charmatrix as CM

import dendropy
from dendropy.datamodel import charmatrixmodel as _cmm
from dendropy.datamodel.taxonmodel import TaxonNamespace, Taxon

TYPES = {
    "dna": ("DnaCharacterMatrix", "ACGTNRYMWSKVHDB-?"),
    "rna": ("RnaCharacterMatrix", "ACGUNRYMWSKVHDB-?"),
    "nucleotide": ("NucleotideCharacterMatrix", "ACGTUNRYMWSKVHDB-?"),
    "protein": ("ProteinCharacterMatrix", "ACDEFGHIKLMNPQRSTVWY*BZX-?"),
    "standard": ("StandardCharacterMatrix", "0123456789-?"),
    "restriction": ("RestrictionSitesCharacterMatrix", "10"),
    "infinite": ("InfiniteSitesCharacterMatrix", "10"),
    "continuous": ("ContinuousCharacterMatrix", None),
}
ALL_TYPES = list(TYPES)
CONT = [0.0, 1.5, -2.25, 0.001, 3.0, 100.0, -0.5, 7.0]
NSLABELS = ["a", "b", "c", "d"]
TL = 0.25


# ----------------------------------------------------------------------------- content / recipes
def seq_for(tp, i, width, salt):
    pool = TYPES[tp][1]
    if pool is None:
        return [CONT[(salt * 5 + i * 7 + j * 3) % len(CONT)] for j in range(width)]
    return "".join(pool[(salt * 5 + i * 7 + j * 3) % len(pool)] for j in range(width))


def mat(tp, lens, salt, label=None, ns=0):
    """lens: per taxon None (absent) or a length"""
    rows = [[i, seq_for(tp, i, w, salt)] for i, w in enumerate(lens) if w is not None]
    return {"label": label, "ns": ns, "rows": rows}


def _seqstr(seq):
    return seq if isinstance(seq, str) else "/".join(repr(x) for x in seq)


def _matstr(md):
    lab = "" if md.get("label") is None else str(md["label"])
    return "%s%s{%s}%s" % (lab, "@F" if md.get("ns") else "", ",".join("%d=%s" % (i, _seqstr(s)) for i, s in md["rows"]),
                           "".join("[%d is %d]" % (a, b) for a, b in md.get("share", ())))


def _opstr(op):
    o = op["op"]
    if o == "probe":
        return "probe"
    if o == "concatenate":
        return "concatenate(%s)" % ",".join(map(str, op["mats"]))
    if o == "export_indices":
        return "export_indices(%d;%s;%s)" % (op["m"], op["indices"], op.get("as", "list"))
    if o == "export_subset":
        return "export_subset(%d;%s;%s)" % (op["m"], op["indices"], op["by"])
    if o in ("fill", "pack"):
        return "%s(%d;v=%s;size=%s;append=%s)" % (o, op["m"], op["value"], op["size"], op["append"])
    if o == "fill_taxa":
        return "fill_taxa(%d)" % op["m"]
    if o in ("remove_sequences", "discard_sequences", "keep_sequences"):
        return "%s(%d;%s;%s)" % (o, op["m"], op["taxa"], op.get("as", "list"))
    if o == "extend_sequences":
        return "extend_sequences(%d;%d;add_new=%s)" % (op["m"], op["other"], op.get("add_new"))
    return "%s(%d;%d)" % (o, op["m"], op["other"])


def job_key(job):
    if "widths" in job:
        return "%s|concatenate_from_streams|%s|n=%d|widths=%s|given_ns=%s" % (job["type"], job["schema"], job["n"], job["widths"], bool(job.get("given_ns")))
    return "%s|n=%d|%s%s|%s" % (job["type"], job["n"], ";".join(_matstr(m) for m in job["mats"]),
                                "|removed from the namespace: %s" % job["ns_removed"] if job.get("ns_removed") else "",
                                ";".join(_opstr(o) for o in job["ops"]))


# ----------------------------------------------------------------------------- environment
class Env(object):
    pass


def build_env(job):
    e = Env()
    e.tp = job["type"]
    e.cls = getattr(_cmm, TYPES[e.tp][0])
    n = job["n"]
    e.nss = [TaxonNamespace(NSLABELS[:n]), TaxonNamespace(NSLABELS[:n])]
    e.ns_taxa = [list(ns._taxa) for ns in e.nss]
    e.foreign_taxon = Taxon(label="zz")
    e.mats, e.model = [], []
    for md in job["mats"]:
        e.add(e.make(md), md.get("ns", 0))
    for i in job.get("ns_removed", ()):
        # a taxon that has rows is removed from the shared namespace afterwards: the rows are still rows of their matrices, and the row operations
        # still name rows by their taxon
        e.nss[0].remove_taxon(e.ns_taxa[0][i])
    e.ns_members = [list(ns._taxa) for ns in e.nss]   # (ns_taxa keeps naming the taxa by their original position)
    return e


def _env_make(e, md):
    ns = e.nss[md.get("ns", 0)]
    m = e.cls(taxon_namespace=ns, label=md.get("label"))
    for i, seq in md["rows"]:
        m[ns._taxa[i]] = e.cells(m, seq)
    for dst, src in md.get("share", ()):
        # two rows of the matrix are ONE sequence object (m[t2] = m[t1]): legal, and every statement about rows still holds row by row
        m[ns._taxa[dst]] = m[ns._taxa[src]]
        if not hasattr(e, "shared_by_construction"):
            e.shared_by_construction = set()
        e.shared_by_construction.add(id(m[ns._taxa[src]]))
    return m


def _env_cells(e, m, seq):
    if isinstance(seq, str):
        sa = m.default_state_alphabet
        return [sa[ch] for ch in seq]
    return [float(x) for x in seq]


def _env_add(e, m, nsidx):
    e.mats.append(m)
    e.model.append({"ns": nsidx, "rows": CM.raw_rows(m), "label": m.label, "subsets": CM.raw_subsets(m)})
    return len(e.mats) - 1


Env.make, Env.cells, Env.add = _env_make, _env_cells, _env_add


def _value(e, m, spec):
    if spec is None:
        return None
    if isinstance(spec, str):
        return m.default_state_alphabet[spec]
    return float(spec)


def _taxa_arg(e, nsidx, idxs, form):
    lst = [e.foreign_taxon if i == "F" else e.ns_taxa[nsidx][i] for i in idxs]
    if form == "set":
        return set(lst), lst
    if form == "tuple":
        return tuple(lst), lst
    if form == "gen":
        return (x for x in lst), lst
    return list(lst), lst


def _idx_arg(idxs, form):
    if form == "set":
        return set(idxs)
    if form == "tuple":
        return tuple(idxs)
    if form == "gen":
        return (x for x in idxs)
    return list(idxs)


def check_unchanged(e, skip=()):
    """names of pool matrices (not in skip) that differ from their model, and namespace damage"""
    bad = []
    for k, (m, md) in enumerate(zip(e.mats, e.model)):
        if k in skip:
            continue
        if m.taxon_namespace is not e.nss[md["ns"]]:
            bad.append("matrix %d: namespace object replaced" % k)
        elif not CM.rows_eq(CM.raw_rows(m), md["rows"]):
            bad.append("matrix %d: rows %s, were %s" % (k, CM.render_rows(CM.raw_rows(m), e.ns_taxa[md["ns"]]),
                                                      CM.render_rows(md["rows"], e.ns_taxa[md["ns"]])))
        elif m.label != md["label"]:
            bad.append("matrix %d: label %r, was %r" % (k, m.label, md["label"]))
        elif CM.raw_subsets(m) != md["subsets"]:
            bad.append("matrix %d: character subsets changed" % k)
    for j, ns in enumerate(e.nss):
        members = getattr(e, "ns_members", e.ns_taxa)[j]
        if len(ns._taxa) != len(members) or any(a is not b for a, b in zip(ns._taxa, members)):
            bad.append("namespace %d membership changed" % j)
        elif [t.label for t in e.ns_taxa[j]] != NSLABELS[:len(e.ns_taxa[j])]:
            bad.append("namespace %d labels changed" % j)
    return bad


ROWOPS = ("add_sequences", "replace_sequences", "update_sequences", "extend_sequences", "extend_matrix")


def run_op(e, op, tl):
    """run one operation against the model; returns (failures, stop) with failures = [(monitor, detail)]"""
    o = op["op"]
    fails = []
    R = lambda rm, nsidx=0: CM.render_rows(rm, e.ns_taxa[nsidx])  # noqa: E731
    if o == "probe":
        # independence of the matrix produced/modified by the previous step from every other
        # matrix: lengthen all its rows with the real fill() and re-compare the others
        k = getattr(e, "last", None)
        e.last = None
        if k is None:
            return [], False
        m, md = e.mats[k], e.model[k]
        pool = TYPES[e.tp][1]
        v = 9.5 if pool is None else m.default_state_alphabet["-" if "-" in pool else "0"]
        size = max([len(r) for r in md["rows"].values()] or [0]) + 1
        try:
            with time_limit(tl):
                m.fill(v, size=size)
        except Timeout:
            return [("fill.terminates", "no return within %.2f s" % tl)], True
        md["rows"] = CM.raw_rows(m)
        bad = check_unchanged(e, skip=(k,))
        if bad:
            return [("%s.result_independent" % op["after"], "lengthening the rows of matrix %d with fill() changed: %s" % (k, "; ".join(bad)))], True
        return [], False
    e.last = None
    # ---------------------------------------------------------------- expected outcome
    np_ = len(e.mats)
    tgt = op.get("m")
    if tgt is not None:
        tgt = tgt % np_            # histories address "the latest matrix" as -1
    if "other" in op:
        op = dict(op, other=op["other"] % np_)
        if op.get("skip_if_self") and op["other"] == tgt:
            return [], False
    if "mats" in op:
        op = dict(op, mats=[i % np_ for i in op["mats"]])
    exp_rows = None        # expected rows of the target afterwards (None: unchanged)
    must_raise = None      # exception class required
    may_raise = ()         # exception classes allowed
    if o == "concatenate":
        idxs = op["mats"]
        mds = [e.model[i] for i in idxs]
        ns0 = mds[0]["ns"]
        foreign = any(md["ns"] != ns0 for md in mds)
        rms = [md["rows"] for md in mds]
        pre = (not foreign) and CM.spec_concat_precondition(rms, e.ns_taxa[ns0])
        if foreign:
            must_raise = ValueError
        elif not pre:
            may_raise = (ValueError,)
        call = lambda: e.cls.concatenate([e.mats[i] for i in idxs])  # noqa: E731
    elif o == "export_indices":
        md = e.model[tgt]
        call = lambda: e.mats[tgt].export_character_indices(_idx_arg(op["indices"], op.get("as", "list")))  # noqa: E731
    elif o == "export_subset":
        md = e.model[tgt]
        m = e.mats[tgt]
        label = "Cs%d" % len(md["subsets"])
        cs = m.new_character_subset(label=label, character_indices=list(op["indices"]))   # set-up
        md["subsets"] = CM.raw_subsets(m)
        arg = {"object": cs, "label": label, "LABEL": label.upper()}[op["by"]]
        call = lambda: m.export_character_subset(arg)  # noqa: E731
    elif o in ("fill", "pack"):
        md = e.model[tgt]
        m = e.mats[tgt]
        v = _value(e, m, op["value"])
        nst = e.ns_taxa[md["ns"]]
        if o == "fill":
            exp_rows = CM.spec_fill(md["rows"], nst, v, op["size"], op["append"])[0]
            call = lambda: m.fill(v, size=op["size"], append=op["append"])  # noqa: E731
        else:
            exp_rows = CM.spec_pack(md["rows"], nst, v, op["size"], op["append"])
            call = lambda: m.pack(value=v, size=op["size"], append=op["append"])  # noqa: E731
    elif o == "fill_taxa":
        md = e.model[tgt]
        exp_rows = CM.spec_fill_taxa(md["rows"], e.ns_taxa[md["ns"]])
        call = lambda: e.mats[tgt].fill_taxa()  # noqa: E731
    elif o in ROWOPS:
        md = e.model[tgt]
        od = e.model[op["other"]]
        other = e.mats[op["other"]]
        if od["ns"] != md["ns"]:
            must_raise = ValueError
        elif o == "add_sequences":
            exp_rows = CM.spec_add(md["rows"], od["rows"])
        elif o == "replace_sequences":
            exp_rows = CM.spec_replace(md["rows"], od["rows"])
        elif o == "update_sequences":
            exp_rows = CM.spec_update(md["rows"], od["rows"])
        elif o == "extend_sequences":
            exp_rows = CM.spec_extend_sequences(md["rows"], od["rows"], bool(op.get("add_new")))
        else:
            exp_rows = CM.spec_extend_matrix(md["rows"], od["rows"])
        if o == "extend_sequences" and "add_new" in op:
            call = lambda: e.mats[tgt].extend_sequences(other, is_add_new_sequences=op["add_new"])  # noqa: E731
        else:
            call = lambda: getattr(e.mats[tgt], o)(other)  # noqa: E731
    elif o in ("remove_sequences", "discard_sequences", "keep_sequences"):
        md = e.model[tgt]
        arg, lst = _taxa_arg(e, md["ns"], op["taxa"], op.get("as", "list"))
        if op.get("as") == "set":
            lst = list(arg)                  # a set argument names each taxon once
        if o == "remove_sequences":
            exp_rows = CM.spec_remove(md["rows"], lst)
            if exp_rows is None:
                # documented KeyError; if the call returns instead, the rows named are still the listed ones
                may_raise = (KeyError,)
                exp_rows = CM.spec_discard(md["rows"], lst)
        elif o == "discard_sequences":
            exp_rows = CM.spec_discard(md["rows"], lst)
        else:
            exp_rows = CM.spec_keep(md["rows"], lst)
        call = lambda: getattr(e.mats[tgt], o)(arg)  # noqa: E731
    else:
        raise ValueError("unknown op %r" % (o,))
    # ---------------------------------------------------------------- the real call
    raised, result = None, None
    try:
        with time_limit(tl):
            result = call()
    except Timeout:
        return [("%s.terminates" % o, "no return within %.2f s" % tl)], True
    except Exception as ex:  # noqa
        raised = ex
    name = {"export_indices": "export_character_indices", "export_subset": "export_character_subset"}.get(o, o)
    # ---------------------------------------------------------------- judge
    if raised is not None:
        allowed = (must_raise is not None and isinstance(raised, must_raise)) or (may_raise and isinstance(raised, may_raise))
        if not allowed:
            fails.append(("%s.raises" % name, "%s: %s" % (type(raised).__name__, raised)))
        # nothing may have changed, except the target of a documented KeyError of remove_sequences
        skip = (tgt,) if (o == "remove_sequences" and allowed) else ()
        bad = check_unchanged(e, skip=skip)
        if bad:
            fails.append(("%s.args_unchanged" % name, "after %s: %s" % (type(raised).__name__, "; ".join(bad))))
        if skip:
            # re-synchronise the model of the half-processed target (its state is not specified)
            e.model[tgt]["rows"] = CM.raw_rows(e.mats[tgt])
        return fails, bool(fails)
    if must_raise is not None:
        fails.append(("%s.refuses_foreign_namespace" % name, "returned normally for a matrix over a different namespace"))
        return fails, True
    if o == "concatenate":
        ok_res = isinstance(result, _cmm.CharacterMatrix) and type(result) is e.cls and result.taxon_namespace is e.nss[ns0] \
            and all(result is not e.mats[i] for i in range(len(e.mats)))
        if not ok_res:
            fails.append(("concatenate.result", "result is %r over %r" % (type(result).__name__, getattr(result, "taxon_namespace", None))))
            return fails, True
        exp = CM.spec_concatenate(rms)
        got = CM.raw_rows(result)
        if not CM.rows_eq(got, exp):
            fails.append(("concatenate.rows", "rows %s, required %s" % (R(got, ns0), R(exp, ns0))))
        if pre:
            gs = [s for _, s in CM.raw_subsets(result)]
            es = CM.spec_concat_subsets(rms)
            if gs != es:
                fails.append(("concatenate.subsets", "recorded subsets %s, required %s" % ([sorted(s) for s in gs], [sorted(s) for s in es])))
        bad = check_unchanged(e)
        if bad:
            fails.append(("concatenate.args_unchanged", "; ".join(bad)))
        e.last = e.add(result, ns0)
        return fails, bool(fails)
    if o in ("export_indices", "export_subset"):
        nsidx = md["ns"]
        ok_res = isinstance(result, _cmm.CharacterMatrix) and type(result) is e.cls and result.taxon_namespace is e.nss[nsidx] \
            and all(result is not x for x in e.mats)
        if not ok_res:
            fails.append(("%s.result" % name, "result is %r over %r" % (type(result).__name__, getattr(result, "taxon_namespace", None))))
            return fails, True
        exp = CM.spec_export(md["rows"], op["indices"])
        got = CM.raw_rows(result)
        if not CM.rows_eq(got, exp):
            fails.append(("%s.columns" % name, "rows %s, required %s" % (R(got, nsidx), R(exp, nsidx))))
        bad = check_unchanged(e)
        if bad:
            fails.append(("%s.args_unchanged" % name, "; ".join(bad)))
        e.last = e.add(result, nsidx)
        return fails, bool(fails)
    # in-place operations
    shared = _shared_rows(e)
    if shared:
        fails.append(("%s.rows_independent" % name, shared))
    got = CM.raw_rows(e.mats[tgt])
    if not CM.rows_eq(got, exp_rows):
        nsidx = md["ns"]
        fails.append(("%s.rows" % name, "rows %s, required %s" % (R(got, nsidx), R(exp_rows, nsidx))))
    md["rows"] = got
    bad = check_unchanged(e, skip=(tgt,))
    if e.mats[tgt].taxon_namespace is not e.nss[md["ns"]]:
        bad.append("target namespace object replaced")
    if e.mats[tgt].label != md["label"] or CM.raw_subsets(e.mats[tgt]) != md["subsets"]:
        bad.append("target label/subsets changed")
    if bad:
        fails.append(("%s.args_unchanged" % name, "; ".join(bad)))
    e.last = tgt
    return fails, bool(fails)


def _shared_rows(e):
    """no sequence OBJECT is listed under two taxa or in two matrices: otherwise an in-place change of one row shows in another"""
    seen = {}
    given = getattr(e, "shared_by_construction", set())
    for i, m in enumerate(e.mats):
        for tx, seq in m._taxon_sequence_map.items():
            k = id(seq)
            if k in given:
                continue   # the job itself put this object under two rows
            if k in seen and seen[k] != (i, tx.label):
                return "matrix %d row %r and matrix %d row %r are one and the same sequence object" % (seen[k][0], seen[k][1], i, tx.label)
            seen[k] = (i, tx.label)
    return None


def eval_job(job, tl=TL, _confirm=True):
    """-> list of [monitor, step, detail] (JSON-able)"""
    e = build_env(job)
    out = []
    for k, op in enumerate(job["ops"]):
        fails, stop = run_op(e, op, tl)
        for mon, det in fails:
            out.append([mon, k, det])
        if stop:
            break
    if _confirm and any(mon.endswith(".terminates") for mon, _, _ in out):
        # a genuine hang survives a 4x longer guard on a fresh environment
        return eval_job(job, tl=tl * 4, _confirm=False)
    return out


def eval_streams_job(job, tl=5.0):
    """concatenate_from_streams: hand-written FASTA / PHYLIP documents over the same labels"""
    from io import StringIO
    tp = job["type"]
    cls = getattr(_cmm, TYPES[tp][0])
    labels = NSLABELS[:job["n"]]
    texts = []
    for k, w in enumerate(job["widths"]):
        rows = [seq_for(tp, i, w, k + 1) for i in range(len(labels))]
        if job["schema"] == "fasta":
            texts.append("".join(">%s\n%s\n" % (l, r) for l, r in zip(labels, rows)))
        else:
            texts.append("%d %d\n" % (len(labels), w) + "".join("%s  %s\n" % (l, r if isinstance(r, str) else " ".join(repr(x) for x in r))
                                                                 for l, r in zip(labels, rows)))
    kw = {}
    ns = None
    if job.get("given_ns"):
        ns = TaxonNamespace(labels[::-1] + ["extra"][:0])
        kw["taxon_namespace"] = ns
    try:
        with time_limit(tl):
            res = cls.concatenate_from_streams([StringIO(t) for t in texts], schema=job["schema"], **kw)
    except Timeout:
        return [["concatenate_from_streams.terminates", 0, "no return within %.1f s" % tl]]
    except Exception as ex:  # noqa
        return [["concatenate_from_streams.raises", 0, "%s: %s" % (type(ex).__name__, ex)]]
    out = []
    if type(res) is not cls or (ns is not None and res.taxon_namespace is not ns):
        out.append(["concatenate_from_streams.result", 0, "result %s over %r" % (type(res).__name__, res.taxon_namespace)])
        return out
    got = {}
    for t, r in CM.raw_rows(res).items():
        got[t._label] = [CM.cell_token(v) if TYPES[tp][1] else v for v in r]
    want = {}
    for i, l in enumerate(labels):
        cells = []
        for k, w in enumerate(job["widths"]):
            cells += list(seq_for(tp, i, w, k + 1))
        want[l] = cells
    if got != want:
        out.append(["concatenate_from_streams.rows", 0, "rows %r, required %r" % (got, want)])
    gs = [sorted(x) for _, x in CM.raw_subsets(res)]
    es, start = [], 0
    for w in job["widths"]:
        es.append(list(range(start, start + w)))
        start += w
    if gs != es:
        out.append(["concatenate_from_streams.subsets", 0, "recorded subsets %r, required %r" % (gs, es)])
    if [t._label for t in res.taxon_namespace._taxa] != (labels[::-1] if ns is not None else labels):
        out.append(["concatenate_from_streams.result", 0, "namespace labels %r" % ([t._label for t in res.taxon_namespace._taxa],)])
    return out


def _work(item):
    scope, job, nontrivial = item
    if "widths" in job:
        return eval_streams_job(job)
    return eval_job(job)


# ----------------------------------------------------------------------------- scopes
def jobs_concat_lists(tier):
    n = 2 if tier == "quick" else 3
    out = []
    for tp in ALL_TYPES:
        full = lambda w, salt, **kw: mat(tp, [w] * n, salt, **kw)  # noqa: E731
        pool = [full(0, 1), full(1, 2), full(3, 3),
                mat(tp, [2] * (n - 1) + [None], 4),            # a taxon without sequence
                mat(tp, [2] + [1] * (n - 1), 5),               # ragged
                full(2, 6, ns=1)]                              # over the foreign namespace
        if tier != "quick":
            pool.insert(3, full(4, 7))
        for L in (1, 2, 3):
            for combo in itertools.product(range(len(pool)), repeat=L):
                used = sorted(set(combo))
                remap = {u: i for i, u in enumerate(used)}
                job = {"type": tp, "n": n, "mats": [pool[u] for u in used],
                       "ops": [{"op": "concatenate", "mats": [remap[c] for c in combo]}, {"op": "probe", "after": "concatenate"}]}
                nontriv = L >= 2 and all(pool[c]["rows"] and len(pool[c]["rows"][0][1]) > 0 for c in combo)
                out.append(("concatenate@lists<=3", job, nontriv))
    return out


def jobs_concat_labels(tier):
    out = []
    types = ["dna", "continuous"] if tier == "quick" else ALL_TYPES
    L2 = [None, "x", "X", "locus001"]
    L3 = [None, "x", "X"] if tier == "quick" else [None, "x", "X", "locus001", "locus002"]
    n = 2
    for tp in types:
        for labs in list(itertools.product(L2, repeat=2)) + list(itertools.product(L3, repeat=3)):
            mats = [mat(tp, [2] * n, 1 + i, label=lab) for i, lab in enumerate(labs)]
            job = {"type": tp, "n": n, "mats": mats, "ops": [{"op": "concatenate", "mats": list(range(len(labs)))}]}
            out.append(("concatenate@labels", job, sum(1 for x in labs if x is not None) >= 1))
        for lab in (None, "x"):          # the same object listed twice / three times
            for combo in ([0, 0], [0, 1, 0], [0, 0, 0]):
                mats = [mat(tp, [2] * n, 1, label=lab), mat(tp, [1] * n, 2, label=None)][: max(combo) + 1]
                job = {"type": tp, "n": n, "mats": mats, "ops": [{"op": "concatenate", "mats": combo}]}
                out.append(("concatenate@labels", job, True))
    return out


def _shapes5(tp, n=3):
    return [mat(tp, [4, 4, 4][:n], 1), mat(tp, [None, 4, None][:n], 2), mat(tp, [1, 1, 1][:n], 3),
            mat(tp, [4, 2, 0][:n], 4), mat(tp, [3, None, 4][:n], 5)]


def jobs_export(tier):
    out = []
    W = 4
    subsets = [list(c) for k in range(W + 1) for c in itertools.combinations(range(W), k)]
    extras = [([5], "list"), ([0, 5], "list"), ([3, 1, 1], "list"), ([2, 0], "tuple"), ([1, 3], "set"), ([0, 2], "gen"), ([3, 2, 1, 0], "list")]
    for tp in ALL_TYPES:
        for md in _shapes5(tp):
            for idx, form in [(s, "list") for s in subsets] + extras:
                job = {"type": tp, "n": 3, "mats": [md], "ops": [{"op": "export_indices", "m": 0, "indices": idx, "as": form}, {"op": "probe", "after": "export_character_indices"}]}
                out.append(("export@index-sets", job, 0 < len(set(idx)) < W))
            for idx in ([0], [1, 3], [0, 1, 2, 3], [], [2, 3, 4]):
                for by in ("object", "label", "LABEL"):
                    job = {"type": tp, "n": 3, "mats": [md], "ops": [{"op": "export_subset", "m": 0, "indices": idx, "by": by}, {"op": "probe", "after": "export_character_subset"}]}
                    out.append(("export@index-sets", job, 0 < len(idx) < W))
    return out


def jobs_fill(tier):
    out = []
    for tp in ALL_TYPES:
        pool = TYPES[tp][1]
        val = 9.5 if pool is None else ("-" if "-" in pool else "0")
        for md in _shapes5(tp) + [mat(tp, [0, 0, None], 6)]:
            ragged = len(set(len(s) for _, s in md["rows"])) > 1 or len(md["rows"]) < 3
            for o in ("fill", "pack"):
                for size in (None, 0, 2, 4, 6):
                    for app in (True, False):
                        job = {"type": tp, "n": 3, "mats": [md], "ops": [{"op": o, "m": 0, "value": val, "size": size, "append": app}]}
                        out.append(("fill-pack@shapes", job, ragged or size == 6))
                job = {"type": tp, "n": 3, "mats": [md], "ops": [{"op": o, "m": 0, "value": None, "size": None, "append": True}]}
                out.append(("fill-pack@shapes", job, ragged))
            job = {"type": tp, "n": 3, "mats": [md], "ops": [{"op": "fill_taxa", "m": 0}]}
            out.append(("fill-pack@shapes", job, len(md["rows"]) < 3))
        # one sequence object under two rows, shorter than the third row
        md = mat(tp, [2, 2, 4], 6)
        md["rows"][1][1] = md["rows"][0][1]
        md["share"] = [[1, 0]]
        for o in ("fill", "pack"):
            for size in (None, 4, 6):
                for app in (True, False):
                    job = {"type": tp, "n": 3, "mats": [md], "ops": [{"op": o, "m": 0, "value": val, "size": size, "append": app}]}
                    out.append(("fill-pack@shapes", job, True))
    return out


def _rowops():
    return [{"op": "add_sequences"}, {"op": "replace_sequences"}, {"op": "update_sequences"},
            {"op": "extend_sequences"}, {"op": "extend_sequences", "add_new": False}, {"op": "extend_sequences", "add_new": True},
            {"op": "extend_matrix"}]


def jobs_rowops(tier):
    out = []
    n = 3
    pats = list(itertools.product([None, 2, 3], repeat=n))
    small = [p for p in pats if p in ((None, None, None), (2, 2, 2), (2, None, 3), (None, 3, None), (3, 2, None), (None, None, 2))]
    for tp in ALL_TYPES:
        full = tier != "quick" or tp in ("dna", "continuous")
        P = pats if full else small
        for pa in P:
            for pb in P:
                for opd in _rowops():
                    op = dict(opd, m=0, other=1)
                    job = {"type": tp, "n": n, "mats": [mat(tp, pa, 1), mat(tp, pb, 2)], "ops": [op, {"op": "probe", "after": op["op"]}]}
                    sa = set(i for i, w in enumerate(pa) if w is not None)
                    sb = set(i for i, w in enumerate(pb) if w is not None)
                    out.append(("rowops@pairs", job, bool(sa & sb) and bool(sb - sa)))
        for pa in ((2, 2, 2), (2, None, 3), (None, None, None)):
            for opd in _rowops():
                job = {"type": tp, "n": n, "mats": [mat(tp, pa, 1), mat(tp, (3, 3, None), 2, ns=1)], "ops": [dict(opd, m=0, other=1)]}
                out.append(("rowops@foreign-namespace", job, True))
        if tp in ("dna", "continuous"):
            # a taxon with rows in both matrices (or in one of them) has been removed from the namespace they share
            for pa, pb in (((2, 2, 3), (3, 3, 2)), ((2, None, 3), (3, 2, 2)), ((2, 3, 3), (3, None, 2))):
                for opd in _rowops():
                    op = dict(opd, m=0, other=1)
                    job = {"type": tp, "n": n, "mats": [mat(tp, pa, 1), mat(tp, pb, 2)], "ns_removed": [1], "ops": [op, {"op": "probe", "after": op["op"]}]}
                    out.append(("rowops@pairs", job, True))
    return out


def jobs_rowops_self(tier):
    out = []
    types = ["dna", "continuous"] if tier == "quick" else ALL_TYPES
    for tp in types:
        for pa in ((2, 1), (0, 0), (None, None)):
            for opd in _rowops():
                if opd["op"] == "extend_sequences" and "add_new" not in opd:
                    continue
                job = {"type": tp, "n": 2, "mats": [mat(tp, pa, 1)], "ops": [dict(opd, m=0, other=0)]}
                out.append(("rowops@self", job, pa == (2, 1)))
    return out


def jobs_rowsets(tier):
    out = []
    n = 3 if tier == "quick" else 4
    pats = list(itertools.product([None, 2], repeat=n))
    args = [(list(c), "list") for k in range(n + 1) for c in itertools.combinations(range(n), k)]
    args += [([1, 0], "list"), ([0, 0], "list"), (["F"], "list"), ([0, "F"], "list"), ([2, 1, 2], "list"),
             ([0, 2], "set"), ([1, 2], "gen"), ([0, 1], "tuple"), ([n - 1, 0], "gen")]
    for tp in ALL_TYPES:
        for pa in pats:
            for idx, form in args:
                for o in ("remove_sequences", "discard_sequences", "keep_sequences"):
                    job = {"type": tp, "n": n, "mats": [mat(tp, pa, 1), mat(tp, pa, 2)], "ops": [{"op": o, "m": 0, "taxa": idx, "as": form}]}
                    present = set(i for i, w in enumerate(pa) if w is not None)
                    sel = set(i for i in idx if i != "F")
                    out.append(("rowsets@taxa-subsets", job, bool(present & sel) and bool(present - sel)))
    return out


def jobs_streams(tier):
    out = []
    for tp in ALL_TYPES:
        schema = "phylip" if tp == "continuous" else "fasta"
        for widths in ([3], [2, 3], [1, 4, 2], [2, 2]):
            for given in (False, True):
                for n in (1, 3):
                    out.append(("concatenate_from_streams", {"type": tp, "n": n, "schema": schema, "widths": widths, "given_ns": given}, len(widths) >= 2 and n >= 2))
    return out


def jobs_histories(ctx):
    tier = ctx.tier
    N = 400 if tier == "quick" else 6000
    out = []
    for h in range(N):
        rng = rng_for(ctx, 1900 + h)
        tp = ALL_TYPES[h % len(ALL_TYPES)]
        n = rng.choice([2, 3])
        pool = TYPES[tp][1]
        val = 9.5 if pool is None else ("-" if "-" in pool else "0")
        mats = []
        for k in range(3):
            if rng.random() < 0.5:
                w = rng.choice([0, 1, 2, 3])
                lens = [w] * n                      # complete and rectangular: usable by concatenate
            else:
                lens = [rng.choice([None, 0, 1, 2, 3]) for _ in range(n)]
            mats.append(mat(tp, lens, k + 1 + h % 3))
        mats.append(mat(tp, [2] * n, 9, ns=1))     # matrix 3 is over the foreign namespace
        ops = []
        npool = len(mats)
        nsof = [0, 0, 0, 1]
        for step in range(rng.choice([3, 4, 5, 6])):
            kind = rng.choice(["concat", "export", "fill", "pack", "fill_taxa", "row", "row", "row", "set", "set"])
            home = [0, 1, 2, -1, -2]        # -1/-2: the latest matrices of the pool (results of earlier steps, if any)
            if kind == "concat":
                L = rng.choice([1, 2, 3])
                lst = [rng.choice(home if rng.random() < 0.93 else [3]) for _ in range(L)]
                ops.append({"op": "concatenate", "mats": lst})
                # a result is only appended when the call returns; the driver below mirrors that
                ops[-1]["_adds"] = True
            elif kind == "export":
                idx = sorted(set(rng.randrange(0, 5) for _ in range(rng.choice([0, 1, 2, 3]))))
                if rng.random() < 0.3:
                    rng.shuffle(idx)
                ops.append({"op": "export_indices", "m": rng.choice(home), "indices": idx, "as": rng.choice(["list", "set", "gen"]), "_adds": True})
            elif kind in ("fill", "pack"):
                ops.append({"op": kind, "m": rng.choice(home), "value": val, "size": rng.choice([None, None, 0, 2, 5]), "append": rng.random() < 0.5})
            elif kind == "fill_taxa":
                ops.append({"op": "fill_taxa", "m": rng.choice(home)})
            elif kind == "row":
                opd = dict(rng.choice(_rowops()))
                m = rng.choice(home)
                others = [i for i in [0, 1, 2, -1, -2, 3] if i != m and (i != 3 or rng.random() < 0.1)]
                if not others:
                    continue
                opd.update(m=m, other=rng.choice(others), skip_if_self=True)
                ops.append(opd)
            else:
                o = rng.choice(["remove_sequences", "discard_sequences", "keep_sequences"])
                idx = [rng.choice(list(range(n)) + ["F"]) for _ in range(rng.choice([0, 1, 2, 3]))]
                ops.append({"op": o, "m": rng.choice(home), "taxa": idx, "as": rng.choice(["list", "set", "gen"])})
            # pool growth must be predictable when generating: a result is appended only when the
            # operation returns, which the generator cannot know (concatenate may legitimately
            # refuse).  So results are never used as later operands by index >= 4; instead later
            # operations address the original four matrices, and aliasing between a result and its
            # sources shows up as a change of a source (or of the result, re-checked at every step).
            ops[-1].pop("_adds", None)
            if ops[-1]["op"] != "probe" and rng.random() < 0.5:
                ops.append({"op": "probe", "after": ops[-1]["op"]})
        if ops:
            out.append(("histories@random", {"type": tp, "n": n, "mats": mats, "ops": ops}, len(ops) >= 3))
    return out


SCOPE_RULES = {
    "concatenate@lists<=3": ("every list of 1..3 matrices (with repetition of the same object) over a pool of complete matrices of "
                             "widths 0,1,3(,4), one with a taxon lacking a sequence, one ragged, one over a foreign namespace; all 8 data "
                             "types; non-trivial = >= 2 matrices, all of positive width", True),
    "concatenate@labels": ("lists of 2 and 3 complete matrices with every assignment of labels from {None,x,X,locus001}(2) / {None,x,X}(3) "
                           "(thorough: larger sets, all types) plus the same object listed 2-3 times; non-trivial = some label set", True),
    "export@index-sets": ("5 matrix shapes (3x4, 1x4, 3x1, ragged 4/2/0, a taxon absent) x every subset of 4 columns + out-of-range, "
                          "duplicate, unordered, set/tuple/generator arguments; export_character_subset by object, label, case-variant label; "
                          "all 8 types; non-trivial = proper non-empty selection", True),
    "fill-pack@shapes": ("6 matrix shapes x fill/pack x size in {None,0,2,4,6} x append in {True,False} + default pack + fill_taxa; all 8 types; "
                         "non-trivial = ragged or incomplete matrix, or size beyond the longest row", True),
    "rowops@pairs": ("add/replace/update/extend_sequences(default,False,True)/extend_matrix on every pair of row patterns "
                     "{absent,len 2,len 3}^3 (27x27, dna+continuous in quick, all types in thorough; other types 6x6 patterns); "
                     "non-trivial = taxon sets overlap and other has a new taxon", True),
    "rowops@foreign-namespace": ("the same seven calls with `other` over a different namespace object with equal labels; all 8 types", True),
    "rowops@self": ("the same calls with other = self (repeated object); non-trivial = non-empty rows", True),
    "rowsets@taxa-subsets": ("remove/discard/keep_sequences x every row-presence pattern of 3 (thorough 4) taxa x every subset of the taxa, "
                             "plus duplicates, a taxon outside the namespace, set/tuple/generator arguments; all 8 types; "
                             "non-trivial = selection splits the present rows", True),
    "concatenate_from_streams": ("1-3 hand-written FASTA (continuous: PHYLIP) documents over 1 or 3 labels, widths 1-4, with and without a "
                                 "caller-supplied namespace; all 8 types; non-trivial = >= 2 documents and >= 2 taxa", True),
    "histories@random": ("seeded random histories of 3..6 operations over three matrices + one foreign-namespace matrix (labels None, "
                         "other != self), every matrix re-compared with its model after every step; non-trivial = >= 3 operations", False),
}


def all_jobs(ctx):
    t = ctx.tier
    return (jobs_concat_lists(t) + jobs_concat_labels(t) + jobs_export(t) + jobs_fill(t) + jobs_rowops(t)
            + jobs_rowops_self(t) + jobs_rowsets(t) + jobs_streams(t) + jobs_histories(ctx))


def t2(ctx):
    items = all_jobs(ctx)
    for name, (rule, exh) in SCOPE_RULES.items():
        ctx.scope(name, rule=rule, exhaustive=exh)
    # hanging candidates are spread over the workers (chunksize 1 for the small scopes)
    slow = [it for it in items if it[0] in ("concatenate@labels", "rowops@self")]
    fast = [it for it in items if it[0] not in ("concatenate@labels", "rowops@self")]
    results = pmap(_work, slow, chunksize=1) + pmap(_work, fast, chunksize=64)
    for (scope, job, nontrivial), res in zip(slow + fast, results):
        key = job_key(job)
        ctx.case(scope, key, nontrivial=nontrivial, sample=key)
        seen = set()
        for mon, step, det in res:
            if mon in seen:
                continue
            seen.add(mon)
            ctx.fail(mon, {"key": key, "job": job, "step": step, "scope": scope},
                     detail="%s step %d (%s): %s" % (key, step, _opstr(job["ops"][step]) if "ops" in job else "concatenate_from_streams", det))


def replay(ctx, rec):
    w = rec["witness"]
    res = eval_streams_job(w["job"]) if "widths" in w["job"] else eval_job(w["job"])
    hit = [r for r in res if r[0] == rec["obligation"]]
    for r in res:
        print("  replay: %s at step %d: %s" % (r[0], r[1], r[2]))
    return not hit
