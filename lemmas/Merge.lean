import Mathlib

/-! C06: the abstract view of a tree sample is (number of trees, total weight, per-split weighted counts,
per-split multisets of edge lengths / node ages).  `update`/`extend` act on this view as componentwise
addition (contracts of TreeArray.update and SplitDistribution.update), the empty array is the zero.
Hence every partition of the trees into sub-collections (some possibly empty) merged in any arrival
order yields the same view -- and therefore the same frequencies, consensus, supports and scores,
which are functions of the view. -/

/-- the abstract view of a collection over split type `σ` -/
abbrev View (σ : Type*) := ℕ × ℚ × (σ → ℚ) × (σ → Multiset ℚ) × (σ → Multiset ℚ)

/-- merging in any arrival order: permuting the partial results does not change the merged view -/
theorem merge_order_irrelevant {σ : Type*} (parts₁ parts₂ : List (View σ)) (h : parts₁.Perm parts₂) :
    parts₁.sum = parts₂.sum := h.sum_eq

/-- merging sub-collections = summarising all trees at once, for every partition into blocks -/
theorem merge_partition_irrelevant {σ : Type*} (blocks : List (List (View σ))) :
    (blocks.map List.sum).sum = blocks.flatten.sum := by
  rw [List.sum_flatten]

/-- empty sub-collections (idle workers) contribute nothing -/
theorem merge_empty_block {σ : Type*} (parts : List (View σ)) : ((0 : View σ) :: parts).sum = parts.sum := by
  simp

/-! C05: for a threshold above one half all retained splits are pairwise found together in some tree
(two splits each contained in more than half of the trees share a tree), so they are pairwise
compatible and the greedy insertion skips none. -/
theorem majority_splits_share_a_tree {τ : Type*} [DecidableEq τ] (T A B : Finset τ)
    (hA : A ⊆ T) (hB : B ⊆ T) (ha : T.card < 2 * A.card) (hb : T.card < 2 * B.card) :
    (A ∩ B).Nonempty := by
  by_contra hne
  rw [Finset.not_nonempty_iff_eq_empty] at hne
  have hdisj : Disjoint A B := Finset.disjoint_iff_inter_eq_empty.mpr hne
  have hsub : A ∪ B ⊆ T := Finset.union_subset hA hB
  have hcard : (A ∪ B).card = A.card + B.card := Finset.card_union_of_disjoint hdisj
  have hle : (A ∪ B).card ≤ T.card := Finset.card_le_card hsub
  omega
