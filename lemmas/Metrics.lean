import Mathlib

/-! C04: metric axioms of the split-set distances, over the CONTRACT of
`false_positives_and_negatives` (fp = |S₂ \ S₁|, fn = |S₁ \ S₂|, sets of split masks)
and of `_get_length_diffs` (per-split length vectors extended by 0). -/

open Finset

variable {α : Type*} [DecidableEq α]

/-- the value `symmetric_difference` returns according to its contract: fp + fn -/
def rf (S₁ S₂ : Finset α) : ℕ := (S₂ \ S₁).card + (S₁ \ S₂).card

theorem rf_eq_card_symmDiff (S₁ S₂ : Finset α) : rf S₁ S₂ = (symmDiff S₁ S₂).card := by
  unfold rf
  have hd : Disjoint (S₁ \ S₂) (S₂ \ S₁) := disjoint_sdiff_sdiff
  have : symmDiff S₁ S₂ = (S₁ \ S₂) ∪ (S₂ \ S₁) := rfl
  rw [this, card_union_of_disjoint hd]
  omega

theorem rf_self (S : Finset α) : rf S S = 0 := by
  simp [rf]

theorem rf_comm (S₁ S₂ : Finset α) : rf S₁ S₂ = rf S₂ S₁ := by
  unfold rf; omega

theorem rf_triangle (S₁ S₂ S₃ : Finset α) : rf S₁ S₃ ≤ rf S₁ S₂ + rf S₂ S₃ := by
  rw [rf_eq_card_symmDiff, rf_eq_card_symmDiff, rf_eq_card_symmDiff]
  calc (symmDiff S₁ S₃).card ≤ (symmDiff S₁ S₂ ∪ symmDiff S₂ S₃).card :=
        card_le_card (symmDiff_triangle S₁ S₂ S₃)
    _ ≤ (symmDiff S₁ S₂).card + (symmDiff S₂ S₃).card := card_union_le _ _

theorem rf_eq_zero_iff (S₁ S₂ : Finset α) : rf S₁ S₂ = 0 ↔ S₁ = S₂ := by
  rw [rf_eq_card_symmDiff, card_eq_zero]
  exact symmDiff_eq_bot

/-- weighted Robinson-Foulds: L1 norm of the difference of the two length vectors (absent split = 0) -/
def wrf {ι : Type*} [Fintype ι] (f g : ι → ℝ) : ℝ := ∑ i, |f i - g i|

theorem wrf_self {ι : Type*} [Fintype ι] (f : ι → ℝ) : wrf f f = 0 := by simp [wrf]

theorem wrf_comm {ι : Type*} [Fintype ι] (f g : ι → ℝ) : wrf f g = wrf g f := by
  unfold wrf; exact Finset.sum_congr rfl (fun i _ => abs_sub_comm (f i) (g i))

theorem wrf_triangle {ι : Type*} [Fintype ι] (f g h : ι → ℝ) : wrf f h ≤ wrf f g + wrf g h := by
  unfold wrf
  rw [← Finset.sum_add_distrib]
  exact Finset.sum_le_sum (fun i _ => abs_sub_le (f i) (g i) (h i))

/-- Euclidean distance: L2 norm of the same difference; it is the distance of EuclideanSpace -/
theorem euclid_triangle {ι : Type*} [Fintype ι] (f g h : EuclideanSpace ℝ ι) : dist f h ≤ dist f g + dist g h :=
  dist_triangle f g h

theorem euclid_comm {ι : Type*} [Fintype ι] (f g : EuclideanSpace ℝ ι) : dist f g = dist g f := dist_comm f g

theorem euclid_formula {ι : Type*} [Fintype ι] (f g : EuclideanSpace ℝ ι) :
    dist f g = Real.sqrt (∑ i, (f i - g i) ^ 2) := by
  rw [EuclideanSpace.dist_eq]
  congr 1
  exact Finset.sum_congr rfl (fun i _ => by rw [Real.dist_eq, sq_abs])
