import Mathlib

/-!
C16 (Fitch parsimony).  One character on a fully bifurcating tree.

`BTree σ`   : the tree; a leaf carries the set of states its cell stands for (a fundamental state is a
              singleton, an ambiguity code / missing data a larger set).
`fitch t`   : what `fitch_down_pass` computes going up the tree (T1 obligations of contracts/C16fitch.py):
              at an internal node with child sets `L`, `R` the set `L ∩ R` and no cost if that is non-empty,
              otherwise `L ∪ R` and one more change.
`Asg σ`     : an assignment of one state to every node (a leaf takes one of the states its cell allows);
`changes a` : the number of edges of `a` whose two ends carry different states.

`fitch_is_minimum` : the number `fitch` returns is attained by some assignment and no assignment has fewer changes.
-/

namespace Fitch

variable {σ : Type} [DecidableEq σ]

inductive BTree (σ : Type) where
  | leaf : Finset σ → BTree σ
  | node : BTree σ → BTree σ → BTree σ

inductive Asg (σ : Type) where
  | leaf : σ → Asg σ
  | node : σ → Asg σ → Asg σ → Asg σ

def Asg.root : Asg σ → σ
  | .leaf s => s
  | .node s _ _ => s

def Asg.changes : Asg σ → ℕ
  | .leaf _ => 0
  | .node s l r => (if l.root = s then 0 else 1) + (if r.root = s then 0 else 1) + l.changes + r.changes

/-- `a` is an assignment for `t`: same shape, every leaf takes a state its cell allows -/
def Fits : BTree σ → Asg σ → Prop
  | .leaf S, .leaf s => s ∈ S
  | .node l r, .node _ a b => Fits l a ∧ Fits r b
  | _, _ => False

/-- every cell allows at least one state -/
def Proper : BTree σ → Prop
  | .leaf S => S.Nonempty
  | .node l r => Proper l ∧ Proper r

/-- the Fitch rule: (state set, number of changes) -/
def fitch : BTree σ → Finset σ × ℕ
  | .leaf S => (S, 0)
  | .node l r =>
    if ((fitch l).1 ∩ (fitch r).1).Nonempty then ((fitch l).1 ∩ (fitch r).1, (fitch l).2 + (fitch r).2)
    else ((fitch l).1 ∪ (fitch r).1, (fitch l).2 + (fitch r).2 + 1)

theorem fitch_set_nonempty : ∀ t : BTree σ, Proper t → (fitch t).1.Nonempty
  | .leaf S, h => by simpa [fitch, Proper] using h
  | .node l r, h => by
    obtain ⟨hl, hr⟩ := h
    have il := fitch_set_nonempty l hl
    have ir := fitch_set_nonempty r hr
    unfold fitch
    split_ifs with hne
    · exact hne
    · obtain ⟨x, hx⟩ := il
      exact ⟨x, Finset.mem_union_left _ hx⟩

/-- lower bound: no assignment beats the Fitch count, and one whose root state lies outside the Fitch set pays
at least one more -/
theorem fitch_lower : ∀ (t : BTree σ) (a : Asg σ), Fits t a →
    (fitch t).2 + (if a.root ∈ (fitch t).1 then 0 else 1) ≤ a.changes
  | .leaf S, .leaf s, h => by
    have hs : s ∈ S := h
    simp [fitch, Asg.root, Asg.changes, hs]
  | .leaf _, .node _ _ _, h => by exact absurd h (by simp [Fits])
  | .node _ _, .leaf _, h => by exact absurd h (by simp [Fits])
  | .node l r, .node s al ar, h => by
    obtain ⟨hl, hr⟩ := h
    have Il := fitch_lower l al hl
    have Ir := fitch_lower r ar hr
    -- a child whose state differs from s, or which itself sits outside its Fitch set, pays for s ∉ that set
    have Kl : (if s ∈ (fitch l).1 then 0 else 1) ≤ (if al.root = s then 0 else 1) + (if al.root ∈ (fitch l).1 then 0 else 1) := by
      by_cases e : al.root = s
      · subst e; split_ifs <;> omega
      · split_ifs <;> omega
    have Kr : (if s ∈ (fitch r).1 then 0 else 1) ≤ (if ar.root = s then 0 else 1) + (if ar.root ∈ (fitch r).1 then 0 else 1) := by
      by_cases e : ar.root = s
      · subst e; split_ifs <;> omega
      · split_ifs <;> omega
    have base : (fitch l).2 + (fitch r).2 + (if s ∈ (fitch l).1 then 0 else 1) + (if s ∈ (fitch r).1 then 0 else 1)
        ≤ (Asg.node s al ar).changes := by
      simp only [Asg.changes]
      omega
    simp only [Asg.root]
    unfold fitch
    split_ifs with hne hin hin
    · -- sets meet, s in the intersection
      simp only at *
      omega
    · -- sets meet, s outside the intersection: outside one of the two
      simp only at *
      have : ¬ (s ∈ (fitch l).1 ∧ s ∈ (fitch r).1) := by
        intro hh; exact hin (Finset.mem_inter.mpr hh)
      by_cases h1 : s ∈ (fitch l).1 <;> by_cases h2 : s ∈ (fitch r).1 <;> simp [h1, h2] at base this ⊢ <;> omega
    · -- sets disjoint, s in the union: outside at least one of the two
      simp only at *
      have : ¬ (s ∈ (fitch l).1 ∧ s ∈ (fitch r).1) := by
        intro hh; exact hne ⟨s, Finset.mem_inter.mpr hh⟩
      by_cases h1 : s ∈ (fitch l).1 <;> by_cases h2 : s ∈ (fitch r).1 <;> simp [h1, h2] at base this ⊢ <;> omega
    · -- sets disjoint, s outside the union: outside both
      simp only at *
      have h1 : s ∉ (fitch l).1 := fun hh => hin (Finset.mem_union_left _ hh)
      have h2 : s ∉ (fitch r).1 := fun hh => hin (Finset.mem_union_right _ hh)
      simp [h1, h2] at base ⊢
      omega

/-- attainment: every state of the Fitch set is the root state of an assignment with exactly the Fitch count -/
theorem fitch_attained : ∀ (t : BTree σ), Proper t → ∀ s ∈ (fitch t).1,
    ∃ a : Asg σ, Fits t a ∧ a.root = s ∧ a.changes = (fitch t).2
  | .leaf S, _, s, hs => by
    refine ⟨.leaf s, ?_, rfl, ?_⟩
    · simpa [fitch, Fits] using hs
    · simp [Asg.changes, fitch]
  | .node l r, hp, s, hs => by
    obtain ⟨pl, pr⟩ := hp
    have Al := fitch_attained l pl
    have Ar := fitch_attained r pr
    unfold fitch at hs ⊢
    split_ifs at hs ⊢ with hne
    · obtain ⟨h1, h2⟩ := Finset.mem_inter.mp hs
      obtain ⟨al, fl, rl, cl⟩ := Al s h1
      obtain ⟨ar, fr, rr, cr⟩ := Ar s h2
      refine ⟨.node s al ar, ⟨fl, fr⟩, rfl, ?_⟩
      simp [Asg.changes, rl, rr, cl, cr]
    · have hdis : ¬ (s ∈ (fitch l).1 ∧ s ∈ (fitch r).1) := by
        intro hh; exact hne ⟨s, Finset.mem_inter.mpr hh⟩
      rcases Finset.mem_union.mp hs with h1 | h2
      · have h2 : s ∉ (fitch r).1 := fun hh => hdis ⟨h1, hh⟩
        obtain ⟨u, hu⟩ := fitch_set_nonempty r pr
        obtain ⟨al, fl, rl, cl⟩ := Al s h1
        obtain ⟨ar, fr, rr, cr⟩ := Ar u hu
        have hne' : u ≠ s := fun e => h2 (e ▸ hu)
        refine ⟨.node s al ar, ⟨fl, fr⟩, rfl, ?_⟩
        simp [Asg.changes, rl, rr, cl, cr, hne']
        omega
      · have h1 : s ∉ (fitch l).1 := fun hh => hdis ⟨hh, h2⟩
        obtain ⟨u, hu⟩ := fitch_set_nonempty l pl
        obtain ⟨al, fl, rl, cl⟩ := Al u hu
        obtain ⟨ar, fr, rr, cr⟩ := Ar s h2
        have hne' : u ≠ s := fun e => h1 (e ▸ hu)
        refine ⟨.node s al ar, ⟨fl, fr⟩, rfl, ?_⟩
        simp [Asg.changes, rl, rr, cl, cr, hne']
        omega

/-- the number the Fitch rule returns is the minimum number of changes over all assignments -/
theorem fitch_is_minimum (t : BTree σ) (hp : Proper t) :
    (∃ a : Asg σ, Fits t a ∧ a.changes = (fitch t).2) ∧ (∀ a : Asg σ, Fits t a → (fitch t).2 ≤ a.changes) := by
  constructor
  · obtain ⟨s, hs⟩ := fitch_set_nonempty t hp
    obtain ⟨a, fa, _, ca⟩ := fitch_attained t hp s hs
    exact ⟨a, fa, ca⟩
  · intro a fa
    have := fitch_lower t a fa
    omega

/-- the Fitch count does not depend on the order of the two children -/
theorem fitch_child_order (l r : BTree σ) :
    (fitch (.node l r)).2 = (fitch (.node r l)).2 ∧ (fitch (.node l r)).1 = (fitch (.node r l)).1 := by
  unfold fitch
  rw [Finset.inter_comm (fitch r).1 (fitch l).1, Finset.union_comm (fitch r).1 (fitch l).1]
  split_ifs <;> simp [Nat.add_comm]

end Fitch
