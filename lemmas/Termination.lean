import Mathlib

/-- C19 (concatenate label loop).  The loop body sets `cs_label := fmt i; i := i + 1` while
`cs_label ∈ S`.  If `fmt` is injective and `S` is a finite set that the loop does not modify,
some counter value `j ≥ i` has `fmt j ∉ S`, so the loop exits after finitely many iterations. -/
theorem injective_escapes_finite {α : Type*} (fmt : ℕ → α) (hinj : Function.Injective fmt)
    (S : Set α) (hS : S.Finite) (i : ℕ) : ∃ j, i ≤ j ∧ fmt j ∉ S := by
  by_contra h
  push_neg at h
  have hsub : (fun k => fmt (i + k)) '' Set.univ ⊆ S := by
    rintro x ⟨k, -, rfl⟩
    exact h (i + k) (Nat.le_add_right i k)
  have hinj' : Function.Injective (fun k => fmt (i + k)) := by
    intro a b hab
    have := hinj hab
    omega
  have hinf : ((fun k => fmt (i + k)) '' Set.univ).Infinite := by
    rw [Set.image_univ]
    exact Set.infinite_range_of_injective hinj'
  exact hinf (hS.subset hsub)
