import Mathlib

/-! C01: the local equations established by the traversal loop of `Tree.encode_bipartitions`
(contracts/C01enc.py, obligation `loop0.after[local-equations]`) have exactly one solution on a finite
rooted tree: the mask of an edge is the set of taxon bits on the leaves below it.

A tree is a node with an optional taxon bit and a list of child trees.  `leaves` is the specification
("the taxa below"); a labelling `m` of the subtrees of `root` satisfies the local equations when
  * a node without children is labelled with its own taxon bit (nothing if it has no taxon), and
  * a node with children is labelled with the union of its children's labels.
`local_equations_unique` is the structural induction the solver does not do; `encodings_agree` and
`leaves_subset_root` are the two consequences the other properties use (equal trees have equal encodings;
masking every label with the root's label changes nothing). -/

inductive RTree where
  | node : Option ℕ → List RTree → RTree

namespace RTree

def leaves : RTree → Finset ℕ
  | node t [] => t.toFinset
  | node _ (c :: cs) => (c :: cs).attach.foldr (fun x acc => leaves x.1 ∪ acc) ∅
decreasing_by
  all_goals simp_wf
  all_goals
    have := List.sizeOf_lt_of_mem x.2
    simp at this ⊢
    omega

theorem foldr_attach_eq {α : Type*} (l : List α) (f : α → Finset ℕ) :
    l.attach.foldr (fun x acc => f x.1 ∪ acc) ∅ = (l.map f).foldr (· ∪ ·) ∅ := by
  rw [List.foldr_map]
  exact List.foldr_attach (l := l) (f := fun a acc => f a ∪ acc) (b := ∅)

theorem leaves_cons (t : Option ℕ) (c : RTree) (cs : List RTree) :
    leaves (node t (c :: cs)) = ((c :: cs).map leaves).foldr (· ∪ ·) ∅ := by
  rw [leaves, foldr_attach_eq]

end RTree

namespace RTree

inductive Sub : RTree → RTree → Prop
  | refl (r : RTree) : Sub r r
  | child {r : RTree} {t : Option ℕ} {cs : List RTree} {c : RTree} : Sub r (node t cs) → c ∈ cs → Sub r c

theorem local_equations_unique (root : RTree) (m : RTree → Finset ℕ)
    (hleaf : ∀ t, Sub root (node t []) → m (node t []) = t.toFinset)
    (hint : ∀ t c cs, Sub root (node t (c :: cs)) →
      m (node t (c :: cs)) = ((c :: cs).map m).foldr (· ∪ ·) ∅) :
    ∀ x, Sub root x → m x = leaves x := by
  intro x
  induction' hn : sizeOf x using Nat.strong_induction_on with n ih generalizing x
  intro hx
  cases x with
  | node t cs =>
    cases cs with
    | nil => rw [hleaf t hx, leaves]
    | cons c cs =>
      rw [hint t c cs hx, leaves_cons]
      congr 1
      apply List.map_congr_left
      intro a ha
      have hlt : sizeOf a < sizeOf (node t (c :: cs)) := by
        have := List.sizeOf_lt_of_mem ha
        simp at this ⊢
        omega
      exact ih (sizeOf a) (hn ▸ hlt) a rfl (Sub.child hx ha)

/-- consequence used by C04/C05/C06: two well-formed encodings of the same tree agree -/
theorem encodings_agree (root : RTree) (m₁ m₂ : RTree → Finset ℕ)
    (h₁l : ∀ t, Sub root (node t []) → m₁ (node t []) = t.toFinset)
    (h₁i : ∀ t c cs, Sub root (node t (c :: cs)) → m₁ (node t (c :: cs)) = ((c :: cs).map m₁).foldr (· ∪ ·) ∅)
    (h₂l : ∀ t, Sub root (node t []) → m₂ (node t []) = t.toFinset)
    (h₂i : ∀ t c cs, Sub root (node t (c :: cs)) → m₂ (node t (c :: cs)) = ((c :: cs).map m₂).foldr (· ∪ ·) ∅) :
    ∀ x, Sub root x → m₁ x = m₂ x := by
  intro x hx
  rw [local_equations_unique root m₁ h₁l h₁i x hx, local_equations_unique root m₂ h₂l h₂i x hx]

theorem mem_foldr_union {l : List RTree} {c : RTree} (f : RTree → Finset ℕ) (hc : c ∈ l) :
    f c ⊆ (l.map f).foldr (· ∪ ·) ∅ := by
  induction l with
  | nil => simp at hc
  | cons e es ihl =>
    intro b hb
    simp only [List.map_cons, List.foldr_cons, Finset.mem_union]
    rcases List.mem_cons.mp hc with h | h
    · left; rw [← h]; exact hb
    · right; exact ihl h hb

/-- every mask is contained in its parent's, hence in the root's: masking with the tree's leaf set (the compile phase
after the loop) changes nothing -/
theorem leaves_subset_of_mem {t : Option ℕ} {cs : List RTree} {c : RTree} (hc : c ∈ cs) :
    leaves c ⊆ leaves (node t cs) := by
  cases cs with
  | nil => simp at hc
  | cons d ds =>
    rw [leaves_cons]
    exact mem_foldr_union leaves hc

theorem leaves_subset_root {root x : RTree} (h : Sub root x) : leaves x ⊆ leaves root := by
  induction h with
  | refl => exact Finset.Subset.refl _
  | child _ hc ih => exact (leaves_subset_of_mem hc).trans ih

end RTree
